(* TypeRules.v — C18 model (no proofs): the part of Rust's type checking that decides whether a program of the
   misuse catalogue compiles, as a function of the impl table regenerated from /repo (Gen/Impls.v).

   - types are first-order terms ([ty]); the table lists structs (bounds, field visibility), trait impl headers
     (pattern, where-bounds, associated types) and inherent methods (impl pattern, bounds, argument types);
   - [holds] is fuelled Horn-clause resolution of a trait obligation on a ground type against the impl headers,
     [norm] normalises projections (<P as Purpose>::SealingKey, <V as HasKey<K>>::Key), [wf] checks the bounds a
     struct declares on its parameters;
   - [check T op] type-checks the one-line program of the catalogue entry [op]: well-formedness of the types in
     the probe's signature (else E0277), method lookup by receiver pattern + impl bounds (else E0599), argument
     type equality after substitution and normalisation (else E0308), trait obligations of format!/serde/
     generic bounds (else E0277), field visibility (else E0616/E0609).
   - [misuse] / [intended] transcribe the property statement; [all_ops] enumerates the finite domain.
   The correspondence harness (tools/c18_harness.py) compiles every entry with rustc and compares. *)
From Coq Require Import String List Bool Ascii.
Import ListNotations.
Local Open Scope string_scope.
Local Open Scope list_scope.

(* ------------------------------------------------------------------ the finite domain *)

Inductive ver := V1 | V2 | V3 | V3A | V4 | V4S.
Inductive kind := Local | Public | Secret | PkePublic | PkeSecret.
Inductive purpose := PLocal | PPublic.

Definition all_vers : list ver := [V1; V2; V3; V3A; V4; V4S].
Definition all_kinds : list kind := [Local; Public; Secret; PkePublic; PkeSecret].
Definition all_purposes : list purpose := [PLocal; PPublic].

Definition ver_eqb (a b : ver) : bool :=
  match a, b with V1, V1 | V2, V2 | V3, V3 | V3A, V3A | V4, V4 | V4S, V4S => true | _, _ => false end.
Definition kind_eqb (a b : kind) : bool :=
  match a, b with Local, Local | Public, Public | Secret, Secret | PkePublic, PkePublic | PkeSecret, PkeSecret => true
  | _, _ => false end.
Definition purpose_eqb (a b : purpose) : bool :=
  match a, b with PLocal, PLocal | PPublic, PPublic => true | _, _ => false end.

(* the crate each version lives in (the key of [t_versions]) *)
Definition ver_crate (v : ver) : string :=
  match v with V1 => "paseto-v1" | V2 => "paseto-v2" | V3 => "paseto-v3" | V3A => "paseto-v3-aws-lc"
  | V4 => "paseto-v4" | V4S => "paseto-v4-sodium" end.

Definition kind_name (k : kind) : string :=
  match k with Local => "Local" | Public => "Public" | Secret => "Secret" | PkePublic => "PkePublic" | PkeSecret => "PkeSecret" end.

Definition purpose_kind (p : purpose) : kind := match p with PLocal => Local | PPublic => Public end.
(* the key kind that seals tokens of purpose p (what the statement calls the signing / encryption key) *)
Definition sealing_kind (p : purpose) : kind := match p with PLocal => Local | PPublic => Secret end.

Definition secret_kind (k : kind) : bool := match k with Local | Secret | PkeSecret => true | _ => false end.
Definition public_kind (k : kind) : bool := match k with Public | PkePublic => true | _ => false end.
Definition wrappable_kind (k : kind) : bool := match k with Local | Secret => true | _ => false end.

(* ------------------------------------------------------------------ type terms and the table *)

Inductive ty :=
| Var (x : string)
| App (c : string) (args : list ty)                               (* constructor applied: Key<V, K>, &T, (), Local *)
| Proj (self : ty) (tr : string) (targs : list ty) (a : string).  (* <self as tr<targs>>::a *)

Record bound := mkBound { b_ty : ty; b_trait : string; b_args : list ty }.

Record struct := mkStruct {
  s_src : string; s_name : string; s_params : list string; s_where : list bound;
  s_fields : list (string * string) }.                           (* field, visibility ("pub", "pub(crate)", "") *)

Record impl := mkImpl {
  i_src : string; i_params : list string; i_trait : string; i_targs : list ty; i_self : ty;
  i_where : list bound; i_assoc : list (string * ty) }.

Record method := mkMethod {
  m_src : string; m_params : list string; m_self : ty; m_where : list bound; m_name : string;
  m_vis : string; m_recv : string; m_args : list ty; m_ret : ty }.

Record table := mkTable {
  t_versions : list (string * ty); t_structs : list struct; t_impls : list impl; t_methods : list method }.

(* ------------------------------------------------------------------ terms: equality, substitution, matching *)

Fixpoint ty_eqb (a b : ty) {struct a} : bool :=
  let fix eql (l m : list ty) {struct l} : bool :=
    match l, m with
    | [], [] => true
    | x :: l', y :: m' => ty_eqb x y && eql l' m'
    | _, _ => false
    end in
  match a, b with
  | Var x, Var y => String.eqb x y
  | App c l, App d m => String.eqb c d && eql l m
  | Proj s t l x, Proj s' t' m y => ty_eqb s s' && String.eqb t t' && eql l m && String.eqb x y
  | _, _ => false
  end.

Definition subst := list (string * ty).

Fixpoint lookup {A} (x : string) (l : list (string * A)) : option A :=
  match l with
  | [] => None
  | (y, v) :: r => if String.eqb x y then Some v else lookup x r
  end.

Fixpoint tsubst (s : subst) (t : ty) {struct t} : ty :=
  match t with
  | Var x => match lookup x s with Some u => u | None => Var x end
  | App c l => App c (map (tsubst s) l)
  | Proj u tr l a => Proj (tsubst s u) tr (map (tsubst s) l) a
  end.

Definition bsubst (s : subst) (b : bound) : bound :=
  mkBound (tsubst s b.(b_ty)) b.(b_trait) (map (tsubst s) b.(b_args)).

(* one-way matching of an impl pattern against a ground type; projections never occur in impl headers *)
Fixpoint tmatch (pat tgt : ty) (s : subst) {struct pat} : option subst :=
  match pat with
  | Var x =>
      match lookup x s with
      | Some u => if ty_eqb u tgt then Some s else None
      | None => Some ((x, tgt) :: s)
      end
  | App c ps =>
      match tgt with
      | App d ts =>
          if String.eqb c d then
            (fix go (ps : list ty) (ts : list ty) (s : subst) {struct ps} : option subst :=
               match ps, ts with
               | [], [] => Some s
               | p :: ps', t :: ts' =>
                   match tmatch p t s with Some s' => go ps' ts' s' | None => None end
               | _, _ => None
               end) ps ts s
          else None
      | _ => None
      end
  | Proj _ _ _ _ => None
  end.

Fixpoint tmatch_list (ps ts : list ty) (s : subst) : option subst :=
  match ps, ts with
  | [], [] => Some s
  | p :: ps', t :: ts' => match tmatch p t s with Some s' => tmatch_list ps' ts' s' | None => None end
  | _, _ => None
  end.

(* ------------------------------------------------------------------ resolution *)

(* three-valued answers: the third value is "ran out of fuel" and is proved never to occur on the domain *)
Inductive res (A : Type) := Yes (a : A) | No | Fuel.
Arguments Yes {A} a.
Arguments No {A}.
Arguments Fuel {A}.

Definition rbind {A B} (r : res A) (f : A -> res B) : res B :=
  match r with Yes a => f a | No => No | Fuel => Fuel end.

Fixpoint rall {A} (f : A -> res unit) (l : list A) : res unit :=
  match l with
  | [] => Yes tt
  | x :: r => rbind (f x) (fun _ => rall f r)
  end.

Fixpoint rmap {A B} (f : A -> res B) (l : list A) : res (list B) :=
  match l with
  | [] => Yes []
  | x :: r => rbind (f x) (fun y => rbind (rmap f r) (fun ys => Yes (y :: ys)))
  end.

(* the first impl of trait tr whose header matches (coherence: at most one does) *)
Fixpoint header_match (is : list impl) (tr : string) (targs : list ty) (self : ty) : option (impl * subst) :=
  match is with
  | [] => None
  | i :: r =>
      if String.eqb i.(i_trait) tr then
        match tmatch i.(i_self) self [] with
        | Some s =>
            match tmatch_list i.(i_targs) targs s with
            | Some s' => Some (i, s')
            | None => header_match r tr targs self
            end
        | None => header_match r tr targs self
        end
      else header_match r tr targs self
  end.

(* norm: normalise the projections of a ground type; select: the impl that discharges `self : tr<targs>`
   (header matches and its where-bounds hold). *)
Fixpoint norm (T : table) (fuel : nat) (t : ty) {struct fuel} : res ty :=
  match fuel with
  | 0 => Fuel
  | S f =>
      (fix nt (t : ty) {struct t} : res ty :=
         let fix nl (l : list ty) {struct l} : res (list ty) :=
           match l with
           | [] => Yes []
           | x :: r => rbind (nt x) (fun x' => rbind (nl r) (fun r' => Yes (x' :: r')))
           end in
         match t with
         | Var x => Yes (Var x)
         | App c l => rbind (nl l) (fun l' => Yes (App c l'))
         | Proj u tr l a =>
             rbind (nt u) (fun u' =>
             rbind (nl l) (fun l' =>
             rbind (select T f tr l' u') (fun '(i, s) =>
             match lookup a i.(i_assoc) with
             | Some rhs => norm T f (tsubst s rhs)
             | None => No
             end)))
         end) t
  end
with select (T : table) (fuel : nat) (tr : string) (targs : list ty) (self : ty) {struct fuel} : res (impl * subst) :=
  match fuel with
  | 0 => Fuel
  | S f =>
      match header_match T.(t_impls) tr targs self with
      | None => No
      | Some (i, s) =>
          rbind (rall (fun b =>
                         let b' := bsubst s b in
                         rbind (norm T f b'.(b_ty)) (fun t' =>
                         rbind (rmap (norm T f) b'.(b_args)) (fun a' =>
                         rbind (select T f b'.(b_trait) a' t') (fun _ => Yes tt))))
                      i.(i_where))
                (fun _ => Yes (i, s))
      end
  end.

Definition holds (T : table) (fuel : nat) (b : bound) : res unit :=
  rbind (norm T fuel b.(b_ty)) (fun t' =>
  rbind (rmap (norm T fuel) b.(b_args)) (fun a' =>
  rbind (select T fuel b.(b_trait) a' t') (fun _ => Yes tt))).

Fixpoint find_struct (ss : list struct) (c : string) : option struct :=
  match ss with
  | [] => None
  | s :: r => if String.eqb s.(s_name) c then Some s else find_struct r c
  end.

Fixpoint zip {A B} (l : list A) (m : list B) : list (A * B) :=
  match l, m with x :: l', y :: m' => (x, y) :: zip l' m' | _, _ => [] end.

(* well-formedness: every struct application satisfies the bounds the struct declares (types that are not
   structs of the table — references, (), foreign types — declare none) *)
Fixpoint wf (T : table) (fuel : nat) (t : ty) {struct t} : res unit :=
  match t with
  | Var _ => Yes tt
  | App c l =>
      rbind ((fix wl (l : list ty) : res unit :=
                match l with [] => Yes tt | x :: r => rbind (wf T fuel x) (fun _ => wl r) end) l)
            (fun _ =>
               match find_struct T.(t_structs) c with
               | None => Yes tt
               | Some s =>
                   if Nat.eqb (length s.(s_params)) (length l)
                   then rall (fun b => holds T fuel (bsubst (zip s.(s_params) l) b)) s.(s_where)
                   else No
               end)
  | Proj u _ l _ => wf T fuel u
  end.

(* ------------------------------------------------------------------ outcomes of type-checking a probe *)

Inductive code :=
| E0277   (* trait bound not satisfied (also: ill-formed type in the signature) *)
| E0308   (* mismatched types *)
| E0599   (* no method / method exists but its bounds are not satisfied *)
| E0609   (* no such field *)
| E0616   (* private field *)
| E0624   (* private method *)
| E0034   (* ambiguous method *)
| EFuel   (* model ran out of fuel  — never on the domain (theorem) *)
| ETable. (* table lacks something the model needs — never on the domain (theorem) *)

Inductive outcome := Accept | Reject (c : code).

Definition accepted (o : outcome) : bool := match o with Accept => true | Reject _ => false end.
Definition model_error (o : outcome) : bool :=
  match o with Reject EFuel | Reject ETable => true | _ => false end.

Definition fuel0 : nat := 12.

Definition need (r : res unit) (c : code) (k : outcome) : outcome :=
  match r with Yes _ => k | No => Reject c | Fuel => Reject EFuel end.

(* applicable inherent methods: name, impl pattern matches the receiver type, impl bounds hold *)
Fixpoint applicable (T : table) (ms : list method) (name : string) (recv : ty) : res (list (method * subst)) :=
  match ms with
  | [] => Yes []
  | m :: r =>
      rbind (applicable T r name recv) (fun rest =>
        if String.eqb m.(m_name) name then
          match tmatch m.(m_self) recv [] with
          | Some s =>
              match rall (fun b => holds T fuel0 (bsubst s b)) m.(m_where) with
              | Yes _ => Yes ((m, s) :: rest)
              | No => Yes rest
              | Fuel => Fuel
              end
          | None => Yes rest
          end
        else Yes rest)
  end.

(* `recv.name(.., arg, ..)` where arg is the [argi]-th declared argument (the others are supplied correctly by the
   probe and are not modelled); [others] are further types named in the probe's signature *)
Definition call (T : table) (recv : ty) (name : string) (argi : nat) (arg : option ty) : outcome :=
  need (wf T fuel0 recv) E0277
  (need (match arg with Some a => wf T fuel0 a | None => Yes tt end) E0277
  (match applicable T T.(t_methods) name recv with
   | Fuel => Reject EFuel
   | No => Reject ETable
   | Yes [] => Reject E0599
   | Yes [(m, s)] =>
       if negb (String.eqb m.(m_vis) "pub") then Reject E0624 else
       match arg with
       | None => Accept
       | Some a =>
           match nth_error m.(m_args) argi with
           | None => Reject ETable
           | Some expected =>
               match norm T fuel0 (tsubst s expected) with
               | Yes e => if ty_eqb e a then Accept else Reject E0308
               | No => Reject E0277
               | Fuel => Reject EFuel
               end
           end
       end
   | Yes _ => Reject E0034
   end)).

(* ------------------------------------------------------------------ the catalogue *)

Inductive seal_m := MSeal | MEncrypt | MSign.
Inductive unseal_m := MUnseal | MDecrypt | MVerify.
Inductive trait_probe := TDisplay | TDebug | TSerialize | TDeserialize | TFromStr | TClone.

(* the types values of which a probe formats / serialises / reads fields of *)
Inductive subject :=
| SKey (v : ver) (k : kind)
| SKeyText (v : ver) (k : kind)
| SKeyId (v : ver) (k : kind)
| SSealed (v : ver) (p : purpose)        (* SealedToken<V, P, Msg, ()>  = SignedToken / EncryptedToken *)
| SUnsealed (v : ver) (p : purpose)      (* UnsealedToken<V, P, Msg, ()> *)
| SPie (v : ver) (k : kind)
| SPw (v : ver) (k : kind)
| SSealedKey (v : ver).

Inductive op :=
(* UnsealedToken<vt, p, Msg, ()> . seal/encrypt/sign ( &Key<vk, k> ) *)
| OSeal (m : seal_m) (vt : ver) (p : purpose) (vk : ver) (k : kind)
(* SealedToken<vt, p, Msg, ()> . unseal/decrypt/verify ( &Key<vk, k> ) *)
| OUnseal (m : unseal_m) (vt : ver) (p : purpose) (vk : ver) (k : kind)
(* Key<vk, k> . wrap_pie ( &Key<vw, kw> ) *)
| OWrapPie (vk : ver) (k : kind) (vw : ver) (kw : kind)
(* PieWrappedKey<vk, k> . unwrap ( &Key<vw, kw> ) *)
| OUnwrapPie (vk : ver) (k : kind) (vw : ver) (kw : kind)
(* Key<v, k> . password_wrap ( pw ) ;  PasswordWrappedKey<v, k> . unwrap ( pw ) *)
| OPwWrap (v : ver) (k : kind)
| OPwUnwrap (v : ver) (k : kind)
(* Key<vk, k> . seal ( &Key<vw, kw> )   — PKE; the method exists on LocalKey only *)
| OSealKey (vk : ver) (k : kind) (vw : ver) (kw : kind)
(* SealedKey<v> . unseal ( &Key<vw, kw> ) *)
| OUnsealKey (v : ver) (vw : ver) (kw : kind)
(* Key<v, k> . expose_key() / public_key() / id() *)
| OExpose (v : ver) (k : kind)
| OPublicKey (v : ver) (k : kind)
| OKeyId (v : ver) (k : kind)
(* format!("{}", x) / format!("{:?}", x) / serde_json::to_string(x) / T: DeserializeOwned / T: FromStr / T: Clone *)
| OTrait (tr : trait_probe) (s : subject)
(* x.field from outside the crate *)
| OField (s : subject) (f : string)
(* is <V as HasKey<k1>>::Key the same Rust type as <V as HasKey<k2>>::Key (informational: backends may share
   the type of PKE and signing keys below the Key<V, K> wrapper) *)
| OSameInner (v : ver) (k1 k2 : kind).

(* ---- the Rust types of the probes *)

Definition unit_ty : ty := App "()" [].
Definition msg_ty : ty := App "Msg" [].         (* the probe's own payload type, `impl Payload for Msg` *)
Definition ref_ty (t : ty) : ty := App "&" [t].
Definition kind_ty (k : kind) : ty := App (kind_name k) [].
Definition purpose_ty (p : purpose) : ty := kind_ty (purpose_kind p).

(* what every probe file declares itself — the payload type Msg is made as capable as a payload can be, so that a
   bounded impl (`impl<.., M: Serialize> Serialize for UnsealedToken<..>`) is exercised — and what std / serde provide
   for the unit footer type *)
Definition probe_impls : list impl :=
  map (fun tr => mkImpl "probe" [] tr [] msg_ty [] [])
      ["Payload"; "Clone"; "Debug"; "Display"; "FromStr"; "Serialize"; "Deserialize"; "Default"; "PartialEq"; "Eq"; "Hash"]
  ++ map (fun tr => mkImpl "std" [] tr [] unit_ty [] [])
      ["Clone"; "Copy"; "Debug"; "Serialize"; "Deserialize"; "Default"; "PartialEq"; "Eq"; "Hash"].

Definition with_probe (T : table) : table :=
  mkTable T.(t_versions) T.(t_structs) (T.(t_impls) ++ probe_impls) T.(t_methods).

Definition ver_ty (T : table) (v : ver) : option ty := lookup (ver_crate v) T.(t_versions).

Definition key_ty (V : ty) (k : kind) : ty := App "Key" [V; kind_ty k].

Definition subject_ty (T : table) (s : subject) : option ty :=
  match s with
  | SKey v k => option_map (fun V => key_ty V k) (ver_ty T v)
  | SKeyText v k => option_map (fun V => App "KeyText" [V; kind_ty k]) (ver_ty T v)
  | SKeyId v k => option_map (fun V => App "KeyId" [V; kind_ty k]) (ver_ty T v)
  | SSealed v p => option_map (fun V => App "SealedToken" [V; purpose_ty p; msg_ty; unit_ty]) (ver_ty T v)
  | SUnsealed v p => option_map (fun V => App "UnsealedToken" [V; purpose_ty p; msg_ty; unit_ty]) (ver_ty T v)
  | SPie v k => option_map (fun V => App "PieWrappedKey" [V; kind_ty k]) (ver_ty T v)
  | SPw v k => option_map (fun V => App "PasswordWrappedKey" [V; kind_ty k]) (ver_ty T v)
  | SSealedKey v => option_map (fun V => App "SealedKey" [V]) (ver_ty T v)
  end.

Definition subject_struct (s : subject) : string :=
  match s with
  | SKey _ _ => "Key" | SKeyText _ _ => "KeyText" | SKeyId _ _ => "KeyId" | SSealed _ _ => "SealedToken"
  | SUnsealed _ _ => "UnsealedToken" | SPie _ _ => "PieWrappedKey" | SPw _ _ => "PasswordWrappedKey"
  | SSealedKey _ => "SealedKey"
  end.

Definition seal_name (m : seal_m) : string :=
  match m with MSeal => "seal" | MEncrypt => "encrypt" | MSign => "sign" end.
Definition unseal_name (m : unseal_m) : string :=
  match m with MUnseal => "unseal" | MDecrypt => "decrypt" | MVerify => "verify" end.
Definition trait_name (t : trait_probe) : string :=
  match t with TDisplay => "Display" | TDebug => "Debug" | TSerialize => "Serialize" | TDeserialize => "Deserialize"
  | TFromStr => "FromStr" | TClone => "Clone" end.

Definition with2 (a b : option ty) (f : ty -> ty -> outcome) : outcome :=
  match a, b with Some x, Some y => f x y | _, _ => Reject ETable end.
Definition with1 (a : option ty) (f : ty -> outcome) : outcome :=
  match a with Some x => f x | None => Reject ETable end.

Definition check (T0 : table) (o : op) : outcome :=
  let T := with_probe T0 in
  match o with
  | OSeal m vt p vk k =>
      with2 (subject_ty T (SUnsealed vt p)) (ver_ty T vk) (fun tok Vk =>
        call T tok (seal_name m) 0 (Some (ref_ty (key_ty Vk k))))
  | OUnseal m vt p vk k =>
      with2 (subject_ty T (SSealed vt p)) (ver_ty T vk) (fun tok Vk =>
        call T tok (unseal_name m) 0 (Some (ref_ty (key_ty Vk k))))
  | OWrapPie vk k vw kw =>
      with2 (ver_ty T vk) (ver_ty T vw) (fun Vk Vw => call T (key_ty Vk k) "wrap_pie" 0 (Some (ref_ty (key_ty Vw kw))))
  | OUnwrapPie vk k vw kw =>
      with2 (subject_ty T (SPie vk k)) (ver_ty T vw) (fun w Vw => call T w "unwrap" 0 (Some (ref_ty (key_ty Vw kw))))
  | OPwWrap v k => with1 (ver_ty T v) (fun V => call T (key_ty V k) "password_wrap" 0 None)
  | OPwUnwrap v k => with1 (subject_ty T (SPw v k)) (fun w => call T w "unwrap" 0 None)
  | OSealKey vk k vw kw =>
      with2 (ver_ty T vk) (ver_ty T vw) (fun Vk Vw => call T (key_ty Vk k) "seal" 0 (Some (ref_ty (key_ty Vw kw))))
  | OUnsealKey v vw kw =>
      with2 (subject_ty T (SSealedKey v)) (ver_ty T vw) (fun s Vw => call T s "unseal" 0 (Some (ref_ty (key_ty Vw kw))))
  | OExpose v k => with1 (ver_ty T v) (fun V => call T (key_ty V k) "expose_key" 0 None)
  | OPublicKey v k => with1 (ver_ty T v) (fun V => call T (key_ty V k) "public_key" 0 None)
  | OKeyId v k => with1 (ver_ty T v) (fun V => call T (key_ty V k) "id" 0 None)
  | OTrait tr s =>
      with1 (subject_ty T s) (fun t =>
        need (wf T fuel0 t) E0277 (need (holds T fuel0 (mkBound t (trait_name tr) [])) E0277 Accept))
  | OField s f =>
      with1 (subject_ty T s) (fun t =>
        need (wf T fuel0 t) E0277
          match find_struct T.(t_structs) (subject_struct s) with
          | None => Reject ETable
          | Some st =>
              match lookup f st.(s_fields) with
              | None => Reject E0609
              | Some vis => if String.eqb vis "pub" then Accept else Reject E0616
              end
          end)
  | OSameInner v k1 k2 =>
      with1 (ver_ty T v) (fun V =>
        match norm T fuel0 (Proj V "HasKey" [kind_ty k1] "Key"), norm T fuel0 (Proj V "HasKey" [kind_ty k2] "Key") with
        | Yes a, Yes b => if ty_eqb a b then Accept else Reject E0308
        | Fuel, _ | _, Fuel => Reject EFuel
        | _, _ => Reject E0277
        end)
  end.

Definition well_typed (T : table) (o : op) : bool := accepted (check T o).

(* ------------------------------------------------------------------ the property statement as predicates *)

Definition seal_m_fits (m : seal_m) (p : purpose) : bool :=
  match m, p with MSeal, _ | MEncrypt, PLocal | MSign, PPublic => true | _, _ => false end.
Definition unseal_m_fits (m : unseal_m) (p : purpose) : bool :=
  match m, p with MUnseal, _ | MDecrypt, PLocal | MVerify, PPublic => true | _, _ => false end.

(* the text types whose Display / FromStr / serde forms are the PASETO / PASERK strings *)
Definition text_subject (s : subject) : bool :=
  match s with
  | SKeyText _ _ | SKeyId _ _ | SSealed _ _ | SSealedKey _ => true
  | SPie _ k | SPw _ k => wrappable_kind k
  | SKey _ _ | SUnsealed _ _ => false
  end.

(* the corresponding correct programs *)
Definition intended (o : op) : bool :=
  match o with
  | OSeal m vt p vk k => ver_eqb vt vk && kind_eqb k (sealing_kind p) && seal_m_fits m p
  | OUnseal m vt p vk k => ver_eqb vt vk && kind_eqb k (purpose_kind p) && unseal_m_fits m p
  | OWrapPie vk k vw kw | OUnwrapPie vk k vw kw => ver_eqb vk vw && wrappable_kind k && kind_eqb kw Local
  | OPwWrap _ k | OPwUnwrap _ k => wrappable_kind k
  | OSealKey vk k vw kw => ver_eqb vk vw && kind_eqb k Local && kind_eqb kw PkePublic
  | OUnsealKey v vw kw => ver_eqb v vw && kind_eqb kw PkeSecret
  | OExpose _ _ | OKeyId _ _ => true
  | OPublicKey _ k => kind_eqb k Secret
  | OTrait TDisplay s => text_subject s || match s with SKey _ Public => true | _ => false end
  | OTrait TSerialize s | OTrait TDeserialize s => text_subject s
  | OTrait TFromStr s => text_subject s || match s with SKey _ _ => true | _ => false end
  | OTrait TClone s => match s with SKey _ _ | SKeyId _ _ | SSealedKey _ => true | _ => false end
  | OTrait TDebug _ => false
  | OField (SUnsealed _ _) f => String.eqb f "claims" || String.eqb f "footer"
  | OField _ _ => false
  | OSameInner _ _ _ => false
  end.

(* the statement's list of misuses *)
Definition misuse (o : op) : bool :=
  match o with
  (* a key of another version or purpose to seal / unseal; sealing with a public key; a PKE key where the signing
     key is required; verify on an encrypted token / decrypt on a signed one (and sign / encrypt likewise) *)
  | OSeal m vt p vk k => negb (ver_eqb vt vk && kind_eqb k (sealing_kind p) && seal_m_fits m p)
  | OUnseal m vt p vk k => negb (ver_eqb vt vk && kind_eqb k (purpose_kind p) && unseal_m_fits m p)
  (* wrapping a public key; wrapping with a key of another version or with anything but a local key *)
  | OWrapPie vk k vw kw | OUnwrapPie vk k vw kw => public_kind k || negb (ver_eqb vk vw) || negb (kind_eqb kw Local)
  | OPwWrap _ k | OPwUnwrap _ k => public_kind k
  (* key sealing (PKE) with anything but the PKE public key of the same version — in particular with a signing key *)
  | OSealKey vk k vw kw => negb (ver_eqb vk vw) || negb (kind_eqb kw PkePublic)
  | OUnsealKey v vw kw => negb (ver_eqb v vw) || negb (kind_eqb kw PkeSecret)
  (* printing / serialising a local or secret key; serialising an unsealed token *)
  | OTrait TDisplay s | OTrait TDebug s | OTrait TSerialize s =>
      match s with SKey _ k => secret_kind k | SUnsealed _ _ => true | _ => false end
  (* reaching the key material without expose_key *)
  | OField (SKey _ k) _ => secret_kind k
  | _ => false
  end.

(* ------------------------------------------------------------------ secrets only through expose_key: closed world *)

Fixpoint mentions (c : string) (t : ty) {struct t} : bool :=
  match t with
  | Var _ => false
  | App d l => String.eqb c d || existsb (mentions c) l
  | Proj u _ l _ => mentions c u || existsb (mentions c) l
  end.

Definition head_is (c : string) (t : ty) : bool :=
  match t with App d _ => String.eqb c d | _ => false end.

Definition str_in (x : string) (l : list string) : bool := existsb (String.eqb x) l.

(* traits implemented for Key<..>: only these (none of them yields key bytes: Display exists for Key<V, Public> only,
   which [check] decides; From / TryFrom / FromStr construct keys) *)
Definition key_traits_allowed : list string := ["Clone"; "Display"; "FromStr"; "From"; "TryFrom"].
(* public inherent methods with a Key receiver, and which of them return the key text *)
Definition key_methods_allowed : list string :=
  ["random"; "public_key"; "id"; "expose_key"; "wrap_pie"; "password_wrap"; "password_wrap_with_params"; "seal"].

Definition key_api_closed (T : table) : bool :=
  (* (a) trait impls for Key are on the white list *)
  forallb (fun i => negb (head_is "Key" i.(i_self)) || str_in i.(i_trait) key_traits_allowed) T.(t_impls)
  (* (b) no impl for another type takes a Key as a trait argument (no `From<Key<..>> for X`, `PartialEq<Key<..>>` ..),
         and no blanket impl `for T` could apply to Key *)
  && forallb (fun i => head_is "Key" i.(i_self) || negb (existsb (mentions "Key") i.(i_targs))) T.(t_impls)
  && forallb (fun i => match i.(i_self) with Var _ | App "&" [Var _] | App "&mut" [Var _] => str_in i.(i_trait) ["WriteBytes"] | _ => true end) T.(t_impls)
  (* (c) methods on Key: white list; the only one that returns KeyText (or raw bytes) is expose_key *)
  && forallb (fun m => negb (head_is "Key" m.(m_self)) || str_in m.(m_name) key_methods_allowed) T.(t_methods)
  && forallb (fun m => negb (head_is "Key" m.(m_self)) || String.eqb m.(m_name) "expose_key"
                       || negb (mentions "KeyText" m.(m_ret) || mentions "[]" m.(m_ret) || mentions "Vec" m.(m_ret)
                                || mentions "Box" m.(m_ret) || mentions "String" m.(m_ret)))
             T.(t_methods)
  (* (d) no method of another type takes a Key by value/reference and returns key text or bytes *)
  && forallb (fun m => head_is "Key" m.(m_self) || negb (existsb (mentions "Key") m.(m_args))
                       || negb (mentions "KeyText" m.(m_ret) || mentions "[]" m.(m_ret) || mentions "Vec" m.(m_ret)
                                || mentions "Box" m.(m_ret) || mentions "String" m.(m_ret)))
             T.(t_methods)
  (* (e) no field of Key is visible outside the crate *)
  && match find_struct T.(t_structs) "Key" with
     | Some s => forallb (fun '(_, vis) => negb (String.eqb vis "pub")) s.(s_fields) && negb (Nat.eqb (length s.(s_fields)) 0)
     | None => false
     end.

(* ------------------------------------------------------------------ domain completeness w.r.t. the table *)

(* the marker types the table declares are exactly the ones the domain enumerates *)
Definition impl_selfs (T : table) (tr : string) : list ty :=
  map i_self (filter (fun i => String.eqb i.(i_trait) tr) T.(t_impls)).

Definition same_tys (l m : list ty) : bool :=
  forallb (fun x => existsb (ty_eqb x) m) l && forallb (fun x => existsb (ty_eqb x) l) m
  && Nat.eqb (length l) (length m).

Definition markers_complete (T : table) : bool :=
  same_tys (impl_selfs T "KeyType") (map kind_ty all_kinds)
  && same_tys (impl_selfs T "Purpose") (map purpose_ty all_purposes)
  && same_tys (impl_selfs T "SealingKey") (map kind_ty (filter wrappable_kind all_kinds))
  && forallb (fun p => match norm (with_probe T) fuel0 (Proj (purpose_ty p) "Purpose" [] "SealingKey") with
                       | Yes t => ty_eqb t (kind_ty (sealing_kind p)) | _ => false end) all_purposes
  && same_tys (impl_selfs T "Version") (map snd T.(t_versions))
  && Nat.eqb (length T.(t_versions)) (length all_vers)
  && forallb (fun v => match ver_ty T v with Some _ => true | None => false end) all_vers.

(* do PKE keys and signing keys share a Rust type below the Key<V, K> wrapper?  (informational) *)
Definition pke_shares_signing_type (T : table) (v : ver) : bool :=
  accepted (check T (OSameInner v PkeSecret Secret)) && accepted (check T (OSameInner v PkePublic Public)).

(* ------------------------------------------------------------------ enumeration of the domain *)

Definition all_seal_m := [MSeal; MEncrypt; MSign].
Definition all_unseal_m := [MUnseal; MDecrypt; MVerify].
Definition all_trait_probes := [TDisplay; TDebug; TSerialize; TDeserialize; TFromStr; TClone].

Definition vk_pairs {A} (f : ver -> kind -> A) : list A :=
  flat_map (fun v => map (f v) all_kinds) all_vers.
Definition vp_pairs {A} (f : ver -> purpose -> A) : list A :=
  flat_map (fun v => map (f v) all_purposes) all_vers.

Definition all_subjects : list subject :=
  vk_pairs SKey ++ vk_pairs SKeyText ++ vk_pairs SKeyId ++ vp_pairs SSealed ++ vp_pairs SUnsealed
  ++ vk_pairs SPie ++ vk_pairs SPw ++ map SSealedKey all_vers.

(* the fields each struct is probed for (all the fields the structs have at the time of writing, plus one that
   does not exist); the struct's real field list comes from the table *)
Definition probe_fields (s : subject) : list string :=
  match s with
  | SKey _ _ => ["0"]
  | SKeyText _ _ => ["data"; "_key"]
  | SKeyId _ _ => ["id"; "_key"]
  | SSealed _ _ => ["payload"; "encoded_footer"; "footer"; "_version"; "_purpose"; "_message"]
  | SUnsealed _ _ => ["claims"; "footer"; "_version"; "_purpose"]
  | SPie _ _ | SPw _ _ => ["key_data"; "_version"]
  | SSealedKey _ => ["key_data"; "_version"]
  end.

Definition all_ops : list op :=
  flat_map (fun m => flat_map (fun vt => flat_map (fun p => flat_map (fun vk => map (OSeal m vt p vk) all_kinds)
     all_vers) all_purposes) all_vers) all_seal_m
  ++ flat_map (fun m => flat_map (fun vt => flat_map (fun p => flat_map (fun vk => map (OUnseal m vt p vk) all_kinds)
     all_vers) all_purposes) all_vers) all_unseal_m
  ++ flat_map (fun vk => flat_map (fun k => flat_map (fun vw => map (OWrapPie vk k vw) all_kinds) all_vers) all_kinds) all_vers
  ++ flat_map (fun vk => flat_map (fun k => flat_map (fun vw => map (OUnwrapPie vk k vw) all_kinds) all_vers) all_kinds) all_vers
  ++ vk_pairs OPwWrap ++ vk_pairs OPwUnwrap
  ++ flat_map (fun vk => flat_map (fun k => flat_map (fun vw => map (OSealKey vk k vw) all_kinds) all_vers) all_kinds) all_vers
  ++ flat_map (fun v => flat_map (fun vw => map (OUnsealKey v vw) all_kinds) all_vers) all_vers
  ++ vk_pairs OExpose ++ vk_pairs OPublicKey ++ vk_pairs OKeyId
  ++ flat_map (fun tr => map (OTrait tr) all_subjects) all_trait_probes
  ++ flat_map (fun s => map (OField s) (probe_fields s)) all_subjects
  ++ flat_map (fun v => flat_map (fun k1 => map (OSameInner v k1) all_kinds) all_kinds) all_vers.
