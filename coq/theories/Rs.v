(* Rs.v — the Rust slice operations that PANIC when their argument is out of range, as model combinators with a
   live [Panic] branch.  The mirror functions of the backends use them wherever the Rust source uses the
   panicking operation after a length guard (instead of transcribing the operation as a total take / drop), so
   that "the guard makes the split safe" is a proof obligation of the instance lemmas and of the no-panic
   theorems, not something decided while writing the model. *)
From Coq Require Import List Arith String Lia.
From PV Require Import Bytes Result.
Import ListNotations.

(* a - b on usize: "attempt to subtract with overflow" (debug) / a wrapped value that the following split
   rejects (release): a panic either way *)
Definition rs_sub {A} (a b : nat) (site : String.string) (k : nat -> result A) : result A :=
  if Nat.ltb a b then Panic site else k (a - b).

(* slice.split_at(mid) / split_at_mut(mid): panics if mid > len *)
Definition rs_split_at {A} (mid : nat) (l : bytes) (site : String.string) (k : bytes -> bytes -> result A) : result A :=
  if Nat.ltb (length l) mid then Panic site else k (take mid l) (drop mid l).

(* <[u8; N]>::try_from(slice).unwrap() and dst.copy_from_slice(src) with dst.len() = n: panic unless the
   slice has exactly n bytes *)
Definition rs_exact {A} (n : nat) (l : bytes) (site : String.string) (k : bytes -> result A) : result A :=
  if Nat.eqb (length l) n then k l else Panic site.

Lemma rs_sub_ok {A} a b site (k : nat -> result A) : b <= a -> rs_sub a b site k = k (a - b).
Proof. intros H. unfold rs_sub. destruct (Nat.ltb_spec a b); [lia|reflexivity]. Qed.
Lemma rs_split_at_ok {A} mid l site (k : bytes -> bytes -> result A) :
  mid <= length l -> rs_split_at mid l site k = k (take mid l) (drop mid l).
Proof. intros H. unfold rs_split_at. destruct (Nat.ltb_spec (length l) mid); [lia|reflexivity]. Qed.
Lemma rs_exact_ok {A} n l site (k : bytes -> result A) : length l = n -> rs_exact n l site k = k l.
Proof. intros H. unfold rs_exact. rewrite H, Nat.eqb_refl. reflexivity. Qed.

(* the branches are live *)
Example rs_split_at_panics : rs_split_at 3 [x00] "s" (fun a b => Ok a) = Panic "s".
Proof. reflexivity. Qed.
Example rs_sub_panics : rs_sub 2 3 "s" (fun n => Ok n) = Panic "s".
Proof. reflexivity. Qed.
Example rs_exact_panics : rs_exact 2 [x00] "s" (fun a => Ok a) = Panic "s".
Proof. reflexivity. Qed.
