(* KernelCases.v — everything cases.v (written by ./check from the harness's sample) needs in scope. *)
From PV Require Export Bytes Result Pae Base64 Text Tokens Validation Oracle TableOracle Ctr Local Public.
Global Open Scope string_scope.
Global Open Scope list_scope.
