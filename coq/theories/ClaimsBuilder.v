(* ClaimsBuilder.v — model of the claim builder of paseto-json (RegisteredClaims::new / now and the four
   setters) and its relation to the built-in validators (C11): a token built with `new(now, d)` is valid
   exactly in the window [now, now + d], has an expiry, and carries exactly the issuer / subject / audience /
   token id it was given.  `now + d` is jiff's checked addition: outside the representable range it panics. *)
From Coq Require Import ZArith Lia Bool List.
From PV Require Import Bytes Result Validation ValidationProofs.
Local Open Scope Z_scope.

Definition claims_new (now d : Z) : result claims :=
  if ts_ok (now + d)
  then Ok {| iss := None; sub := None; aud := None; exp := Some (now + d); nbf := Some now; iat := Some now; jti := None |}
  else Panic "jiff: Timestamp + Duration overflowed".

Definition from_issuer (c : claims) (s : bytes) : claims :=
  {| iss := Some s; sub := sub c; aud := aud c; exp := exp c; nbf := nbf c; iat := iat c; jti := jti c |}.
Definition for_audience (c : claims) (s : bytes) : claims :=
  {| iss := iss c; sub := sub c; aud := Some s; exp := exp c; nbf := nbf c; iat := iat c; jti := jti c |}.
Definition for_subject (c : claims) (s : bytes) : claims :=
  {| iss := iss c; sub := Some s; aud := aud c; exp := exp c; nbf := nbf c; iat := iat c; jti := jti c |}.
Definition with_token_id (c : claims) (s : bytes) : claims :=
  {| iss := iss c; sub := sub c; aud := aud c; exp := exp c; nbf := nbf c; iat := iat c; jti := Some s |}.

(* the window of validity of a freshly built claims value *)
Theorem builder_valid_window now d c t :
  claims_new now d = Ok c -> (validate (VTime t) c = Ok tt <-> now <= t <= now + d).
Proof.
  unfold claims_new. destruct (ts_ok (now + d)); [|discriminate]. intros E; inversion E; subst c.
  rewrite time_exact. cbn [exp nbf]. lia.
Qed.

Theorem builder_has_expiry now d c : claims_new now d = Ok c -> validate VHasExpiry c = Ok tt.
Proof. unfold claims_new. destruct (ts_ok (now + d)); [|discriminate]. intros E; inversion E. reflexivity. Qed.

Theorem builder_total_in_range now d : ts_ok (now + d) = true -> exists c, claims_new now d = Ok c.
Proof. intros H. unfold claims_new. rewrite H. eexists; reflexivity. Qed.

Theorem builder_overflow_panics now d : ts_ok (now + d) = false -> is_panic (claims_new now d) = true.
Proof. intros H. unfold claims_new. rewrite H. reflexivity. Qed.

(* the setters set their own field and nothing else; the string validators accept exactly what was set *)
Theorem setters_are_accepted c s :
  validate (VFromIssuer s) (from_issuer c s) = Ok tt /\
  validate (VForAudience s) (for_audience c s) = Ok tt /\
  validate (VForSubject s) (for_subject c s) = Ok tt.
Proof. unfold validate, opt_bytes_is, check; cbn [iss sub aud from_issuer for_audience for_subject]. rewrite beq_refl. auto. Qed.

Theorem setters_reject_other_values c s s' :
  s <> s' ->
  validate (VFromIssuer s') (from_issuer c s) = Err ClaimsError /\
  validate (VForAudience s') (for_audience c s) = Err ClaimsError /\
  validate (VForSubject s') (for_subject c s) = Err ClaimsError.
Proof.
  intros H. unfold validate, opt_bytes_is, check; cbn [iss sub aud from_issuer for_audience for_subject].
  assert (E : beq s s' = false) by (apply beq_false; exact H). rewrite E. auto.
Qed.

Theorem setters_keep_the_time_window c s t :
  validate (VTime t) (from_issuer c s) = validate (VTime t) c /\
  validate (VTime t) (for_audience c s) = validate (VTime t) c /\
  validate (VTime t) (for_subject c s) = validate (VTime t) c /\
  validate (VTime t) (with_token_id c s) = validate (VTime t) c.
Proof. repeat split; reflexivity. Qed.

Example builder_window_example :
  exists c, claims_new 1000 60 = Ok c /\ validate (VTime 1000) c = Ok tt /\ validate (VTime 1060) c = Ok tt /\
            validate (VTime 999) c = Err ClaimsError /\ validate (VTime 1061) c = Err ClaimsError.
Proof. eexists; split; [reflexivity|]. repeat split. Qed.
