(* FeatureRules.v — C19, model (no proofs): cargo features and `cfg` gating of one crate.

   A crate is described by a [crate_table] (regenerated from /repo into Gen/Features.v on every run):
     - the [features] table: feature -> list of entries  (other feature | dep:x | pkg/feat | pkg?/feat);
     - the optional dependencies and the dependency features that are always requested;
     - every module-level item of the src tree with its cfg gate, the conjunction of the gates of the
       modules enclosing it, the `mod` declaration of its own module, the optional crates / dependency
       features / gated sibling names its text mentions;
     - every cfg attribute occurrence with the syntactic kind of what it decorates, and `cfg!` uses.

   [closure T S]  : what `--no-default-features --features S` switches on (cargo's feature implication);
   [active S i]   : item i is compiled when the enabled feature set is S;
   [builds T S]   : every compiled item only mentions things that are compiled / linked under S;
   [cfg_only_on_items T] : a feature-dependent cfg only ever removes whole modules, imports, items, impls, functions or type
                    aliases - never a statement, expression, field, match arm, parameter, and no `cfg!`. *)
From Coq Require Import String List Bool.
Import ListNotations.
Local Open Scope string_scope.

Inductive gate :=
| GTrue | GFalse
| GFeat (f : string)
| GOther (s : string)          (* cfg(test), cfg(target_os = ..) ... : off in a plain `cargo check` of the library *)
| GAnd (a b : gate) | GOr (a b : gate) | GNot (a : gate).

Inductive edge :=
| EFeat (f : string)                       (* "f"        *)
| EDep (d : string)                        (* "dep:d"    *)
| EDepFeat (d f : string) (weak : bool).   (* "d/f" (weak = false: also enables d) or "d?/f" *)

Inductive kind :=
| KModule | KUse | KItem | KImpl | KFn | KTypeAlias | KAssocInherent
| KAssocTrait | KField | KStatement | KExpression | KMatchArm | KParam | KMacroArg | KCfgAttr | KInnerAttr.

Record item := {
  i_at : string;                            (* file:line *)
  i_kind : kind;
  i_mod : string;                           (* module path, "" = crate root *)
  i_defs : list string;                     (* names it introduces into its module *)
  i_gate : gate;                            (* its own cfg *)
  i_encl : gate;                            (* conjunction of the cfgs of the `mod` declarations above it *)
  i_parent : list (string * string);        (* (parent module, name) of the declaration of i_mod; [] at the root *)
  i_crates : list string;                   (* optional dependencies its text mentions *)
  i_depfeats : list (string * string);      (* (dependency, feature) whose feature-named path it mentions *)
  i_refs : list (string * string)           (* (module, name) of gated names of this crate it mentions *)
}.

Record cfg_occ := { o_at : string; o_kind : kind; o_pred : gate }.

Record crate_table := {
  c_name : string;
  c_features : list (string * list edge);
  c_optional : list string;
  c_base_depfeats : list (string * string);
  c_items : list item;
  c_cfgs : list cfg_occ;
  c_cfg_macros : list string
}.

Definition mem (x : string) (l : list string) : bool := existsb (String.eqb x) l.

Definition pair_eqb (a b : string * string) : bool := (fst a =? fst b) && (snd a =? snd b).

Definition feature_names (T : crate_table) : list string := map fst (c_features T).

(* ---------- feature implication ---------- *)

Definition edges_of (T : crate_table) (f : string) : list edge :=
  flat_map (fun fe => if fst fe =? f then snd fe else []) (c_features T).

Definition feat_targets (es : list edge) : list string :=
  flat_map (fun e => match e with EFeat f => [f] | _ => [] end) es.

Fixpoint add_new (xs acc : list string) : list string :=
  match xs with
  | [] => acc
  | x :: r => if mem x acc then add_new r acc else add_new r (acc ++ [x])
  end.

Definition step (T : crate_table) (S : list string) : list string :=
  add_new (flat_map (fun f => feat_targets (edges_of T f)) S) S.

Fixpoint iter {A} (n : nat) (f : A -> A) (x : A) : A :=
  match n with O => x | Datatypes.S k => iter k f (f x) end.

Definition closure (T : crate_table) (S : list string) : list string :=
  iter (length (c_features T)) (step T) S.

(* the set, in the order of the feature table (a canonical form of a feature set) *)
Definition canon (T : crate_table) (S : list string) : list string :=
  filter (fun f => mem f S) (feature_names T).

Definition enables_dep (d : string) (e : edge) : bool :=
  match e with
  | EDep d' => d' =? d
  | EDepFeat d' _ weak => (d' =? d) && negb weak
  | EFeat _ => false
  end.

Definition enables_depfeat (d f : string) (e : edge) : bool :=
  match e with
  | EDepFeat d' f' _ => (d' =? d) && (f' =? f)
  | _ => false
  end.

(* S is expected to be closed *)
Definition dep_on (T : crate_table) (S : list string) (d : string) : bool :=
  negb (mem d (c_optional T))
  || existsb (fun fe => mem (fst fe) S && existsb (enables_dep d) (snd fe)) (c_features T).

Definition depfeat_on (T : crate_table) (S : list string) (df : string * string) : bool :=
  existsb (pair_eqb df) (c_base_depfeats T)
  || existsb (fun fe => mem (fst fe) S && existsb (enables_depfeat (fst df) (snd df)) (snd fe)) (c_features T).

(* ---------- cfg evaluation ---------- *)

Fixpoint eval (S : list string) (g : gate) : bool :=
  match g with
  | GTrue => true
  | GFalse => false
  | GFeat f => mem f S
  | GOther _ => false
  | GAnd a b => eval S a && eval S b
  | GOr a b => eval S a || eval S b
  | GNot a => negb (eval S a)
  end.

Definition active (S : list string) (i : item) : bool := eval S (i_encl i) && eval S (i_gate i).

Definition name_on (T : crate_table) (S : list string) (mn : string * string) : bool :=
  existsb (fun j => (i_mod j =? fst mn) && mem (snd mn) (i_defs j) && active S j) (c_items T).

Definition item_ok (T : crate_table) (S : list string) (i : item) : bool :=
  negb (active S i)
  || (forallb (dep_on T S) (i_crates i)
      && forallb (depfeat_on T S) (i_depfeats i)
      && forallb (name_on T S) (i_refs i)
      && forallb (name_on T S) (i_parent i)).

Definition builds (T : crate_table) (S : list string) : bool := forallb (item_ok T S) (c_items T).

(* the items that fail, for diagnostics in the harness *)
Definition failing (T : crate_table) (S : list string) : list string :=
  map i_at (filter (fun i => negb (item_ok T S i)) (c_items T)).

(* ---------- the finite domain ---------- *)

Fixpoint all_subsets (l : list string) : list (list string) :=
  match l with
  | [] => [[]]
  | x :: r => let s := all_subsets r in s ++ map (cons x) s
  end.

(* characteristic vector of a feature set over the declared features *)
Definition key (T : crate_table) (S : list string) : list bool :=
  map (fun f => mem f S) (feature_names T).

Fixpoint bools_eqb (a b : list bool) : bool :=
  match a, b with
  | [], [] => true
  | x :: a', y :: b' => Bool.eqb x y && bools_eqb a' b'
  | _, _ => false
  end.

(* one representative closure per distinct characteristic vector, in order of first appearance *)
Fixpoint reps_aux (T : crate_table) (l : list (list string)) (acc : list (list bool * list string))
  : list (list bool * list string) :=
  match l with
  | [] => acc
  | C :: r =>
      let k := key T C in
      if existsb (fun kd => bools_eqb k (fst kd)) acc then reps_aux T r acc else reps_aux T r (acc ++ [(k, C)])
  end.

Definition reps (T : crate_table) : list (list bool * list string) :=
  reps_aux T (map (closure T) (all_subsets (feature_names T))) [].

Definition distinct_closures (T : crate_table) : list (list string) :=
  map (fun kd => canon T (snd kd)) (reps T).

Definition subset_b (a b : list string) : bool := forallb (fun x => mem x b) a.

Definition same_set (a b : list string) : bool := subset_b a b && subset_b b a.

(* ---------- syntactic side conditions ---------- *)

Definition kind_allowed (k : kind) : bool :=
  match k with
  | KModule | KUse | KItem | KImpl | KFn | KTypeAlias | KAssocInherent => true
  | _ => false
  end.

Fixpoint gate_feats (g : gate) : list string :=
  match g with
  | GFeat f => [f]
  | GAnd a b | GOr a b => gate_feats a ++ gate_feats b
  | GNot a => gate_feats a
  | _ => []
  end.

(* a predicate that names no feature (cfg(test), a custom --cfg flag, a target predicate) has the same value in
   every feature configuration: it is outside the quantifier of C19 *)
Definition feature_free (g : gate) : bool :=
  match gate_feats g with [] => true | _ => false end.

(* [c_cfg_macros] lists the cfg!() uses whose predicate names a feature *)
Definition cfg_only_on_items (T : crate_table) : bool :=
  forallb (fun o => kind_allowed (o_kind o) || feature_free (o_pred o)) (c_cfgs T)
  && match c_cfg_macros T with [] => true | _ => false end.

(* no negation of anything that names a feature (not(test) and the like are constants of the quantifier) *)
Fixpoint gate_positive (g : gate) : bool :=
  match g with
  | GNot a => feature_free a
  | GAnd a b | GOr a b => gate_positive a && gate_positive b
  | _ => true
  end.

Definition table_positive (T : crate_table) : bool :=
  forallb (fun i => gate_positive (i_gate i) && gate_positive (i_encl i)) (c_items T).

(* every feature named by a cfg is declared; every implied feature is declared; every dep: is optional *)
Definition table_declared (T : crate_table) : bool :=
  forallb (fun i => forallb (fun f => mem f (feature_names T)) (gate_feats (i_gate i) ++ gate_feats (i_encl i))) (c_items T)
  && forallb (fun o => forallb (fun f => mem f (feature_names T)) (gate_feats (o_pred o))) (c_cfgs T)
  && forallb (fun fe => forallb (fun e => match e with
                                         | EFeat f => mem f (feature_names T)
                                         | EDep d => mem d (c_optional T)
                                         | EDepFeat _ _ _ => true
                                         end) (snd fe)) (c_features T).

(* the closure is a fixed point of the implication step (the iteration bound suffices) *)
Definition closure_closed (T : crate_table) : bool :=
  forallb (fun S => subset_b (step T (closure T S)) (closure T S)) (all_subsets (feature_names T)).

(* direct formulation (slow: 2^n evaluations of [builds]) *)
Definition builds_every_subset (T : crate_table) : bool :=
  forallb (fun S => builds T (closure T S)) (all_subsets (feature_names T)).

(* the same decision, evaluated as: every distinct closure builds, and the closure of every one of the 2^n
   subsets is - as a set - one of them   ([builds] only looks at a set through [mem], FeatureRulesProofs) *)
Definition builds_every_subset_fast (T : crate_table) : bool :=
  let R := reps T in
  forallb (fun kd => builds T (snd kd)) R
  && forallb (fun S => let C := closure T S in
                       let k := key T C in
                       existsb (fun kd => if bools_eqb k (fst kd) then same_set C (snd kd) else false) R)
             (all_subsets (feature_names T)).
