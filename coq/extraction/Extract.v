(* Extraction of the executable model to OCaml.  ExtrOcamlBasic only:
   bool, option, list, prod, unit, sumbool map to OCaml's own; byte, N, positive, Z, nat
   stay as extracted inductives.  No Extract Constant. *)
From Coq Require Import Extraction ExtrOcamlBasic.
From PV Require Import Bytes Result Pae Base64 Text Tokens Validation.
Extraction Language OCaml.
Set Extraction KeepSingleton.

Extraction "model.ml"
  b2n n2b
  pae pae_writes pae_spec unpae
  encode decode_vec decode_fixed
  print_paserk parse_paserk parse_keyid print_token parse_token fdec_vec fdec_unit
  validate transform ts_min ts_max.
