//! harness-3p — paseto-rs against a THIRD, independent implementation (pasetors) on the same inputs.
//!   harness-3p <c03|c13> --tier quick|thorough --seed N --out report.json
//! c03: tokens sealed by paseto-rs are accepted by pasetors with the same message and vice versa (v2 / v4 local,
//!      v2 / v3 / v4 public; both backends of v3 and v4), for message lengths 1..=300, footers and assertions.
//! c13: key ids (lid / sid / pid) of the same keys computed by both libraries are the same string.
#[path = "../../harness/src/report.rs"]
mod report;

use paseto_core::key::{HasKey, Key, KeyType};
use paseto_core::paserk::KeyText;
use paseto_core::tokens::{SealedToken, UnsealedToken};
use paseto_core::validation::NoValidation;
use paseto_core::version::{Local, Public, Secret};
use report::Report;
use serde_json::json;
use std::str::FromStr;

#[derive(Clone, Debug, PartialEq, Eq)]
struct Raw(Vec<u8>);
impl paseto_core::encodings::Payload for Raw {
    const SUFFIX: &'static str = "";
    fn encode(self, mut writer: impl paseto_core::encodings::WriteBytes) -> Result<(), Box<dyn std::error::Error + Send + Sync>> {
        writer.write(&self.0);
        Ok(())
    }
    fn decode(payload: &[u8]) -> Result<Self, Box<dyn std::error::Error + Send + Sync>> {
        Ok(Raw(payload.to_vec()))
    }
}

struct G(u64);
impl G {
    fn next(&mut self) -> u64 {
        self.0 = self.0.wrapping_add(0x9E3779B97F4A7C15);
        let mut z = self.0;
        z = (z ^ (z >> 30)).wrapping_mul(0xBF58476D1CE4E5B9);
        z = (z ^ (z >> 27)).wrapping_mul(0x94D049BB133111EB);
        z ^ (z >> 31)
    }
    fn bytes(&mut self, n: usize) -> Vec<u8> {
        (0..n).map(|_| self.next() as u8).collect()
    }
    /// printable ASCII (pasetors hands the payload back as &str)
    fn text(&mut self, n: usize) -> Vec<u8> {
        (0..n).map(|_| b' ' + (self.next() % 95) as u8).collect()
    }
}

fn key_from<V: HasKey<K>, K: KeyType>(bytes: &[u8]) -> Result<Key<V, K>, paseto_core::PasetoError> {
    KeyText::<V, K>::from_raw_bytes(bytes).try_into()
}

fn opt(b: &[u8]) -> Option<&[u8]> {
    if b.is_empty() { None } else { Some(b) }
}

macro_rules! rs_local {
    ($V:ty) => {
        (
            |key: &[u8], m: &[u8], f: &[u8], a: &[u8]| -> Result<String, String> {
                let k = key_from::<$V, Local>(key).map_err(|e| format!("{e:?}"))?;
                UnsealedToken::<$V, Local, Raw>::new(Raw(m.to_vec())).with_footer(f.to_vec()).seal(&k, a).map(|t| t.to_string()).map_err(|e| format!("{e:?}"))
            },
            |key: &[u8], t: &str, a: &[u8]| -> Result<(Vec<u8>, Vec<u8>), String> {
                let k = key_from::<$V, Local>(key).map_err(|e| format!("{e:?}"))?;
                let u = SealedToken::<$V, Local, Raw, Vec<u8>>::from_str(t).map_err(|e| format!("{e:?}"))?.unseal(&k, a, &NoValidation::dangerous_no_validation()).map_err(|e| format!("{e:?}"))?;
                Ok((u.claims.0, u.footer))
            },
        )
    };
}
macro_rules! rs_public {
    ($V:ty) => {
        (
            |sk: &[u8], m: &[u8], f: &[u8], a: &[u8]| -> Result<String, String> {
                let k = key_from::<$V, Secret>(sk).map_err(|e| format!("{e:?}"))?;
                UnsealedToken::<$V, Public, Raw>::new(Raw(m.to_vec())).with_footer(f.to_vec()).seal(&k, a).map(|t| t.to_string()).map_err(|e| format!("{e:?}"))
            },
            |pk: &[u8], t: &str, a: &[u8]| -> Result<(Vec<u8>, Vec<u8>), String> {
                let k = key_from::<$V, Public>(pk).map_err(|e| format!("{e:?}"))?;
                let u = SealedToken::<$V, Public, Raw, Vec<u8>>::from_str(t).map_err(|e| format!("{e:?}"))?.unseal(&k, a, &NoValidation::dangerous_no_validation()).map_err(|e| format!("{e:?}"))?;
                Ok((u.claims.0, u.footer))
            },
        )
    };
}

type SealFn = fn(&[u8], &[u8], &[u8], &[u8]) -> Result<String, String>;
type OpenFn = fn(&[u8], &str, &[u8]) -> Result<(Vec<u8>, Vec<u8>), String>;

/// pasetors side, per version and purpose: (seal, open); open returns the message
fn tp_local(ver: &str) -> (SealFn, fn(&[u8], &str, &[u8], &[u8]) -> Result<Vec<u8>, String>) {
    use pasetors::keys::SymmetricKey;
    use pasetors::token::UntrustedToken;
    match ver {
        "v2" => (
            |k, m, f, _a| {
                let k = SymmetricKey::<pasetors::version2::V2>::from(k).map_err(|e| format!("{e:?}"))?;
                pasetors::version2::LocalToken::encrypt(&k, m, opt(f)).map_err(|e| format!("{e:?}"))
            },
            |k, t, f, _a| {
                let k = SymmetricKey::<pasetors::version2::V2>::from(k).map_err(|e| format!("{e:?}"))?;
                let u = UntrustedToken::<pasetors::token::Local, pasetors::version2::V2>::try_from(t).map_err(|e| format!("parse {e:?}"))?;
                pasetors::version2::LocalToken::decrypt(&k, &u, opt(f)).map(|t| t.payload().as_bytes().to_vec()).map_err(|e| format!("{e:?}"))
            },
        ),
        _ => (
            |k, m, f, a| {
                let k = SymmetricKey::<pasetors::version4::V4>::from(k).map_err(|e| format!("{e:?}"))?;
                pasetors::version4::LocalToken::encrypt(&k, m, opt(f), opt(a)).map_err(|e| format!("{e:?}"))
            },
            |k, t, f, a| {
                let k = SymmetricKey::<pasetors::version4::V4>::from(k).map_err(|e| format!("{e:?}"))?;
                let u = UntrustedToken::<pasetors::token::Local, pasetors::version4::V4>::try_from(t).map_err(|e| format!("parse {e:?}"))?;
                pasetors::version4::LocalToken::decrypt(&k, &u, opt(f), opt(a)).map(|t| t.payload().as_bytes().to_vec()).map_err(|e| format!("{e:?}"))
            },
        ),
    }
}

fn tp_public(ver: &str) -> (SealFn, fn(&[u8], &str, &[u8], &[u8]) -> Result<Vec<u8>, String>) {
    use pasetors::keys::{AsymmetricPublicKey, AsymmetricSecretKey};
    use pasetors::token::UntrustedToken;
    match ver {
        "v2" => (
            |sk, m, f, _a| {
                let k = AsymmetricSecretKey::<pasetors::version2::V2>::from(sk).map_err(|e| format!("{e:?}"))?;
                pasetors::version2::PublicToken::sign(&k, m, opt(f)).map_err(|e| format!("{e:?}"))
            },
            |pk, t, f, _a| {
                let k = AsymmetricPublicKey::<pasetors::version2::V2>::from(pk).map_err(|e| format!("{e:?}"))?;
                let u = UntrustedToken::<pasetors::token::Public, pasetors::version2::V2>::try_from(t).map_err(|e| format!("parse {e:?}"))?;
                pasetors::version2::PublicToken::verify(&k, &u, opt(f)).map(|t| t.payload().as_bytes().to_vec()).map_err(|e| format!("{e:?}"))
            },
        ),
        "v3" => (
            |sk, m, f, a| {
                let k = AsymmetricSecretKey::<pasetors::version3::V3>::from(sk).map_err(|e| format!("{e:?}"))?;
                pasetors::version3::PublicToken::sign(&k, m, opt(f), opt(a)).map_err(|e| format!("{e:?}"))
            },
            |pk, t, f, a| {
                let k = AsymmetricPublicKey::<pasetors::version3::V3>::from(pk).map_err(|e| format!("{e:?}"))?;
                let u = UntrustedToken::<pasetors::token::Public, pasetors::version3::V3>::try_from(t).map_err(|e| format!("parse {e:?}"))?;
                pasetors::version3::PublicToken::verify(&k, &u, opt(f), opt(a)).map(|t| t.payload().as_bytes().to_vec()).map_err(|e| format!("{e:?}"))
            },
        ),
        _ => (
            |sk, m, f, a| {
                let k = AsymmetricSecretKey::<pasetors::version4::V4>::from(sk).map_err(|e| format!("{e:?}"))?;
                pasetors::version4::PublicToken::sign(&k, m, opt(f), opt(a)).map_err(|e| format!("{e:?}"))
            },
            |pk, t, f, a| {
                let k = AsymmetricPublicKey::<pasetors::version4::V4>::from(pk).map_err(|e| format!("{e:?}"))?;
                let u = UntrustedToken::<pasetors::token::Public, pasetors::version4::V4>::try_from(t).map_err(|e| format!("parse {e:?}"))?;
                pasetors::version4::PublicToken::verify(&k, &u, opt(f), opt(a)).map(|t| t.payload().as_bytes().to_vec()).map_err(|e| format!("{e:?}"))
            },
        ),
    }
}

/// (secret key bytes, public key bytes) as paseto-rs serialises them, generated by paseto-rs' RustCrypto backend
fn keypair(ver: &str) -> (Vec<u8>, Vec<u8>) {
    macro_rules! kp {
        ($V:ty) => {{
            let sk = Key::<$V, Secret>::random().expect("keygen");
            (sk.expose_key().as_raw_bytes().to_vec(), sk.public_key().expose_key().as_raw_bytes().to_vec())
        }};
    }
    match ver {
        "v2" => kp!(paseto_v2::core::V2),
        "v3" => kp!(paseto_v3::core::V3),
        _ => kp!(paseto_v4::core::V4),
    }
}

fn c03(rep: &mut Report, g: &mut G, thorough: bool) {
    rep.rule = "paseto-rs (every backend of the version) against pasetors 0.7.7: each seals / signs, the other opens / verifies and must return the same message; message lengths 1..=300 (printable ASCII: pasetors returns the payload as text), footers {none, 1 byte, JSON} and, for v3 / v4, implicit assertions {none, 12 bytes}; fresh keys per version; distinct = (version, purpose, backend, direction, footer, assertion, length class)".into();
    let local_backends: Vec<(&str, &str, (SealFn, OpenFn))> = vec![
        ("v2", "v2", rs_local!(paseto_v2::core::V2)),
        ("v4", "v4", rs_local!(paseto_v4::core::V4)),
        ("v4", "v4-sodium", rs_local!(paseto_v4_sodium::core::V4)),
    ];
    let public_backends: Vec<(&str, &str, (SealFn, OpenFn))> = vec![
        ("v2", "v2", rs_public!(paseto_v2::core::V2)),
        ("v3", "v3", rs_public!(paseto_v3::core::V3)),
        ("v3", "v3-aws-lc", rs_public!(paseto_v3_aws_lc::core::V3)),
        ("v4", "v4", rs_public!(paseto_v4::core::V4)),
        ("v4", "v4-sodium", rs_public!(paseto_v4_sodium::core::V4)),
    ];
    // dense sweep, then lengths around the powers of two up to 2^17 (a backend that changes algorithm or buffering above a
    // size threshold is self-consistent and only an independent implementation sees it)
    let mut lens: Vec<usize> = if thorough { (1..=1000).collect() } else { (1..=300).collect() };
    lens.extend([1023usize, 1024, 1025, 2047, 2048, 2049, 4095, 4096, 4097, 8191, 8192, 8193, 16384, 32768, 65535, 65536, 65537, 100_000, 131_072]);
    let footers: [&[u8]; 3] = [b"", b"f", b"{\"kid\":\"k4.lid.x\"}"];
    for (ver, name, (seal, open)) in &local_backends {
        let (tseal, topen) = tp_local(ver);
        let key = g.bytes(32);
        for &len in &lens {
            let m = g.text(len);
            let f = footers[len % 3];
            let a: &[u8] = if *ver != "v2" && len % 2 == 0 { b"implicit-12b" } else { b"" };
            let case = json!({"version": ver, "backend": name, "purpose": "local", "key": hex::encode(&key), "m": hex::encode(&m), "f": hex::encode(f), "a": hex::encode(a)});
            rep.evaluations += 2;
            // paseto-rs -> pasetors
            match seal(&key, &m, f, a) {
                Ok(t) => match topen(&key, &t, f, a) {
                    Ok(m2) if m2 == m => rep.nontrivial(format!("{name}|local|rs->3p|f{}|a{}|{}", f.len().min(2), a.len().min(1), len / 64)),
                    other => rep.violation(&format!("c03.thirdparty.{name}.local.rejected-by-pasetors"), format!("a {ver}.local token sealed by paseto-rs ({name}, {len}-byte message) is not opened by pasetors: {:?}", other.map(|x| x.len())), case.clone()),
                },
                Err(e) => rep.violation(&format!("c03.thirdparty.{name}.local.seal-failed"), format!("{name} seal failed: {e}"), case.clone()),
            }
            // pasetors -> paseto-rs
            match tseal(&key, &m, f, a) {
                Ok(t) => match open(&key, &t, a) {
                    Ok((m2, f2)) if m2 == m && f2 == f => rep.nontrivial(format!("{name}|local|3p->rs|f{}|a{}|{}", f.len().min(2), a.len().min(1), len / 64)),
                    other => rep.violation(&format!("c03.thirdparty.{name}.local.rejects-pasetors-token"), format!("a {ver}.local token sealed by pasetors ({len}-byte message) is not opened by paseto-rs ({name}): {:?}", other.map(|x| x.0.len())), json!({"token": t, "case": case})),
                },
                Err(e) => rep.notes.push(format!("pasetors {ver}.local encrypt failed: {e}")),
            }
            if rep.violations.len() >= 20 {
                return;
            }
        }
    }
    for (ver, name, (sign, verify)) in &public_backends {
        let (tsign, tverify) = tp_public(ver);
        let (sk, pk) = keypair(ver);
        let step = 1;
        for &len in lens.iter().step_by(step) {
            let m = g.text(len);
            let f = footers[len % 3];
            let a: &[u8] = if *ver != "v2" && len % 2 == 0 { b"implicit-12b" } else { b"" };
            let case = json!({"version": ver, "backend": name, "purpose": "public", "sk": hex::encode(&sk), "pk": hex::encode(&pk), "m": hex::encode(&m), "f": hex::encode(f), "a": hex::encode(a)});
            rep.evaluations += 2;
            match sign(&sk, &m, f, a) {
                Ok(t) => match tverify(&pk, &t, f, a) {
                    Ok(m2) if m2 == m => rep.nontrivial(format!("{name}|public|rs->3p|f{}|a{}|{}", f.len().min(2), a.len().min(1), len / 64)),
                    other => rep.violation(&format!("c03.thirdparty.{name}.public.rejected-by-pasetors"), format!("a {ver}.public token signed by paseto-rs ({name}, {len}-byte message) is not verified by pasetors: {:?}", other.map(|x| x.len())), json!({"token": t, "case": case})),
                },
                Err(e) => rep.violation(&format!("c03.thirdparty.{name}.public.sign-failed"), format!("{name} sign failed: {e}"), case.clone()),
            }
            match tsign(&sk, &m, f, a) {
                Ok(t) => match verify(&pk, &t, a) {
                    Ok((m2, f2)) if m2 == m && f2 == f => rep.nontrivial(format!("{name}|public|3p->rs|f{}|a{}|{}", f.len().min(2), a.len().min(1), len / 64)),
                    other => rep.violation(&format!("c03.thirdparty.{name}.public.rejects-pasetors-token"), format!("a {ver}.public token signed by pasetors ({len}-byte message) is not verified by paseto-rs ({name}): {:?}", other.map(|x| x.0.len())), json!({"token": t, "case": case})),
                },
                Err(e) => rep.notes.push(format!("pasetors {ver}.public sign failed: {e}")),
            }
            if rep.violations.len() >= 20 {
                return;
            }
        }
    }
}

fn c13(rep: &mut Report, g: &mut G, thorough: bool) {
    use pasetors::keys::{AsymmetricPublicKey, AsymmetricSecretKey, SymmetricKey};
    use pasetors::paserk::{FormatAsPaserk, Id};
    rep.rule = "key ids (lid / sid / pid) of the same key computed by paseto-rs (every backend of the version) and by pasetors 0.7.7 must be the same string: v2 / v4 local, secret and public keys, v3 secret and public keys; fresh keys; distinct = (version, backend, kind)".into();
    fn id_string(id: &Id) -> String {
        let mut s = String::new();
        id.fmt(&mut s).expect("format id");
        s
    }
    let n = if thorough { 200 } else { 25 };
    macro_rules! ids {
        ($V:ty, $name:expr, $ver:expr, $TV:ty, $local:expr) => {{
            for _ in 0..n {
                let (sk, pk) = keypair($ver);
                let lk = g.bytes(32);
                let mut cases: Vec<(&str, Result<String, String>, Result<String, String>, Vec<u8>)> = vec![];
                cases.push(("secret", key_from::<$V, Secret>(&sk).map(|k| k.id().to_string()).map_err(|e| format!("{e:?}")),
                            AsymmetricSecretKey::<$TV>::from(&sk).map(|k| id_string(&Id::from(&k))).map_err(|e| format!("{e:?}")), sk.clone()));
                // the PASERK text the ids are computed from (k*.secret. / k*.public.)
                cases.push(("secret-text", key_from::<$V, Secret>(&sk).map(|k| k.expose_key().to_string()).map_err(|e| format!("{e:?}")),
                            AsymmetricSecretKey::<$TV>::from(&sk).map(|k| { let mut s = String::new(); k.fmt(&mut s).unwrap(); s }).map_err(|e| format!("{e:?}")), sk.clone()));
                cases.push(("public-text", key_from::<$V, Public>(&pk).map(|k| k.to_string()).map_err(|e| format!("{e:?}")),
                            AsymmetricPublicKey::<$TV>::from(&pk).map(|k| { let mut s = String::new(); k.fmt(&mut s).unwrap(); s }).map_err(|e| format!("{e:?}")), pk.clone()));
                cases.push(("public", key_from::<$V, Public>(&pk).map(|k| k.id().to_string()).map_err(|e| format!("{e:?}")),
                            AsymmetricPublicKey::<$TV>::from(&pk).map(|k| id_string(&Id::from(&k))).map_err(|e| format!("{e:?}")), pk.clone()));
                if $local {
                    cases.push(("local", key_from::<$V, Local>(&lk).map(|k| k.id().to_string()).map_err(|e| format!("{e:?}")),
                                local_id::<$TV>(&lk), lk.clone()));
                }
                for (kind, ours, theirs, bytes) in cases {
                    rep.evaluations += 1;
                    match (&ours, &theirs) {
                        (Ok(a), Ok(b)) if a == b => rep.nontrivial(format!("{}|{kind}", $name)),
                        (_, Err(e)) => rep.notes.push(format!("pasetors could not build the {} {kind} key: {e}", $ver)),
                        _ => rep.violation(&format!("c13.thirdparty.{}.{kind}", $name), format!("{} {kind} key id: paseto-rs {:?}, pasetors {:?}", $name, ours, theirs), json!({"backend": $name, "kind": kind, "bytes": hex::encode(&bytes)})),
                    }
                }
            }
        }};
    }
    trait LocalId {
        fn lid(k: &[u8]) -> Result<String, String>;
    }
    impl LocalId for pasetors::version2::V2 {
        fn lid(k: &[u8]) -> Result<String, String> {
            SymmetricKey::<pasetors::version2::V2>::from(k).map(|k| { let mut s = String::new(); Id::from(&k).fmt(&mut s).unwrap(); s }).map_err(|e| format!("{e:?}"))
        }
    }
    impl LocalId for pasetors::version4::V4 {
        fn lid(k: &[u8]) -> Result<String, String> {
            SymmetricKey::<pasetors::version4::V4>::from(k).map(|k| { let mut s = String::new(); Id::from(&k).fmt(&mut s).unwrap(); s }).map_err(|e| format!("{e:?}"))
        }
    }
    impl LocalId for pasetors::version3::V3 {
        fn lid(_: &[u8]) -> Result<String, String> {
            Err("pasetors has no v3 local keys".into())
        }
    }
    fn local_id<T: LocalId>(k: &[u8]) -> Result<String, String> {
        T::lid(k)
    }
    ids!(paseto_v2::core::V2, "v2", "v2", pasetors::version2::V2, true);
    ids!(paseto_v3::core::V3, "v3", "v3", pasetors::version3::V3, false);
    ids!(paseto_v3_aws_lc::core::V3, "v3-aws-lc", "v3", pasetors::version3::V3, false);
    ids!(paseto_v4::core::V4, "v4", "v4", pasetors::version4::V4, true);
    ids!(paseto_v4_sodium::core::V4, "v4-sodium", "v4", pasetors::version4::V4, true);
}

fn main() {
    let args: Vec<String> = std::env::args().collect();
    let what = args.get(1).cloned().unwrap_or_default();
    let mut tier = "quick".to_string();
    let mut seed = 1u64;
    let mut out = None;
    let mut i = 2;
    while i < args.len() {
        match args[i].as_str() {
            "--tier" => { tier = args[i + 1].clone(); i += 1; }
            "--seed" => { seed = args[i + 1].parse().unwrap_or(1); i += 1; }
            "--out" => { out = Some(args[i + 1].clone()); i += 1; }
            _ => {}
        }
        i += 1;
    }
    let mut g = G(seed ^ 0x3333);
    let mut rep = Report::new(if what == "c13" { "C13" } else { "C03" }, &tier, seed);
    match what.as_str() {
        "c03" => c03(&mut rep, &mut g, tier == "thorough"),
        "c13" => c13(&mut rep, &mut g, tier == "thorough"),
        _ => { eprintln!("usage: harness-3p <c03|c13> --tier T --seed N --out F"); std::process::exit(2); }
    }
    rep.finish(out.as_deref());
}
