//! C06 — wrapped and sealed keys are tamper-evident and bound to header, key and password.
//! Fault enumeration on PIE / PBKW / PKE blobs of every backend: every acceptance of a modified blob (or of
//! the right blob under another secret) is a violation; the extracted model must return the same error kind.
use crate::c05::{cheap_params, keys_for, paserk_bytes, pie_header, pw_header};
use crate::lab::{self, Backend};
use crate::report::Report;
use crate::rng::SplitMix64;
use crate::sexp;
use crate::tok::{self, res_bytes, M};
use crate::Ctx;
use serde_json::{json, Value};

#[derive(Clone, Debug)]
struct Blob {
    /// "pie" | "pbkw" | "pke"
    op: &'static str,
    /// "local" | "secret" (pie, pbkw)
    kind: &'static str,
    backend: usize,
    /// wrapping key / password / recipient secret key
    secret: Vec<u8>,
    data: Vec<u8>,
}

fn header_text(b: &Backend, op: &str, kind: &str) -> String {
    let k = match b.ver { "v1" => "k1", "v2" => "k2", "v3" => "k3", _ => "k4" };
    match op {
        "pie" => format!("{k}.{kind}-wrap.pie."),
        "pbkw" => format!("{k}.{kind}-pw."),
        _ => format!("{k}.seal."),
    }
}

fn unwrap(bs: &[Backend], x: &Blob) -> lab::R<Vec<u8>> {
    let b = &bs[x.backend];
    let text = format!("{}{}", header_text(b, x.op, x.kind), lab::b64(&x.data));
    match x.op {
        "pie" => (b.pie_unwrap)(x.kind, &x.secret, &text),
        "pbkw" => (b.pw_unwrap)(x.kind, &x.secret, &text),
        _ => (b.pke_unseal)(&x.secret, &text),
    }
}

fn model_unwrap(m: &mut M, bs: &[Backend], x: &Blob) -> lab::R<Vec<u8>> {
    let b = &bs[x.backend];
    let r = match x.op {
        "pie" => m.eval(&sexp::op("pie_unwrap", vec![sexp::s(b.name), sexp::x(pie_header(x.kind)), sexp::x(&x.secret), sexp::x(&x.data)])),
        "pbkw" => m.eval(&sexp::op("pw_unwrap", vec![sexp::s(b.name), sexp::x(pw_header(x.kind)), sexp::x(&x.secret), sexp::x(&x.data)])),
        _ => {
            let sk = if b.name == "v4-sodium" { x.secret.clone() } else { tok::model_sk(b, &x.secret) };
            m.eval(&sexp::op("pke_unseal", vec![sexp::s(b.name), sexp::x(&sk), sexp::x(&x.data)]))
        }
    };
    res_bytes(&r)
}

/// PBKW cost budget for faulted parameter fields (flips that exceed it are skipped and counted)
fn params_in_budget(b: &Backend, data: &[u8]) -> bool {
    if data.len() < b.pw_prefix_len {
        return true;
    }
    let p = &data[b.pw_param_off..b.pw_param_off + b.pw_param_len];
    if p.len() == 4 {
        u32::from_be_bytes(p.try_into().unwrap()) <= 4096
    } else {
        let mem = u64::from_be_bytes(p[..8].try_into().unwrap());
        let time = u32::from_be_bytes(p[8..12].try_into().unwrap());
        let para = u32::from_be_bytes(p[12..].try_into().unwrap());
        mem <= (1 << 20) && time <= 3 && para <= 4
    }
}

fn blob_json(bs: &[Backend], x: &Blob, fault: &str) -> Value {
    json!({"backend": bs[x.backend].name, "op": x.op, "kind": x.kind, "secret": hex::encode(&x.secret), "data": hex::encode(&x.data), "fault": fault})
}

fn faults(bs: &[Backend], orig: &Blob, others: &[Vec<u8>], g: &mut SplitMix64, rep: &mut Report) -> Vec<(String, Blob)> {
    let mut out: Vec<(String, Blob)> = vec![];
    let b = &bs[orig.backend];
    // every single-bit flip of every byte
    for i in 0..orig.data.len() {
        for bit in 0..8 {
            let mut x = orig.clone();
            x.data[i] ^= 1 << bit;
            if orig.op == "pbkw" && !params_in_budget(b, &x.data) {
                rep.count("skipped.over-budget-params");
                continue;
            }
            out.push((format!("bitflip byte {i} bit {bit}"), x));
        }
    }
    // every truncation; extension by 1..3 bytes at either end
    for len in 0..orig.data.len() {
        let mut x = orig.clone();
        x.data.truncate(len);
        out.push((format!("truncate to {len}"), x));
    }
    for k in 1..=3 {
        let mut x = orig.clone();
        x.data.extend(std::iter::repeat(0u8).take(k));
        out.push((format!("extend-back {k}"), x));
        let mut x = orig.clone();
        for _ in 0..k {
            x.data.insert(0, 0);
        }
        if !(orig.op == "pbkw" && !params_in_budget(b, &x.data)) {
            out.push((format!("extend-front {k}"), x));
        }
        let mut x = orig.clone();
        let k2 = k.min(x.data.len());
        x.data.drain(..k2);
        if !(orig.op == "pbkw" && !params_in_budget(b, &x.data)) {
            out.push((format!("drop-front {k}"), x));
        }
    }
    // bytes inserted or removed INSIDE the blob, at every field boundary of any of the layouts (tag / nonce / salt /
    // parameters / ephemeral key / encrypted key) and at a few other positions: the total length is part of
    // the format, and a parser that reads one field from the front and another from the back must not let bytes
    // in between go unnoticed
    let mut cuts: Vec<usize> = vec![16, 20, 24, 32, 36, 40, 48, 52, 56, 64, 80, 96, 97, 128];
    for _ in 0..3 {
        cuts.push(1 + g.below(orig.data.len().max(2) as u64 - 1) as usize);
    }
    cuts.retain(|c| *c > 0 && *c < orig.data.len());
    cuts.sort();
    cuts.dedup();
    for pos in cuts {
        for k in [1usize, 2, 32] {
            let mut x = orig.clone();
            let ins: Vec<u8> = g.bytes(k);
            x.data.splice(pos..pos, ins);
            if !(orig.op == "pbkw" && !params_in_budget(b, &x.data)) {
                out.push((format!("insert {k} at {pos}"), x));
            }
            if pos + k <= orig.data.len() {
                let mut x = orig.clone();
                x.data.drain(pos..pos + k);
                if !(orig.op == "pbkw" && (x.data.len() < b.pw_param_off + b.pw_param_len || !params_in_budget(b, &x.data))) {
                    out.push((format!("delete {k} at {pos}"), x));
                }
            }
        }
    }
    // header relabel among k1..k4 x {local, secret} (string level: same bytes under another header)
    for (oi, ob) in bs.iter().enumerate() {
        for kind in ["local", "secret"] {
            if orig.op == "pke" && kind == "secret" {
                continue;
            }
            // the sibling backend of the same version parses the same header: not a relabel
            if ob.ver == b.ver && (kind == orig.kind || orig.op == "pke") {
                continue;
            }
            if orig.op == "pke" {
                // recipient secret keys must be type-compatible
                let compat = (ob.ver == b.ver) || ((b.ver == "v2" || b.ver == "v4") && (ob.ver == "v2" || ob.ver == "v4"));
                if !compat {
                    continue;
                }
            }
            let mut x = orig.clone();
            x.backend = oi;
            x.kind = kind;
            if orig.op == "pbkw" && !params_in_budget(ob, &x.data) {
                rep.count("skipped.over-budget-params");
                continue;
            }
            out.push((format!("relabel to {} {}", ob.name, kind), x));
        }
    }
    // other wrapping key / password / recipient
    for (j, o) in others.iter().enumerate() {
        if *o != orig.secret {
            let mut x = orig.clone();
            x.secret = o.clone();
            out.push((format!("other secret #{j}"), x));
        }
    }
    if orig.op != "pke" && !orig.secret.is_empty() {
        for _ in 0..16 {
            let i = g.below(orig.secret.len() as u64 * 8) as usize;
            let mut x = orig.clone();
            x.secret[i / 8] ^= 1 << (i % 8);
            out.push((format!("secret bit {i}"), x));
        }
    }
    if orig.op == "pbkw" {
        let mut x = orig.clone();
        x.secret.push(0);
        // NB: for PBKDF2-HMAC (v1, v3) a trailing NUL gives the same HMAC key: an equivalent password
        out.push(("password-trailing-nul".into(), x));
        if !orig.secret.is_empty() {
            let mut x = orig.clone();
            x.secret.pop();
            out.push(("password - last byte".into(), x));
        }
    }
    out
}

fn run_fault(bs: &[Backend], m: &mut M, rep: &mut Report, what: &str, x: &Blob, with_model: bool) {
    rep.evaluations += 1;
    let b = &bs[x.backend];
    let r = unwrap(bs, x);
    let fk = what.split(' ').next().unwrap_or("");
    let fk = if fk == "other" || fk == "secret" || fk == "password" { "other-secret" } else { fk };
    rep.count(&format!("fault.{}.{}", x.op, fk));
    match &r {
        Ok(k) => {
            rep.violation(&format!("c06.{}.{}.accepted.{fk}", b.name, x.op), format!("{} {} blob accepted after fault [{what}]: returned a {}-byte key", b.name, x.op, k.len()), blob_json(bs, x, what));
            return;
        }
        Err(e) if e == "panic" => {
            rep.violation(&format!("c06.{}.{}.panic", b.name, x.op), format!("{} {} unwrap panicked on fault [{what}]", b.name, x.op), blob_json(bs, x, what));
            return;
        }
        Err(e) => rep.count(&format!("reject.{e}")),
    }
    rep.nontrivial(format!("{}|{}|{}|{fk}", b.name, x.op, x.kind));
    if with_model {
        rep.model_evaluations += 1;
        let mr = model_unwrap(m, bs, x);
        // key decoding of the recipient / inner key is C08's subject: only the blob-level error is compared
        let same = match (&r, &mr) {
            (Err(a), Err(bb)) => a == bb,
            _ => false,
        };
        if !same {
            rep.disagreement(&format!("c06.{}.{}.model", b.name, x.op), format!("fault [{what}]: implementation {:?}, model {:?}", r.as_ref().map(|k| k.len()), mr.as_ref().map(|k| k.len())), blob_json(bs, x, what));
        }
    }
}

pub fn run(ctx: &Ctx) {
    let mut rep = Report::new("C06", &ctx.tier, ctx.seed);
    rep.rule = "for sampled PIE / PBKW / PKE blobs of every backend (local and secret keys): every single-bit flip of every byte (PBKW parameter flips only within the cost budget iterations <= 4096 / memory <= 1 MiB, passes <= 3, lanes <= 4; the others are counted as skipped), every truncation, extension and front drop, 1 / 2 / 32 bytes inserted or deleted at every field boundary and at random interior positions, relabel to every other version and kind, other wrapping keys / passwords / recipients and single-bit changes of the secret, each other-key fault immediately after the genuine operation (which must still succeed); every acceptance is a violation; the model must give the same error kind; distinct = (backend, operation, kind, fault kind)".into();
    let bs = lab::backends();
    let mut m = M::new(&ctx.model);
    if let Some(path) = &ctx.replay {
        let v: Value = serde_json::from_str(&std::fs::read_to_string(path).expect("replay file")).expect("json");
        let r = &v["replay"];
        let hx = |k: &str| hex::decode(r[k].as_str().unwrap_or("")).unwrap_or_default();
        let bi = bs.iter().position(|b| b.name == r["backend"].as_str().unwrap_or("")).expect("backend");
        let op = match r["op"].as_str().unwrap_or("") { "pie" => "pie", "pbkw" => "pbkw", _ => "pke" };
        let kind = if r["kind"] == "secret" { "secret" } else { "local" };
        let x = Blob { op, kind, backend: bi, secret: hx("secret"), data: hx("data") };
        run_fault(&bs, &mut m, &mut rep, r["fault"].as_str().unwrap_or("replay"), &x, true);
        rep.model_prim_calls = m.prim_calls();
        rep.finish(ctx.out.as_deref());
        return;
    }
    let mut g = SplitMix64::new(ctx.seed ^ 0xC06);
    let thorough = ctx.thorough();
    let mut sampled = 0u64;
    for (bi, b) in bs.iter().enumerate() {
        let keys = keys_for(b, &mut g);
        let mut blobs: Vec<(Blob, Vec<Vec<u8>>)> = vec![];
        // one local and one secret key per wrap type (secret keys of v1 are ~1.2 KiB: only in thorough)
        for kind in ["local", "secret"] {
            let key = match keys.wrappable.iter().find(|k| k.0 == kind) {
                Some(k) => k.1.clone(),
                None => continue,
            };
            if key.len() > 200 && !thorough {
                continue;
            }
            let wk = g.bytes(32);
            if let Ok(s) = (b.pie_wrap)(kind, &wk, &key) {
                blobs.push((Blob { op: "pie", kind, backend: bi, secret: wk, data: paserk_bytes(&s).unwrap_or_default() }, vec![g.bytes(32), vec![0u8; 32]]));
            }
            let pass = b"hunter2".to_vec();
            let p = cheap_params(b, &mut g);
            if let Ok(s) = (b.pw_wrap)(kind, &pass, Some(&p), &key) {
                blobs.push((Blob { op: "pbkw", kind, backend: bi, secret: pass, data: paserk_bytes(&s).unwrap_or_default() }, vec![b"hunter3".to_vec(), vec![], b"Hunter2".to_vec()]));
            }
            // long passwords (a KDF front end that truncates or pre-hashes): 64, 65, 128, 129 and 300 bytes, the other
            // passwords share a long prefix and differ at the end, one byte appended, one byte removed
            if kind == "local" {
                for plen in [64usize, 65, 128, 129, 300] {
                    let pass: Vec<u8> = (0..plen).map(|i| b'a' + (i % 26) as u8).collect();
                    let p = cheap_params(b, &mut g);
                    if let Ok(s) = (b.pw_wrap)(kind, &pass, Some(&p), &key) {
                        let mut o1 = pass.clone();
                        *o1.last_mut().unwrap() ^= 1;
                        let mut o2 = pass.clone();
                        o2.push(b'x');
                        let o3 = pass[..plen - 1].to_vec();
                        let mut o4 = pass.clone();
                        o4.extend_from_slice(&pass);
                        blobs.push((Blob { op: "pbkw", kind, backend: bi, secret: pass, data: paserk_bytes(&s).unwrap_or_default() }, vec![o1, o2, o3, o4]));
                    }
                }
            }
        }
        if let Some((sk, pk, _)) = keys.recipients.first() {
            let others: Vec<Vec<u8>> = keys.recipients.iter().skip(1).map(|r| r.0.clone()).collect();
            if let Ok(s) = (b.pke_seal)(pk, &g.bytes(32)) {
                blobs.push((Blob { op: "pke", kind: "local", backend: bi, secret: sk.clone(), data: paserk_bytes(&s).unwrap_or_default() }, others));
            }
        }
        for (blob, others) in &blobs {
            // the unmodified blob must be accepted
            if unwrap(&bs, blob).is_err() {
                rep.notes.push(format!("{} {}: unmodified blob not accepted; see C05", b.name, blob.op));
                continue;
            }
            sampled += 1;
            if rep.samples.len() < 6 {
                rep.sample(json!({"backend": b.name, "op": blob.op, "kind": blob.kind, "blob_len": blob.data.len()}));
            }
            let fs = faults(&bs, blob, others, &mut g, &mut rep);
            let slow = b.ver == "v1" && blob.op == "pke";
            for (i, (what, x)) in fs.iter().enumerate() {
                if slow && !thorough && what.starts_with("bitflip") && i % 16 != 0 {
                    continue; // RSA-4096 private operation per fault: a stride in quick
                }
                let with_model = if slow { i % 64 == 0 } else { thorough || i % 3 == 0 };
                // state carried between calls (a memo of the last successful or attempted operation): the genuine
                // operation IMMEDIATELY before every other-key / other-password fault and before a sample of the
                // others, and it must itself still succeed after the rejected ones that preceded it
                if what.starts_with("other secret") || what.starts_with("relabel") || i % 41 == 0 {
                    rep.evaluations += 1;
                    if let Err(e) = unwrap(&bs, blob) {
                        rep.violation(&format!("c06.{}.{}.genuine-rejected-after-faults", b.name, blob.op), format!("{} {}: the unmodified blob is rejected ({e}) after {i} rejected variants of it were offered", b.name, blob.op), blob_json(&bs, blob, "genuine after faults"));
                        break;
                    }
                }
                run_fault(&bs, &mut m, &mut rep, what, x, with_model);
                if rep.violations.len() >= 40 {
                    break;
                }
            }
        }
    }
    rep.count_n("sampled-blobs", sampled);
    rep.model_prim_calls = m.prim_calls();
    rep.finish(ctx.out.as_deref());
}
