//! C01 — seal then unseal returns the original claims, through the library's own nonce path.
//! I = real API (all sealing entry points), M = extracted model over the primitive oracle,
//! P(I) = the round trip itself.
use crate::gallina::gb;
use crate::lab::{self, Backend, SealVia};
use crate::report::Report;
use crate::rng::{self, Mode, SplitMix64};
use crate::tok::{self, content, len_class, M};
use crate::Ctx;
use serde_json::{json, Value};

const LENS_QUICK: [usize; 24] = [0, 1, 2, 15, 16, 17, 31, 32, 33, 47, 48, 49, 63, 64, 65, 95, 96, 127, 128, 129, 255, 256, 1024, 4097];
const LENS_THOROUGH: [usize; 12] = [4095, 4096, 8191, 8192, 8193, 16384, 65535, 65536, 65537, 1048575, 1048576, 1048577];

#[derive(Clone)]
struct LCase {
    key: Vec<u8>,
    key_src: &'static str,
    m: Vec<u8>,
    f: Vec<u8>,
    a: Vec<u8>,
    via: SealVia,
    rng_seed: u64,
    rng_fixed: Option<u8>,
}

fn via_name(v: SealVia) -> &'static str {
    match v {
        SealVia::Seal => "seal",
        SealVia::Plain => "plain",
        SealVia::WithAad => "with_aad",
    }
}

fn via_of(s: &str) -> SealVia {
    match s {
        "plain" => SealVia::Plain,
        "with_aad" => SealVia::WithAad,
        _ => SealVia::Seal,
    }
}

fn lcase_json(b: &Backend, c: &LCase) -> Value {
    json!({"op": "local", "backend": b.name, "key": hex::encode(&c.key), "key_src": c.key_src, "m": hex::encode(&c.m), "f": hex::encode(&c.f),
           "a": hex::encode(&c.a), "via": via_name(c.via), "rng_seed": c.rng_seed, "rng_fixed": c.rng_fixed})
}

/// one local case on I, M and P(I)
fn run_local(b: &Backend, c: &LCase, m: &mut M, rep: &mut Report, model_too: bool) {
    rep.evaluations += 1;
    if b.scripted_rng {
        rng::set_mode(Mode::Script { prng: SplitMix64::new(c.rng_seed), fixed: c.rng_fixed, fail_at: None });
    }
    let tok = (b.local_encrypt)(&c.key, &c.m, &c.f, &c.a, c.via);
    let (calls, served) = rng::take_log();
    let cls = format!("{}.local", b.name);
    let tok = match tok {
        Ok(t) => t,
        Err(e) => {
            rep.violation(&format!("c01.{cls}.seal-failed"), format!("{} encrypt ({}) returned {e} for a valid key, {}-byte payload", b.name, via_name(c.via), c.m.len()), lcase_json(b, c));
            return;
        }
    };
    // P(I): the round trip — preceded, on this same thread, by a decryption that must FAIL (same token, another
    // key): "for every key and payload" includes the calls that follow a rejected token
    let plain = c.a.is_empty() && c.via == SealVia::Plain;
    {
        let mut k2 = c.key.clone();
        k2[0] ^= 0x80;
        if (b.local_decrypt)(&k2, &tok, &c.a, plain).is_ok() {
            rep.violation(&format!("c01.{cls}.wrong-key-accepted"), format!("{} decrypts a token under another key", b.name), lcase_json(b, c));
        }
    }
    match (b.local_decrypt)(&c.key, &tok, &c.a, plain) {
        Ok((m2, f2)) if m2 == c.m && f2 == c.f => {}
        other => {
            let what = match other {
                Ok((m2, _)) => format!("decrypt returned different claims ({} bytes instead of {})", m2.len(), c.m.len()),
                Err(e) => format!("decrypt returned {e}"),
            };
            rep.violation(&format!("c01.{cls}.roundtrip"), format!("{} encrypt->to_string->parse->decrypt: {what}", b.name), lcase_json(b, c));
            return;
        }
    }
    // the same token read through a typed footer (wire form not unique): same claims, footer decoded
    if !c.f.is_empty() && c.f.last() != Some(&b' ') {
        match (b.unseal_typed_footer)(true, &c.key, &tok, &c.a) {
            Ok((m2, f2)) if m2 == c.m && f2 == c.f => {}
            other => rep.violation(&format!("c01.{cls}.roundtrip-typed-footer"), format!("{} round trip through a typed footer: {:?}", b.name, other.map(|x| (x.0.len(), x.1.len()))), lcase_json(b, c)),
        }
    }
    rep.nontrivial(format!("{}|local|{}|f{}|a{}|{}|{}", b.name, len_class(c.m.len()), c.f.len().min(2), c.a.len().min(1), c.key_src, via_name(c.via)));
    if !model_too {
        return;
    }
    // M: same draws (scripted) or the nonce read back from the token
    let (payload, footer) = match lab::token_parts(&tok) {
        Some(p) => p,
        None => {
            rep.disagreement(&format!("c01.{cls}.token-shape"), format!("token string not of the form vN.local.b64[.b64]: {tok}"), lcase_json(b, c));
            return;
        }
    };
    let drawn: Vec<u8> = if b.scripted_rng {
        if calls.len() != 1 || calls[0].0 != b.nonce_len {
            rep.disagreement(&format!("c01.{cls}.draws"), format!("{} encrypt drew {:?}; the model draws one block of {}", b.name, calls, b.nonce_len), lcase_json(b, c));
        }
        served.clone()
    } else {
        payload[..b.nonce_len.min(payload.len())].to_vec()
    };
    let mut mp = drawn.clone();
    mp.extend_from_slice(&c.m);
    rep.model_evaluations += 1;
    let synthetic = b.ver == "v1" || b.ver == "v2";
    let ms = m.local_seal(b.name, &c.key, b"", &mp, &c.f, &c.a);
    if !(synthetic && !b.scripted_rng) {
        match &ms {
            Ok(p) if *p == payload && footer == c.f => {}
            other => rep.disagreement(&format!("c01.{cls}.seal-bytes"), format!("model seal = {:?} but implementation payload = {}", other.as_ref().map(hex::encode), hex::encode(&payload)), lcase_json(b, c)),
        }
    }
    rep.model_evaluations += 1;
    match m.local_unseal(b.name, &c.key, b"", &payload, &footer, &c.a) {
        Ok(m2) if m2 == c.m => {}
        other => rep.disagreement(&format!("c01.{cls}.unseal"), format!("model unseal of the implementation's token = {:?}", other.map(hex::encode)), lcase_json(b, c)),
    }
    if rep.kernel_cases.len() < 60 && c.m.len() <= 33 && rep.evaluations % 3 == 0 {
        // in-kernel: the model's unseal of this token, primitives answered from the logged table
        let gf = match b.name { "v1" => "v1_local_unseal", "v2" => "v2_local_unseal", "v3" => "v3_local_unseal", "v3-aws-lc" => "lc_local_unseal", "v4" => "v4_local_unseal", _ => "na_local_unseal" };
        let case = crate::sexp::op("local_unseal", vec![crate::sexp::s(b.name), crate::sexp::x(&c.key), crate::sexp::x(b""), crate::sexp::x(&payload), crate::sexp::x(&footer), crate::sexp::x(&c.a)]);
        let (_, kc) = m.eval_logged(gf, &case, &[&c.key, b"", &payload, &footer, &c.a]);
        rep.kernel_cases.push(kc);
    }
}

#[derive(Clone)]
struct PCase {
    sk: Vec<u8>,
    pk: Vec<u8>,
    key_src: &'static str,
    m: Vec<u8>,
    f: Vec<u8>,
    a: Vec<u8>,
    via: SealVia,
}

fn pcase_json(b: &Backend, c: &PCase) -> Value {
    json!({"op": "public", "backend": b.name, "sk": hex::encode(&c.sk), "pk": hex::encode(&c.pk), "key_src": c.key_src, "m": hex::encode(&c.m),
           "f": hex::encode(&c.f), "a": hex::encode(&c.a), "via": via_name(c.via)})
}

/// returns (r, s) leading-zero flags for 96-byte ECDSA signatures
fn run_public(b: &Backend, c: &PCase, m: &mut M, rep: &mut Report, model_too: bool) -> Option<(bool, bool)> {
    rep.evaluations += 1;
    let cls = format!("{}.public", b.name);
    let tok = match (b.public_sign)(&c.sk, &c.m, &c.f, &c.a, c.via) {
        Ok(t) => t,
        Err(e) => {
            rep.violation(&format!("c01.{cls}.seal-failed"), format!("{} sign ({}) returned {e} for a valid key, {}-byte payload", b.name, via_name(c.via), c.m.len()), pcase_json(b, c));
            return None;
        }
    };
    let plain = c.a.is_empty() && c.via == SealVia::Plain;
    // a verification that must FAIL first (the token with its last signature byte changed), on this thread
    if let Some((mut p2, f2)) = lab::token_parts(&tok) {
        if let Some(l) = p2.last_mut() {
            *l ^= 1;
        }
        if (b.public_verify)(&c.pk, &lab::token_string(b.ver, "public", &p2, &f2), &c.a, plain).is_ok() {
            rep.violation(&format!("c01.{cls}.forged-accepted"), format!("{} verifies a token whose signature was altered", b.name), pcase_json(b, c));
        }
    }
    match (b.public_verify)(&c.pk, &tok, &c.a, plain) {
        Ok((m2, f2)) if m2 == c.m && f2 == c.f => {}
        other => {
            let what = match other {
                Ok(_) => "verify returned different claims".to_string(),
                Err(e) => format!("verify returned {e}"),
            };
            rep.violation(&format!("c01.{cls}.roundtrip"), format!("{} sign->to_string->parse->verify: {what}", b.name), pcase_json(b, c));
            return None;
        }
    }
    if !c.f.is_empty() && c.f.last() != Some(&b' ') {
        match (b.unseal_typed_footer)(false, &c.pk, &tok, &c.a) {
            Ok((m2, f2)) if m2 == c.m && f2 == c.f => {}
            other => rep.violation(&format!("c01.{cls}.roundtrip-typed-footer"), format!("{} round trip through a typed footer: {:?}", b.name, other.map(|x| (x.0.len(), x.1.len()))), pcase_json(b, c)),
        }
    }
    rep.nontrivial(format!("{}|public|{}|f{}|a{}|{}|{}", b.name, len_class(c.m.len()), c.f.len().min(2), c.a.len().min(1), c.key_src, via_name(c.via)));
    let (payload, footer) = lab::token_parts(&tok)?;
    let lz = if b.sig_len == 96 && payload.len() >= 96 {
        let sig = &payload[payload.len() - 96..];
        Some((sig[0] == 0, sig[48] == 0))
    } else {
        None
    };
    if !model_too {
        return lz;
    }
    let msk = tok::model_sk(b, &c.sk);
    let deterministic = b.name != "v1" && b.name != "v3-aws-lc";
    rep.model_evaluations += 1;
    let ms = m.public_seal(b.name, &msk, b"", &c.m, &c.f, &c.a);
    match &ms {
        Ok(p) => {
            if deterministic && (*p != payload || footer != c.f) {
                rep.disagreement(&format!("c01.{cls}.seal-bytes"), format!("model token payload {} != implementation {}", hex::encode(p), hex::encode(&payload)), pcase_json(b, c));
            }
            if !deterministic {
                // the implementation must accept the model's (independently signed) token
                let t2 = lab::token_string(b.ver, "public", p, &c.f);
                match (b.public_verify)(&c.pk, &t2, &c.a, false) {
                    Ok((m2, _)) if m2 == c.m => {}
                    other => rep.disagreement(&format!("c01.{cls}.accept-model-token"), format!("implementation verify of the model's token: {:?}", other.map(|x| hex::encode(x.0))), pcase_json(b, c)),
                }
            }
        }
        Err(e) => rep.disagreement(&format!("c01.{cls}.seal"), format!("model seal = Err {e}, implementation Ok"), pcase_json(b, c)),
    }
    rep.model_evaluations += 1;
    match m.public_unseal(b.name, &c.pk, b"", &payload, &footer, &c.a) {
        Ok(m2) if m2 == c.m => {}
        other => rep.disagreement(&format!("c01.{cls}.unseal"), format!("model unseal of the implementation's token = {:?}", other.map(hex::encode)), pcase_json(b, c)),
    }
    lz
}

fn replay(ctx: &Ctx, path: &str, rep: &mut Report, m: &mut M) {
    let v: Value = serde_json::from_str(&std::fs::read_to_string(path).expect("replay file")).expect("json");
    let r = &v["replay"];
    let hx = |k: &str| hex::decode(r[k].as_str().unwrap_or("")).unwrap_or_default();
    let bs = lab::backends();
    let b = bs.iter().find(|b| b.name == r["backend"].as_str().unwrap_or("")).expect("backend");
    let _ = ctx;
    if r["op"] == "local" {
        let c = LCase { key: hx("key"), key_src: "replay", m: hx("m"), f: hx("f"), a: hx("a"), via: via_of(r["via"].as_str().unwrap_or("seal")),
                        rng_seed: r["rng_seed"].as_u64().unwrap_or(1), rng_fixed: r["rng_fixed"].as_u64().map(|x| x as u8) };
        run_local(b, &c, m, rep, true);
    } else {
        let c = PCase { sk: hx("sk"), pk: hx("pk"), key_src: "replay", m: hx("m"), f: hx("f"), a: hx("a"), via: via_of(r["via"].as_str().unwrap_or("seal")) };
        let n = r["repeat"].as_u64().unwrap_or(1);
        for _ in 0..n {
            run_public(b, &c, m, rep, n == 1);
        }
    }
}

pub fn run(ctx: &Ctx) {
    let mut rep = Report::new("C01", &ctx.tier, ctx.seed);
    rep.rule = "every message length 0..=600, every footer length and every assertion length 0..=600, and lengths around the powers of two up to 2^18, once per backend and purpose; every sealing entry point (seal / encrypt / encrypt_with_aad / sign / sign_with_aad) on all six backends, through V::nonce(): payload lengths at every AES/ChaCha block boundary, footers (empty, JSON, '.', NUL, 33 random bytes), assertions (empty / non-empty where supported), keys from random(), From<[u8;32]> and parsed bytes incl. boundary scalars; a payload type with a non-empty SUFFIX sealed and unsealed on every backend and purpose; RustCrypto backends under a scripted getrandom so that model and implementation must be bit-equal; a case is non-trivial when the token was produced by the library's own nonce path and round-tripped; distinct = (backend, purpose, length class, footer class, assertion class, key source, entry point)".into();
    let mut m = M::new(&ctx.model);
    if let Some(p) = &ctx.replay {
        replay(ctx, p, &mut rep, &mut m);
        rep.model_prim_calls = m.prim_calls();
        rep.finish(ctx.out.as_deref());
        return;
    }
    let mut g = SplitMix64::new(ctx.seed ^ 0xC01);
    let bs = lab::backends();
    let thorough = ctx.thorough();
    let mut lens: Vec<usize> = LENS_QUICK.to_vec();
    for _ in 0..(if thorough { 60 } else { 8 }) {
        lens.push(g.below(700) as usize);
    }
    let mut lz_counts = std::collections::BTreeMap::<String, (u64, u64, u64)>::new();
    for b in &bs {
        // ---------------- local
        let mut keys: Vec<(Vec<u8>, &'static str)> = vec![];
        for _ in 0..2 {
            if let Ok(k) = (b.local_random)() {
                keys.push((k, "random()"));
            }
        }
        keys.push(((b.local_from_array)(g.bytes(32).try_into().unwrap()).unwrap_or_default(), "from-array"));
        keys.push((vec![0u8; 32], "parsed"));
        keys.push((vec![0xffu8; 32], "parsed"));
        keys.push((g.bytes(32), "parsed"));
        let foots = tok::footers(&mut g);
        let mut i = 0usize;
        for &len in &lens {
            for rep_i in 0..(if len <= 129 { 2 } else { 1 }) {
                i += 1;
                let (key, key_src) = keys[i % keys.len()].clone();
                let a = if b.aad && (i + rep_i) % 2 == 0 { { let n = 1 + g.below(40) as usize; g.bytes(n) } } else { vec![] };
                let via = if a.is_empty() { [SealVia::Plain, SealVia::Seal, SealVia::WithAad][i % 3] } else { [SealVia::Seal, SealVia::WithAad][i % 2] };
                let c = LCase { key, key_src, m: content(&mut g, len), f: foots[i % foots.len()].clone(), a, via, rng_seed: g.next(),
                                rng_fixed: match i % 9 { 0 => Some(0), 1 => Some(0xff), _ => None } };
                if rep.samples.len() < 4 && len == 17 {
                    rep.sample(lcase_json(b, &c));
                }
                run_local(b, &c, &mut m, &mut rep, true);
            }
        }
        // full small cross product at one length
        for (key, key_src) in &keys {
            for f in &foots {
                for a in [vec![], b"implicit".to_vec()] {
                    if !a.is_empty() && !b.aad {
                        continue;
                    }
                    for via in [SealVia::Seal, SealVia::Plain, SealVia::WithAad] {
                        if via == SealVia::Plain && !a.is_empty() {
                            continue;
                        }
                        let c = LCase { key: key.clone(), key_src, m: content(&mut g, 17), f: f.clone(), a: a.clone(), via, rng_seed: g.next(), rng_fixed: None };
                        run_local(b, &c, &mut m, &mut rep, false);
                    }
                }
            }
        }
        if thorough {
            for &len in &LENS_THOROUGH {
                let c = LCase { key: keys[0].0.clone(), key_src: keys[0].1, m: content(&mut g, len), f: vec![], a: vec![], via: SealVia::Seal, rng_seed: g.next(), rng_fixed: None };
                run_local(b, &c, &mut m, &mut rep, len <= 16384);
            }
        }
        // ---------------- public
        let kps = tok::keypairs(b, &mut g, 2);
        if kps.is_empty() {
            rep.violation(&format!("c01.{}.public.no-keys", b.name), format!("{}: SecretKey::random() / public_key() failed", b.name), json!({"backend": b.name}));
            continue;
        }
        let mut j = 0usize;
        let plens: Vec<usize> = if b.name == "v1" && !thorough { lens.iter().cloned().step_by(3).collect() } else { lens.clone() };
        for &len in &plens {
            j += 1;
            let kp = &kps[j % kps.len()];
            let a = if b.aad && j % 2 == 0 { { let n = 1 + g.below(40) as usize; g.bytes(n) } } else { vec![] };
            let via = if a.is_empty() { [SealVia::Plain, SealVia::Seal, SealVia::WithAad][j % 3] } else { [SealVia::Seal, SealVia::WithAad][j % 2] };
            let c = PCase { sk: kp.sk.clone(), pk: kp.pk.clone(), key_src: kp.source, m: content(&mut g, len), f: foots[j % foots.len()].clone(), a, via };
            if rep.samples.len() < 8 && len == 17 {
                rep.sample(pcase_json(b, &c));
            }
            let lz = run_public(b, &c, &mut m, &mut rep, true);
            if let Some((r0, s0)) = lz {
                let e = lz_counts.entry(b.name.to_string()).or_default();
                e.0 += 1;
                e.1 += r0 as u64;
                e.2 += s0 as u64;
            }
        }
        // every message length 0..=600 once (fixed footer and assertion), implementation + P(I) only: lengths at
        // which a buffer, block or inline-capacity boundary falls are not known in advance
        {
            let kp = &kps[0];
            let lk = g.bytes(32);
            let a: Vec<u8> = if b.aad { b"implicit-12b".to_vec() } else { vec![] };
            let step = if b.name == "v1" && !thorough { 3 } else { 1 };
            for len in (0..=600usize).step_by(step) {
                let msg = content(&mut g, len);
                let pc = PCase { sk: kp.sk.clone(), pk: kp.pk.clone(), key_src: kp.source, m: msg.clone(), f: b"footer-10b".to_vec(), a: a.clone(), via: SealVia::Seal };
                run_public(b, &pc, &mut m, &mut rep, false);
                let lc = LCase { key: lk.clone(), key_src: "parsed", m: msg, f: b"footer-10b".to_vec(), a: a.clone(), via: SealVia::Seal, rng_seed: g.next(), rng_fixed: None };
                run_local(b, &lc, &mut m, &mut rep, false);
                if rep.violations.len() >= 20 {
                    break;
                }
            }
            // large messages around powers of two (a size threshold above which another code path is taken)
            for &len in &[1023usize, 1024, 1025, 4095, 4096, 4097, 16384, 65535, 65536, 65537, 262_144, 300_001] {
                let msg = content(&mut g, len);
                let pc = PCase { sk: kp.sk.clone(), pk: kp.pk.clone(), key_src: kp.source, m: msg.clone(), f: b"footer-10b".to_vec(), a: a.clone(), via: SealVia::Seal };
                run_public(b, &pc, &mut m, &mut rep, false);
                let lc = LCase { key: lk.clone(), key_src: "parsed", m: msg, f: b"footer-10b".to_vec(), a: a.clone(), via: SealVia::Seal, rng_seed: g.next(), rng_fixed: None };
                run_local(b, &lc, &mut m, &mut rep, false);
            }
            // the same sweep over the footer length and (where supported) the assertion length, 5-byte message
            let fstep = if b.name == "v1" && !thorough { 7 } else { 1 };
            for len in (0..=600usize).step_by(fstep).chain([1024usize, 4096, 4097, 65536, 65537]) {
                let ft = content(&mut g, len);
                let pc = PCase { sk: kp.sk.clone(), pk: kp.pk.clone(), key_src: kp.source, m: b"five!".to_vec(), f: ft.clone(), a: a.clone(), via: SealVia::Seal };
                run_public(b, &pc, &mut m, &mut rep, false);
                let lc = LCase { key: lk.clone(), key_src: "parsed", m: b"five!".to_vec(), f: ft.clone(), a: a.clone(), via: SealVia::Seal, rng_seed: g.next(), rng_fixed: None };
                run_local(b, &lc, &mut m, &mut rep, false);
                if b.aad {
                    let pc = PCase { sk: kp.sk.clone(), pk: kp.pk.clone(), key_src: kp.source, m: b"five!".to_vec(), f: b"f".to_vec(), a: ft.clone(), via: SealVia::Seal };
                    run_public(b, &pc, &mut m, &mut rep, false);
                    let lc = LCase { key: lk.clone(), key_src: "parsed", m: b"five!".to_vec(), f: b"f".to_vec(), a: ft, via: SealVia::Seal, rng_seed: g.next(), rng_fixed: None };
                    run_local(b, &lc, &mut m, &mut rep, false);
                }
                if rep.violations.len() >= 20 {
                    break;
                }
            }
        }
        // payload types with a non-empty SUFFIX (header "v4x.local."): sealing and unsealing build the header separately
        // (sign / verify even in separate functions), so the round trip is its own case
        for purpose in ["local", "public"] {
            let kp = &kps[0];
            let (sealk, unsealk) = if purpose == "local" { let k = g.bytes(32); (k.clone(), k) } else { (kp.sk.clone(), kp.pk.clone()) };
            let a: Vec<u8> = if b.aad { b"ia".to_vec() } else { vec![] };
            for len in [0usize, 1, 21, 64, 300] {
                rep.evaluations += 1;
                let msg = content(&mut g, len);
                let replay = json!({"op": "suffix", "backend": b.name, "purpose": purpose, "key": hex::encode(&sealk), "m": hex::encode(&msg)});
                match (b.seal_x)(purpose, &sealk, &msg, b"f", &a) {
                    Ok(tx) => {
                        if !tx.starts_with(&format!("{}x.{purpose}.", b.ver)) {
                            rep.violation(&format!("c01.{}.{purpose}.suffix-header", b.name), format!("{} {purpose}: a token of a payload type with suffix \"x\" does not start with {}x.{purpose}.: {tx}", b.name, b.ver), replay.clone());
                        }
                        match (b.unseal_x)(purpose, &unsealk, &tx, &a) {
                            Ok((m2, f2)) if m2 == msg && f2 == b"f" => rep.nontrivial(format!("suffix|{}|{purpose}|{}", b.name, len_class(len))),
                            other => rep.violation(&format!("c01.{}.{purpose}.suffix-roundtrip", b.name), format!("{} {purpose}: a token of a payload type with suffix \"x\" ({len}-byte message) does not unseal under the same type: {:?}", b.name, other.map(|x| x.0.len())), replay.clone()),
                        }
                    }
                    Err(e) => rep.violation(&format!("c01.{}.{purpose}.suffix-seal", b.name), format!("{} {purpose}: sealing a payload type with suffix \"x\" failed: {e}", b.name), replay.clone()),
                }
            }
        }
        // every key pair once (incl. boundary scalars)
        for kp in &kps {
            let c = PCase { sk: kp.sk.clone(), pk: kp.pk.clone(), key_src: kp.source, m: content(&mut g, 20), f: vec![], a: vec![], via: SealVia::Seal };
            run_public(b, &c, &mut m, &mut rep, true);
        }
        // signature values with leading zero bytes: many signatures (implementation + P(I) only)
        if b.sig_len == 96 {
            let n = if thorough { 20000 } else { 2500 };
            let kp = &kps[0];
            for k in 0..n {
                let c = PCase { sk: kp.sk.clone(), pk: kp.pk.clone(), key_src: kp.source, m: (k as u64).to_le_bytes().to_vec(), f: vec![], a: vec![], via: SealVia::Seal };
                // model too on the (rare) leading-zero ones is decided after the fact: run I first
                let before = rep.violations.len();
                let lz = run_public(b, &c, &mut m, &mut rep, false);
                if let Some((r0, s0)) = lz {
                    let e = lz_counts.entry(b.name.to_string()).or_default();
                    e.0 += 1;
                    e.1 += r0 as u64;
                    e.2 += s0 as u64;
                    if (r0 || s0) && e.1 + e.2 <= 6 {
                        run_public(b, &c, &mut m, &mut rep, true);
                    }
                }
                if rep.violations.len() > before && rep.violations.len() >= 3 {
                    break;
                }
            }
        }
    }
    for (b, (n, r0, s0)) in &lz_counts {
        rep.count_n(&format!("{b}.signatures"), *n);
        rep.count_n(&format!("{b}.signatures.r-leading-zero"), *r0);
        rep.count_n(&format!("{b}.signatures.s-leading-zero"), *s0);
        if *n >= 2000 && r0 + s0 == 0 {
            rep.notes.push(format!("{b}: no leading-zero r/s among {n} signatures (expected about {})", n / 128));
        }
    }
    let keys: Vec<String> = rep.distinct.iter().cloned().collect();
    for k in keys {
        let parts: Vec<&str> = k.split('|').collect();
        rep.count(&format!("cases.{}.{}", parts[0], parts[1]));
    }
    rep.model_prim_calls = m.prim_calls();
    rep.finish(ctx.out.as_deref());
}
