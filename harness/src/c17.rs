//! C17 — shared keys behave the same under concurrent use and after failed operations.
//! One key object per backend (Arc) is used from 2..16 threads for signing, verifying, encrypting,
//! decrypting, wrapping, id, cloning and dropping clones in seeded random orders; every deterministic result
//! must equal the sequential oracle (the same operation on a fresh copy of the key), every randomised result
//! must verify.  Histories mixing failing and succeeding operations on one key object are compared with
//! fresh copies as well.
use crate::impls::{err_name, Raw, V1, V2, V3, V3L, V4, V4S};
use crate::lab::{self, key_bytes, key_from};
use crate::report::Report;
use crate::rng::SplitMix64;
use crate::tok;
use crate::Ctx;
use paseto_core::key::Key;
use paseto_core::tokens::{SealedToken, UnsealedToken};
use paseto_core::validation::NoValidation;
use paseto_core::version::{Local, Public, Secret};
use serde_json::json;
use std::str::FromStr;
use std::sync::Arc;

const N_OPS: u64 = 15;

/// material prepared once per backend for the wrapping operations: password-wrapped copies of the shared local key
/// (password, PASERK text), a key pair for sealing (v1: RSA-4096 from the corpus), an unrelated recipient key, and the
/// shared local key sealed to the first
#[derive(Clone)]
pub struct Extra {
    pub pw: Vec<(Vec<u8>, String)>,
    pub pke_sk: Vec<u8>,
    pub pke_pk: Vec<u8>,
    pub pke_other: Vec<u8>,
    pub sealed: String,
}

/// result of one operation, canonicalised
type Out = Result<String, String>;

macro_rules! backend_runner {
    ($fname:ident, $V:ty, $aad:expr) => {
        /// keys: (local, secret, public); returns per-thread result lists
        fn $fname(local: &[u8], sk: &[u8], extra: &Extra, threads: usize, ops_per_thread: usize, seed: u64, history: bool, first_use: bool, only: &[u64]) -> (Vec<Vec<(u64, Out)>>, Vec<Vec<(u64, Out)>>) {
            type LK = Key<$V, Local>;
            type SK = Key<$V, Secret>;
            type PK = Key<$V, Public>;
            struct Shared {
                lk: LK,
                sk: SK,
                pk: PK,
                good_local: String,
                good_public: String,
                nonce: Vec<u8>,
                pke_sk: Key<$V, paseto_core::version::PkeSecret>,
                pke_pk: Key<$V, paseto_core::version::PkePublic>,
                pke_other: Key<$V, paseto_core::version::PkeSecret>,
                extra: Extra,
            }
            fn mk(local: &[u8], sk: &[u8], extra: &Extra) -> Shared {
                let lk: LK = key_from::<$V, Local>(local).expect("local key");
                let skk: SK = key_from::<$V, Secret>(sk).expect("secret key");
                let pk = skk.public_key();
                let a: &[u8] = if $aad { b"ia" } else { b"" };
                let nonce: Vec<u8> = (0..32u8).collect();
                let good_local = UnsealedToken::<$V, Local, Raw>::new(Raw(b"payload".to_vec())).with_footer(b"f".to_vec()).seal(&lk, a).expect("seal").to_string();
                let good_public = UnsealedToken::<$V, Public, Raw>::new(Raw(b"payload".to_vec())).with_footer(b"f".to_vec()).seal(&skk, a).expect("sign").to_string();
                let pke_sk = key_from::<$V, paseto_core::version::PkeSecret>(&extra.pke_sk).expect("pke secret key");
                let pke_pk = key_from::<$V, paseto_core::version::PkePublic>(&extra.pke_pk).expect("pke public key");
                let pke_other = key_from::<$V, paseto_core::version::PkeSecret>(&extra.pke_other).expect("other pke secret key");
                Shared { lk, sk: skk, pk, good_local, good_public, nonce, pke_sk, pke_pk, pke_other, extra: extra.clone() }
            }
            /// the same keys as objects that have never been used: parsed from bytes only (the public key from
            /// its own bytes, not derived), tokens taken from another copy
            fn mk_unused(local: &[u8], sk: &[u8], donor: &Shared) -> Shared {
                let lk: LK = key_from::<$V, Local>(local).expect("local key");
                let skk: SK = key_from::<$V, Secret>(sk).expect("secret key");
                let pk: PK = key_from::<$V, Public>(&key_bytes(&donor.pk)).expect("public key");
                let pke_sk = key_from::<$V, paseto_core::version::PkeSecret>(&donor.extra.pke_sk).expect("pke secret key");
                let pke_pk = key_from::<$V, paseto_core::version::PkePublic>(&donor.extra.pke_pk).expect("pke public key");
                let pke_other = key_from::<$V, paseto_core::version::PkeSecret>(&donor.extra.pke_other).expect("other pke secret key");
                Shared { lk, sk: skk, pk, good_local: donor.good_local.clone(), good_public: donor.good_public.clone(), nonce: donor.nonce.clone(), pke_sk, pke_pk, pke_other, extra: donor.extra.clone() }
            }
            /// the same token with one character of its payload segment changed (third from the end of the segment, so
            /// that the text stays canonical base64 and the change reaches the tag / signature check)
            fn corrupt(t: &str) -> String {
                let mut b = t.as_bytes().to_vec();
                let dots: Vec<usize> = b.iter().enumerate().filter(|(_, c)| **c == b'.').map(|(i, _)| i).collect();
                let end = if dots.len() >= 3 { dots[2] } else { b.len() };
                let i = end - 3;
                b[i] = if b[i] == b'A' { b'B' } else { b'A' };
                String::from_utf8(b).unwrap()
            }
            /// one operation on (possibly shared) keys; deterministic ops return their output, randomised ones a verdict
            fn op(s: &Shared, code: u64, i: u64) -> Out {
                let a: &[u8] = if $aad { b"ia" } else { b"" };
                let msg = format!("message {i}").into_bytes();
                let r = std::panic::catch_unwind(std::panic::AssertUnwindSafe(|| -> Result<String, paseto_core::PasetoError> {
                    Ok(match code {
                        0 => {
                            let t = UnsealedToken::<$V, Public, Raw>::new(Raw(msg.clone())).seal(&s.sk, a)?.to_string();
                            let u = SealedToken::<$V, Public, Raw, Vec<u8>>::from_str(&t)?.unseal(&s.pk, a, &NoValidation::dangerous_no_validation())?;
                            if u.claims.0 == msg { "signed+verified".into() } else { "signed: WRONG CLAIMS".into() }
                        }
                        1 => {
                            let u = SealedToken::<$V, Public, Raw, Vec<u8>>::from_str(&s.good_public)?.unseal(&s.pk, a, &NoValidation::dangerous_no_validation())?;
                            hex::encode(u.claims.0)
                        }
                        2 => {
                            SealedToken::<$V, Public, Raw, Vec<u8>>::from_str(&corrupt(&s.good_public))?.unseal(&s.pk, a, &NoValidation::dangerous_no_validation())?;
                            "ACCEPTED CORRUPTED".into()
                        }
                        3 => {
                            let n = s.nonce[..if <$V as paseto_core::version::Version>::HEADER == "v2" { 24 } else { 32 }].to_vec();
                            UnsealedToken::<$V, Local, Raw>::new(Raw(msg.clone())).dangerous_seal_with_nonce(&s.lk, a, n)?.to_string()
                        }
                        4 => {
                            let u = SealedToken::<$V, Local, Raw, Vec<u8>>::from_str(&s.good_local)?.unseal(&s.lk, a, &NoValidation::dangerous_no_validation())?;
                            hex::encode(u.claims.0)
                        }
                        5 => {
                            SealedToken::<$V, Local, Raw, Vec<u8>>::from_str(&corrupt(&s.good_local))?.unseal(&s.lk, a, &NoValidation::dangerous_no_validation())?;
                            "ACCEPTED CORRUPTED".into()
                        }
                        6 => {
                            let c = s.sk.clone();
                            let t = UnsealedToken::<$V, Public, Raw>::new(Raw(msg.clone())).seal(&c, a)?.to_string();
                            drop(c);
                            let pkc = s.pk.clone();
                            let u = SealedToken::<$V, Public, Raw, Vec<u8>>::from_str(&t)?.unseal(&pkc, a, &NoValidation::dangerous_no_validation())?;
                            drop(pkc);
                            if u.claims.0 == msg { "clone signed, clone verified".into() } else { "clone: WRONG CLAIMS".into() }
                        }
                        7 => format!("{} {} {} {}", s.pk.to_string(), s.sk.id(), s.lk.id(), hex::encode(key_bytes(&s.sk))),
                        8 => {
                            let w = s.lk.clone().wrap_pie(&s.lk)?;
                            let k = paseto_core::paserk::PieWrappedKey::<$V, Local>::from_str(&w.to_string())?.unwrap(&s.lk)?;
                            if key_bytes(&k) == key_bytes(&s.lk) { "pie round trip".into() } else { "pie: WRONG KEY".into() }
                        }
                        10 => {
                            // password unwrap of one of several wrapped copies (different salts) with its own password
                            let (pass, text) = &s.extra.pw[i as usize % s.extra.pw.len()];
                            let k = paseto_core::paserk::PasswordWrappedKey::<$V, Local>::from_str(text)?.unwrap(pass)?;
                            if key_bytes(&k) == key_bytes(&s.lk) { "pw unwrap".into() } else { "pw unwrap: WRONG KEY".into() }
                        }
                        11 => {
                            let n = s.extra.pw.len();
                            let (_, text) = &s.extra.pw[i as usize % n];
                            let (wrong, _) = &s.extra.pw[(i as usize + 1) % n];
                            paseto_core::paserk::PasswordWrappedKey::<$V, Local>::from_str(text)?.unwrap(wrong)?;
                            "ACCEPTED WRONG PASSWORD".into()
                        }
                        12 => {
                            let w = s.lk.clone().seal(&s.pke_pk)?.to_string();
                            let k = paseto_core::paserk::SealedKey::<$V>::from_str(&w)?.unseal(&s.pke_sk)?;
                            if key_bytes(&k) == key_bytes(&s.lk) { "seal round trip".into() } else { "seal: WRONG KEY".into() }
                        }
                        13 => {
                            let k = paseto_core::paserk::SealedKey::<$V>::from_str(&s.extra.sealed)?.unseal(&s.pke_sk)?;
                            if key_bytes(&k) == key_bytes(&s.lk) { "unseal".into() } else { "unseal: WRONG KEY".into() }
                        }
                        14 => {
                            paseto_core::paserk::SealedKey::<$V>::from_str(&s.extra.sealed)?.unseal(&s.pke_other)?;
                            "ACCEPTED WRONG RECIPIENT".into()
                        }
                        _ => {
                            // wrong-kind / malformed inputs against the shared keys (all must fail, none may disturb the key)
                            SealedToken::<$V, Local, Raw, Vec<u8>>::from_str(&s.good_public)?.unseal(&s.lk, a, &NoValidation::dangerous_no_validation())?;
                            "ACCEPTED WRONG PURPOSE".into()
                        }
                    })
                }));
                match r {
                    Ok(Ok(v)) => Ok(v),
                    Ok(Err(e)) => Err(err_name(&e).to_string()),
                    Err(_) => Err("panic".into()),
                }
            }
            // building the key set signs and seals once on THIS thread; after a history of rejected operations on it that
            // must still work (if it does not, that is the violation, not a harness error)
            let donor = match std::panic::catch_unwind(|| mk(local, sk, extra)) {
                Ok(d) => d,
                Err(_) => return (vec![vec![(98, Err("building a fresh key set and signing with it failed on this thread".into()))]], vec![vec![(98, Ok(String::new()))]]),
            };
            // clone / drop storm (ops_per_thread == 0 selects it): every thread clones and drops the shared secret and
            // public key many times, then uses a clone; a reference count or FFI handle that is not thread-safe shows as
            // a crash of the process (reported by ./check as the violation) or as a key that stopped working
            if ops_per_thread == 0 {
                let shared = Arc::new(donor);
                let rounds = seed as usize;
                let handles: Vec<_> = (0..threads)
                    .map(|t| {
                        let s = Arc::clone(&shared);
                        std::thread::spawn(move || {
                            for _ in 0..rounds {
                                let a = s.sk.clone();
                                let b = s.pk.clone();
                                let c = s.lk.clone();
                                drop((a, b, c));
                            }
                            vec![(6u64, op(&s, 6, t as u64)), (1u64, op(&s, 1, t as u64))]
                        })
                    })
                    .collect();
                let got: Vec<Vec<(u64, Out)>> = handles.into_iter().map(|h| h.join().unwrap_or_else(|_| vec![(99, Err("thread panicked".into()))])).collect();
                let oracle = got.iter().map(|g| g.iter().map(|(c, _)| (*c, Ok(if *c == 6 { "clone signed, clone verified".to_string() } else { hex::encode(b"payload") }))).collect()).collect();
                return (got, oracle);
            }
            let shared = Arc::new(if first_use { mk_unused(local, sk, &donor) } else { donor });
            // plan: per thread, a seeded list of (op code, index)
            let mut g = SplitMix64::new(seed);
            let plans: Vec<Vec<(u64, u64)>> = (0..threads).map(|t| (0..ops_per_thread).map(|j| (if only.is_empty() { g.below(N_OPS) } else { *g.pick(only) }, (t * 1000 + j) as u64)).collect()).collect();
            // oracle: each operation on a FRESH copy of the keys, sequentially
            let oracle: Vec<Vec<(u64, Out)>> = plans
                .iter()
                .map(|p| {
                    p.iter()
                        .map(|&(c, i)| {
                            // a fresh copy of the keys on a fresh thread: no state of any earlier operation,
                            // neither in the key objects nor in thread-local storage
                            let (l2, s2, gl, gp, ex) = (local.to_vec(), sk.to_vec(), shared.good_local.clone(), shared.good_public.clone(), shared.extra.clone());
                            let r = std::thread::spawn(move || {
                                let mut fresh = mk(&l2, &s2, &ex);
                                fresh.good_local = gl;
                                fresh.good_public = gp;
                                op(&fresh, c, i)
                            })
                            .join()
                            .unwrap_or_else(|_| Err("oracle thread panicked".into()));
                            (c, r)
                        })
                        .collect()
                })
                .collect();
            let got: Vec<Vec<(u64, Out)>> = if history {
                // one thread, one key object, the whole history in order
                plans.iter().map(|p| p.iter().map(|&(c, i)| (c, op(&shared, c, i))).collect()).collect()
            } else {
                let barrier = Arc::new(std::sync::Barrier::new(threads));
                let handles: Vec<_> = plans
                    .iter()
                    .cloned()
                    .map(|p| {
                        let s = Arc::clone(&shared);
                        let bar = Arc::clone(&barrier);
                        std::thread::spawn(move || {
                            bar.wait();
                            p.iter().map(|&(c, i)| (c, op(&s, c, i))).collect::<Vec<_>>()
                        })
                    })
                    .collect();
                handles.into_iter().map(|h| h.join().unwrap_or_else(|_| vec![(99, Err("thread panicked".into()))])).collect()
            };
            (got, oracle)
        }
    };
}

backend_runner!(run_v1, V1, false);
backend_runner!(run_v2, V2, false);
backend_runner!(run_v3, V3, true);
backend_runner!(run_v3l, V3L, true);
backend_runner!(run_v4, V4, true);
backend_runner!(run_v4s, V4S, true);

pub fn run(ctx: &Ctx) {
    let mut rep = Report::new("C17", &ctx.tier, ctx.seed);
    rep.rule = "per backend one key set shared through Arc by 2, 4, 8, 16 threads, each performing a seeded random list of: sign+verify, verify good / corrupted token, dangerous_seal_with_nonce (deterministic), decrypt good / corrupted token, clone+sign+drop, Display / id / expose, wrap_pie round trip, wrong-purpose unseal, password unwrap of six wrapped copies with the right and with a wrong password, seal + unseal, unseal of a fixed sealed key by its recipient and by an unrelated recipient key; every result compared with the sequential oracle (the same operation on a fresh copy); the oracle runs every operation on a fresh copy of the keys AND on a fresh thread (no key state, no thread-local state); each operation also has a verdict the property fixes (good tokens verify, corrupted ones fail); the same plans also run as single-thread histories on one key object (failed operations interleaved with successful ones); many short rounds of 8 threads released together by a barrier make the first use of key objects that were only parsed; wrapping storms (8 threads doing only password unwraps of six different wrapped copies, only unseals); clone / drop storms (8 threads x 20000 clones of the shared secret, public and local key) on fresh key sets, the key used afterwards; distinct = (backend, thread count, operation, outcome)".into();
    let bs = lab::backends();
    let mut g = SplitMix64::new(ctx.seed ^ 0xC17);
    let thorough = ctx.thorough();
    for b in &bs {
        let kps = tok::keypairs(b, &mut g, 1);
        let sk = kps[0].sk.clone();
        let local = g.bytes(32);
        // material for the wrapping operations
        let extra = {
            let mut pw = vec![];
            for j in 0..6u8 {
                let pass = format!("password-{j}").into_bytes();
                let params = crate::c05::cheap_params(b, &mut g);
                match (b.pw_wrap)("local", &pass, Some(&params), &local) {
                    Ok(t) => pw.push((pass, t)),
                    Err(e) => rep.notes.push(format!("{}: password wrap for the C17 material failed: {e}", b.name)),
                }
            }
            let (pke_sk, pke_pk, pke_other) = if b.name == "v1" {
                use rsa::pkcs1::DecodeRsaPrivateKey;
                use rsa::pkcs8::spki::EncodePublicKey;
                let ders = tok::corpus_rsa_keys(4096);
                let pk = rsa::RsaPrivateKey::from_pkcs1_der(&ders[0]).unwrap().to_public_key().to_public_key_der().unwrap().into_vec();
                (ders[0].clone(), pk, ders[1].clone())
            } else {
                let other = tok::keypairs(b, &mut g, 1);
                (sk.clone(), kps[0].pk.clone(), other.iter().find(|k| k.sk != sk).map(|k| k.sk.clone()).unwrap_or_else(|| other[0].sk.clone()))
            };
            let sealed = (b.pke_seal)(&pke_pk, &local).unwrap_or_default();
            Extra { pw, pke_sk, pke_pk, pke_other, sealed }
        };
        if extra.pw.is_empty() || extra.sealed.is_empty() {
            rep.notes.push(format!("{}: wrapping material incomplete; wrapping operations would be vacuous", b.name));
            continue;
        }
        let thread_counts: Vec<usize> = if b.name == "v1" && !thorough { vec![2, 8] } else { vec![2, 4, 8, 16] };
        let per_thread = if b.name == "v1" { if thorough { 40 } else { 12 } } else if thorough { 600 } else { 120 };
        // (history?, first use?, thread counts, operations per thread): long mixed runs on a warmed-up key set,
        // single-thread histories, and many short rounds in which 8 threads leave a barrier together to make the
        // FIRST use of key objects that were only parsed
        let rounds = if b.name == "v1" { if thorough { 30 } else { 6 } } else if thorough { 600 } else { 120 };
        let mut phases: Vec<(bool, bool, Vec<usize>, usize, Vec<u64>)> = vec![(false, false, thread_counts.clone(), per_thread, vec![]), (true, false, vec![1usize], per_thread, vec![])];
        phases.push((false, true, vec![8usize; rounds], 2, vec![]));
        // wrapping storms: 8 threads doing nothing but password unwraps of different wrapped copies (right and wrong
        // password), and nothing but unseals (right and wrong recipient) — shared caches or memos behind these
        // operations need contention to go wrong
        let storm_ops = if b.name == "v1" { if thorough { 30 } else { 10 } } else if thorough { 1200 } else { 400 };
        phases.push((false, false, vec![8usize; 3], storm_ops, vec![10, 10, 10, 11]));
        phases.push((false, false, vec![8usize; 2], if b.name == "v1" { storm_ops } else { storm_ops / 2 }, vec![13, 13, 14, 12]));
        // clone / drop storms on fresh key sets (per_thread = 0; the seed slot carries the number of clone/drop rounds)
        let storms = if thorough { 40 } else { 8 };
        phases.push((false, false, vec![8usize; storms], 0, vec![]));
        for (mode, first_use, tcs, per_thread, only) in phases {
            for &tc in &tcs {
                let seed = if per_thread == 0 { if b.name == "v1" { 300 } else if thorough { 50_000 } else { 20_000 } } else { g.next() };
                let (got, oracle) = match b.name {
                    "v1" => run_v1(&local, &sk, &extra, tc, per_thread, seed, mode, first_use, &only),
                    "v2" => run_v2(&local, &sk, &extra, tc, per_thread, seed, mode, first_use, &only),
                    "v3" => run_v3(&local, &sk, &extra, tc, per_thread, seed, mode, first_use, &only),
                    "v3-aws-lc" => run_v3l(&local, &sk, &extra, tc, per_thread, seed, mode, first_use, &only),
                    "v4" => run_v4(&local, &sk, &extra, tc, per_thread, seed, mode, first_use, &only),
                    _ => run_v4s(&local, &sk, &extra, tc, per_thread, seed, mode, first_use, &only),
                };
                for (t, (g_t, o_t)) in got.iter().zip(oracle.iter()).enumerate() {
                    if g_t.len() != o_t.len() {
                        rep.violation(&format!("c17.{}.thread-died", b.name), format!("{}: thread {t} of {tc} produced {} results instead of {}", b.name, g_t.len(), o_t.len()), json!({"backend": b.name, "threads": tc, "seed": seed, "history": mode}));
                        continue;
                    }
                    for (j, ((c, gr), (_, or))) in g_t.iter().zip(o_t.iter()).enumerate() {
                        rep.evaluations += 1;
                        let what = if mode { "single-thread history" } else if first_use { "concurrent first use" } else { "concurrent use" };
                        // what the property itself demands of each operation, whatever the oracle says
                        let must_succeed = !matches!(*c, 2 | 5 | 9 | 11 | 14);
                        if must_succeed != gr.is_ok() {
                            rep.violation(&format!("c17.{}.bad-result.op{c}", b.name), format!("{} {what} ({tc} threads): operation {c} #{j} of thread {t} gave {:?}; it must {}", b.name, gr, if must_succeed { "succeed" } else { "fail" }), json!({"backend": b.name, "threads": tc, "seed": seed, "history": mode, "first_use": first_use, "op": c}));
                        } else if gr != or {
                            rep.violation(&format!("c17.{}.differs.op{c}", b.name), format!("{} {what} ({tc} threads): operation {c} #{j} of thread {t} gave {:?}, on a fresh copy of the key it gives {:?}", b.name, gr, or), json!({"backend": b.name, "threads": tc, "seed": seed, "history": mode, "op": c}));
                        } else if matches!(gr, Ok(s) if s.contains("WRONG") || s.contains("ACCEPTED")) || matches!(gr, Err(e) if e == "panic") {
                            rep.violation(&format!("c17.{}.bad-result.op{c}", b.name), format!("{} {what}: operation {c} gave {:?}", b.name, gr), json!({"backend": b.name, "threads": tc, "seed": seed, "history": mode, "op": c}));
                        } else {
                            rep.nontrivial(format!("{}|{}|t{tc}|op{c}|{}", b.name, if mode { "hist" } else if first_use { "first" } else { "conc" }, if gr.is_ok() { "ok" } else { "err" }));
                        }
                    }
                }
                if rep.violations.len() > 30 {
                    break;
                }
            }
        }
        if rep.samples.len() < 6 {
            rep.sample(json!({"backend": b.name, "thread_counts": thread_counts, "ops_per_thread": per_thread}));
        }
    }
    rep.finish(ctx.out.as_deref());
}
