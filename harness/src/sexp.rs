//! S-expressions exchanged with the extracted model (see ocaml/driver.ml).
use std::fmt::Write;

#[derive(Clone, Debug, PartialEq, Eq, Hash)]
pub enum Sexp {
    X(Vec<u8>),
    N(String),
    S(String),
    L(Vec<Sexp>),
}

pub fn x(b: &[u8]) -> Sexp {
    Sexp::X(b.to_vec())
}
pub fn n<T: ToString>(v: T) -> Sexp {
    Sexp::N(v.to_string())
}
pub fn s(v: &str) -> Sexp {
    Sexp::S(v.to_string())
}
pub fn l(v: Vec<Sexp>) -> Sexp {
    Sexp::L(v)
}
pub fn op(name: &str, mut args: Vec<Sexp>) -> Sexp {
    let mut v = vec![s(name)];
    v.append(&mut args);
    Sexp::L(v)
}

impl Sexp {
    pub fn write(&self, out: &mut String) {
        match self {
            Sexp::X(b) => {
                out.push('x');
                out.push_str(&hex::encode(b));
            }
            Sexp::N(d) => {
                out.push('n');
                out.push_str(d);
            }
            Sexp::S(d) => {
                out.push('s');
                out.push_str(d);
            }
            Sexp::L(items) => {
                out.push('(');
                for (i, it) in items.iter().enumerate() {
                    if i > 0 {
                        out.push(' ');
                    }
                    it.write(out);
                }
                out.push(')');
            }
        }
    }
    pub fn to_text(&self) -> String {
        let mut o = String::new();
        self.write(&mut o);
        o
    }
    pub fn parse(t: &str) -> Result<Sexp, String> {
        let b = t.as_bytes();
        let mut pos = 0usize;
        let v = parse_value(b, &mut pos)?;
        Ok(v)
    }
    pub fn bytes(&self) -> &[u8] {
        match self {
            Sexp::X(b) => b,
            _ => panic!("expected bytes, got {}", self.to_text()),
        }
    }
    pub fn list(&self) -> &[Sexp] {
        match self {
            Sexp::L(v) => v,
            _ => panic!("expected list, got {}", self.to_text()),
        }
    }
    pub fn sym(&self) -> &str {
        match self {
            Sexp::S(v) => v,
            _ => panic!("expected symbol, got {}", self.to_text()),
        }
    }
    pub fn num(&self) -> &str {
        match self {
            Sexp::N(v) => v,
            _ => panic!("expected number, got {}", self.to_text()),
        }
    }
    pub fn usize(&self) -> usize {
        self.num().parse().expect("usize")
    }
    pub fn is_sym(&self, v: &str) -> bool {
        matches!(self, Sexp::S(d) if d == v)
    }
    /// short, human-readable rendering for evidence samples
    pub fn brief(&self) -> String {
        let t = self.to_text();
        if t.len() > 300 {
            let mut o = String::new();
            let _ = write!(o, "{}…({} chars)", &t[..300], t.len());
            o
        } else {
            t
        }
    }
}

fn skip(b: &[u8], pos: &mut usize) {
    while *pos < b.len() && (b[*pos] == b' ' || b[*pos] == b'\r' || b[*pos] == b'\n') {
        *pos += 1;
    }
}

fn parse_value(b: &[u8], pos: &mut usize) -> Result<Sexp, String> {
    skip(b, pos);
    if *pos >= b.len() {
        return Err("eof".into());
    }
    if b[*pos] == b'(' {
        *pos += 1;
        let mut items = vec![];
        loop {
            skip(b, pos);
            if *pos >= b.len() {
                return Err("unclosed".into());
            }
            if b[*pos] == b')' {
                *pos += 1;
                return Ok(Sexp::L(items));
            }
            items.push(parse_value(b, pos)?);
        }
    }
    let st = *pos;
    while *pos < b.len() && !matches!(b[*pos], b' ' | b'(' | b')' | b'\r' | b'\n') {
        *pos += 1;
    }
    let a = std::str::from_utf8(&b[st..*pos]).map_err(|e| e.to_string())?;
    if a.is_empty() {
        return Err("empty atom".into());
    }
    let rest = &a[1..];
    match a.as_bytes()[0] {
        b'x' => Ok(Sexp::X(hex::decode(rest).map_err(|e| e.to_string())?)),
        b'n' => Ok(Sexp::N(rest.to_string())),
        b's' => Ok(Sexp::S(rest.to_string())),
        _ => Err(format!("bad atom {a}")),
    }
}
