//! C16 — every seal and wrap uses fresh randomness and fails closed when the RNG fails.
//! getrandom-based backends (v1..v4): the library's draws are served by the harness's custom getrandom
//! backend, so (1) the sizes and order of the requests are compared with the model's draw table, (2) a
//! failure is injected at EVERY draw index of every operation and of whole histories, (3) embedded nonces
//! are compared with the served bytes.  All backends: pairwise distinctness over long histories.
use crate::c05::{cheap_params, keys_for, paserk_bytes, pie_tag_len};
use crate::lab::{self, Backend, SealVia};
use crate::report::Report;
use crate::rng::{self, Mode, SplitMix64};
use crate::sexp::{self, Sexp};
use crate::tok::{self, M};
use crate::Ctx;
use serde_json::{json, Value};
use std::collections::HashSet;

const OPS: [&str; 7] = ["local-nonce", "local-key", "secret-key", "pie", "pbkw", "pke", "public-sign"];

fn backend_num(b: &Backend) -> u32 {
    match b.name { "v1" => 1, "v2" => 2, "v3" => 3, "v3-aws-lc" => 30, "v4" => 4, _ => 5 }
}

struct Fixture {
    key: Vec<u8>,
    /// a signing key of the backend
    sign_sk: Vec<u8>,
    pk: Vec<u8>,
    params: Vec<u8>,
}

/// run one operation; returns Ok(the output's text or key bytes in hex) / Err(kind)
fn run_one(b: &Backend, op: &str, fx: &Fixture) -> lab::R<String> {
    match op {
        "local-nonce" => (b.local_encrypt)(&fx.key, b"claims", b"", b"", SealVia::Seal),
        "local-key" => (b.local_random)().map(hex::encode),
        "secret-key" => (b.secret_random)().map(hex::encode),
        "pie" => (b.pie_wrap)("local", &fx.key, &fx.key),
        "pbkw" => (b.pw_wrap)("local", b"pw", Some(&fx.params), &fx.key),
        "public-sign" => (b.public_sign)(&fx.sign_sk, b"claims", b"", b"", SealVia::Seal),
        _ => (b.pke_seal)(&fx.pk, &fx.key),
    }
}

/// the random material embedded in an output (what must never repeat)
fn embedded(b: &Backend, op: &str, out: &str) -> Vec<Vec<u8>> {
    match op {
        "local-nonce" => lab::token_parts(out).map(|(p, _)| vec![p[..b.nonce_len.min(p.len())].to_vec()]).unwrap_or_default(),
        "local-key" | "secret-key" => vec![hex::decode(out).unwrap_or_default()],
        "pie" => {
            let d = paserk_bytes(out).unwrap_or_default();
            let t = pie_tag_len(b);
            vec![d[t.min(d.len())..(t + 32).min(d.len())].to_vec()]
        }
        "pbkw" => {
            let d = paserk_bytes(out).unwrap_or_default();
            if d.len() < b.pw_prefix_len { vec![] } else { vec![d[..b.pw_param_off].to_vec(), d[b.pw_param_off + b.pw_param_len..b.pw_prefix_len].to_vec()] }
        }
        // deterministic signature schemes legitimately repeat; nothing random is embedded in a readable field
        "public-sign" => vec![],
        _ => {
            let d = paserk_bytes(out).unwrap_or_default();
            // ephemeral public key (v3: 49 bytes after the 48-byte tag; v2/v4: 32 after 32) or the RSA ciphertext (v1)
            match b.ver {
                "v1" => vec![d[80.min(d.len())..].to_vec()],
                "v3" => vec![d[48.min(d.len())..97.min(d.len())].to_vec()],
                _ => vec![d[32.min(d.len())..64.min(d.len())].to_vec()],
            }
        }
    }
}

fn model_draws(m: &mut M, b: &Backend, opi: usize) -> Vec<usize> {
    m.eval(&sexp::op("op_draws", vec![sexp::n(backend_num(b)), sexp::n(opi)])).list().iter().map(|x| x.usize()).collect()
}

pub fn run(ctx: &Ctx) {
    let mut rep = Report::new("C16", &ctx.tier, ctx.seed);
    rep.rule = "operations: encrypt (V::nonce), LocalKey::random, SecretKey::random, wrap_pie, password_wrap, seal, sign. getrandom-based backends: requested block sizes and order vs the model's table; a failure injected at every draw index of every operation (error, nothing produced, next operation normal) and at every global call index of mixed histories (result shape vs the model's run_history); embedded nonce / salt fields equal to the served bytes. All six backends: histories of operations with the real randomness, embedded nonces / salts / ephemeral keys / generated keys pairwise distinct, also across 4 threads running concurrently; distinct = (backend, operation, draw index / history position)".into();
    let bs = lab::backends();
    let mut m = M::new(&ctx.model);
    let mut g = SplitMix64::new(ctx.seed ^ 0xC16);
    let thorough = ctx.thorough();
    let _replay: Option<Value> = ctx.replay.as_ref().and_then(|p| std::fs::read_to_string(p).ok()).and_then(|s| serde_json::from_str(&s).ok());
    for b in &bs {
        let keys = keys_for(b, &mut g);
        let fx = Fixture { key: g.bytes(32), sign_sk: tok::keypairs(b, &mut g, 0).first().map(|k| k.sk.clone()).unwrap_or_default(), pk: keys.recipients.first().map(|r| r.1.clone()).unwrap_or_default(), params: cheap_params(b, &mut g) };
        if b.scripted_rng {
            for (opi, op) in OPS.iter().enumerate() {
                if b.ver == "v1" && *op == "secret-key" {
                    continue; // RSA key generation draws through the rsa crate's own OsRng (not interceptable): partial
                }
                // (1) the draw trace
                rng::set_mode(Mode::Script { prng: SplitMix64::new(g.next()), fixed: None, fail_at: None });
                let out = run_one(b, op, &fx);
                let (calls, served) = rng::take_log();
                rep.evaluations += 1;
                let sizes: Vec<usize> = calls.iter().map(|c| c.0).collect();
                rep.model_evaluations += 1;
                let want = model_draws(&mut m, b, opi);
                let case = json!({"backend": b.name, "op": op, "what": "draws"});
                if sizes != want {
                    rep.disagreement(&format!("c16.{}.{op}.draws", b.name), format!("{} {op} requested {:?}, the model's table says {:?}", b.name, sizes, want), case.clone());
                }
                let out = match out {
                    Ok(o) => o,
                    Err(e) => {
                        rep.violation(&format!("c16.{}.{op}.failed", b.name), format!("{} {op} failed with a working RNG: {e}", b.name), case);
                        continue;
                    }
                };
                // (3) the embedded random fields are the served bytes (v1/v2 local tokens: a keyed function of them, see C03)
                let emb = embedded(b, op, &out);
                let direct = !((b.ver == "v1" || b.ver == "v2") && *op == "local-nonce") && *op != "pke" && *op != "secret-key" && *op != "public-sign";
                if direct {
                    let cat: Vec<u8> = emb.concat();
                    if cat != served {
                        rep.violation(&format!("c16.{}.{op}.nonce-not-draw", b.name), format!("{} {op}: the random field(s) of the output ({}) are not the bytes drawn ({})", b.name, hex::encode(&cat), hex::encode(&served)), case.clone());
                    }
                }
                if *op == "secret-key" && (b.ver == "v2" || b.ver == "v4") && hex::decode(&out).map(|k| k[..32] != served[..]).unwrap_or(true) {
                    rep.violation(&format!("c16.{}.{op}.nonce-not-draw", b.name), format!("{} generated secret key does not start with the drawn seed", b.name), case.clone());
                }
                // (2) failure at every draw index
                for k in 0..sizes.len() {
                    rep.evaluations += 1;
                    rng::set_mode(Mode::Script { prng: SplitMix64::new(g.next()), fixed: None, fail_at: Some(k) });
                    let r = run_one(b, op, &fx);
                    let (calls2, _) = rng::take_log();
                    let fcase = json!({"backend": b.name, "op": op, "what": format!("fail at draw {k}")});
                    match &r {
                        Err(e) if e == "CryptoError" => rep.nontrivial(format!("{}|{op}|fail@{k}", b.name)),
                        Ok(o) => rep.violation(&format!("c16.{}.{op}.not-fail-closed", b.name), format!("{} {op} produced an output although the random source failed at draw {k}: {}", b.name, &o[..o.len().min(80)]), fcase.clone()),
                        Err(e) => rep.violation(&format!("c16.{}.{op}.fail-error", b.name), format!("{} {op}: RNG failure at draw {k} reported as {e}", b.name), fcase.clone()),
                    }
                    if calls2.len() != k + 1 {
                        rep.disagreement(&format!("c16.{}.{op}.calls-after-failure", b.name), format!("{} {op}: {} calls made although draw {k} failed (model: {})", b.name, calls2.len(), k + 1), fcase.clone());
                    }
                    // ... and when the source stays dead from draw k on
                    rep.evaluations += 1;
                    rng::set_mode(Mode::FailFrom { prng: SplitMix64::new(g.next()), from: k });
                    let r = run_one(b, op, &fx);
                    let (calls3, _) = rng::take_log();
                    let dcase = json!({"backend": b.name, "op": op, "what": format!("fail from draw {k} on")});
                    match &r {
                        Err(e) if e == "CryptoError" => rep.nontrivial(format!("{}|{op}|dead@{k}", b.name)),
                        Ok(o) => rep.violation(&format!("c16.{}.{op}.not-fail-closed", b.name), format!("{} {op} produced an output although the random source failed from draw {k} on: {}", b.name, &o[..o.len().min(80)]), dcase.clone()),
                        Err(e) => rep.violation(&format!("c16.{}.{op}.fail-error", b.name), format!("{} {op}: RNG failure from draw {k} on reported as {e}", b.name), dcase.clone()),
                    }
                    if calls3.len() != k + 1 {
                        rep.disagreement(&format!("c16.{}.{op}.calls-after-failure", b.name), format!("{} {op}: {} calls made although the source was dead from draw {k} (model: {})", b.name, calls3.len(), k + 1), dcase);
                    }
                    // the next operation behaves normally
                    rng::set_mode(Mode::Os);
                    if run_one(b, op, &fx).is_err() {
                        rep.violation(&format!("c16.{}.{op}.stuck-after-failure", b.name), format!("{} {op} keeps failing after a transient RNG failure", b.name), fcase);
                    }
                    let _ = rng::take_log();
                }
            }
            // key generation by rejection (paseto-v3): blocks that are not a valid scalar (zero, >= the group order) are
            // skipped, the first valid block IS the key, a failure of the source inside the loop is returned
            if b.name == "v3" {
                let valid = {
                    let mut v = g.bytes(48);
                    v[0] = 0x01;
                    v
                };
                for (what, bad) in [("all-ff", vec![vec![0xffu8; 48]]), ("zero", vec![vec![0u8; 48]]), ("three invalid blocks", vec![vec![0xffu8; 48], vec![0u8; 48], vec![0xffu8; 48]])] {
                    rep.evaluations += 1;
                    let mut data: Vec<u8> = bad.concat();
                    data.extend_from_slice(&valid);
                    rng::set_mode(Mode::Exact { data, pos: 0 });
                    let r = (b.secret_random)();
                    let (calls, _) = rng::take_log();
                    let case = json!({"backend": b.name, "op": "secret-key", "what": format!("rejection: {what}")});
                    match &r {
                        Ok(k) if *k == valid && calls.len() == bad.len() + 1 && calls.iter().all(|c| *c == (48, true)) => rep.nontrivial(format!("v3|secret-key|rejection|{}", bad.len())),
                        other => rep.violation("c16.v3.secret-key.rejection", format!("v3 SecretKey::random() with {what} served first: {:?} after {} draws; the model returns the first valid block after {} draws", other.as_ref().map(hex::encode), calls.len(), bad.len() + 1), case.clone()),
                    }
                    // the source dies inside the loop: the error, no key
                    rep.evaluations += 1;
                    rng::set_mode(Mode::Exact { data: bad.concat(), pos: 0 });
                    let r = (b.secret_random)();
                    let _ = rng::take_log();
                    if !matches!(&r, Err(e) if e == "CryptoError") {
                        rep.violation("c16.v3.secret-key.not-fail-closed", format!("v3 SecretKey::random() returned {:?} although the source failed after {} invalid block(s)", r.as_ref().map(hex::encode), bad.len()), case);
                    }
                }
                rng::set_mode(Mode::Os);
            }
            // histories of mixed operations with a failure at every global call index: shape vs the model
            let hist: Vec<usize> = (0..(if thorough { 40 } else { 12 })).map(|_| g.below(7) as usize).filter(|o| !(b.ver == "v1" && *o == 2)).collect();
            let sizes: Vec<Vec<usize>> = hist.iter().map(|&o| model_draws(&mut m, b, o)).collect();
            let total: usize = sizes.iter().map(|s| s.len()).sum();
            for fail in (0..total).map(Some).chain(std::iter::once(None)) {
                rep.model_evaluations += 1;
                let ops_s = Sexp::L(sizes.iter().map(|s| Sexp::L(s.iter().map(|x| sexp::n(*x)).collect())).collect());
                let shape = m.eval(&sexp::op("history_shape", vec![match fail { Some(k) => sexp::n(k), None => sexp::s("none") }, ops_s]));
                let want: Vec<bool> = shape.list().iter().map(|p| p.list()[0].is_sym("true")).collect();
                rng::set_mode(Mode::Script { prng: SplitMix64::new(g.next()), fixed: None, fail_at: fail });
                let got: Vec<bool> = hist.iter().map(|&o| run_one(b, OPS[o], &fx).is_ok()).collect();
                let (calls, _) = rng::take_log();
                rep.evaluations += 1;
                let want_calls = shape.list().last().map(|p| p.list()[1].usize()).unwrap_or(0);
                if got != want || calls.len() != want_calls {
                    rep.disagreement(&format!("c16.{}.history", b.name), format!("{} history {:?} with failure at call {:?}: results {:?} ({} calls), model {:?} ({} calls)", b.name, hist, fail, got, calls.len(), want, want_calls), json!({"backend": b.name, "op": "history", "what": format!("{:?} fail {:?}", hist, fail)}));
                }
                if fail.is_some() && got.iter().filter(|x| !**x).count() != 1 {
                    rep.violation(&format!("c16.{}.history-failures", b.name), format!("{}: one injected RNG failure made {} operations of the history fail", b.name, got.iter().filter(|x| !**x).count()), json!({"backend": b.name, "op": "history", "what": format!("{:?} fail {:?}", hist, fail)}));
                }
                rep.nontrivial(format!("{}|history|{:?}", b.name, fail));
            }
        }
        // (4) distinctness with the real randomness, every backend
        rng::set_mode(Mode::Os);
        let n = if thorough { 100_000 } else { 1500 };
        let mut seen: HashSet<Vec<u8>> = HashSet::new();
        let mut repeats = 0u64;
        for i in 0..n {
            let opi = if b.ver == "v1" { [0usize, 1, 3, 4][i % 4] } else { i % 6 };
            let op = OPS[opi];
            // v1 PKE (RSA-4096) and PBKW are slow: thinned out
            if (op == "pke" && b.ver == "v1") || (op == "pbkw" && i % 24 != 4) {
                continue;
            }
            rep.evaluations += 1;
            if let Ok(out) = run_one(b, op, &fx) {
                for e in embedded(b, op, &out) {
                    if !e.is_empty() && !seen.insert(e.clone()) {
                        repeats += 1;
                        rep.violation(&format!("c16.{}.{op}.repeat", b.name), format!("{} {op}: the random field {} occurred twice within {} operations", b.name, hex::encode(&e), i + 1), json!({"backend": b.name, "op": op, "what": "repeat"}));
                    }
                }
            }
        }
        // the same across threads: a per-thread generator (thread-local counter or state) whose threads all start from
        // the same point gives every thread the same sequence — invisible in any single-thread history
        {
            let per = if thorough { 2000 } else { 150 };
            let ops: Vec<&str> = if b.ver == "v1" { vec!["local-nonce", "local-key", "pie"] } else { vec!["local-nonce", "local-key", "secret-key", "pie", "pke"] };
            let results: Vec<Vec<(String, Vec<u8>)>> = std::thread::scope(|sc| {
                let hs: Vec<_> = (0..4)
                    .map(|_| {
                        let (ops, fx) = (&ops, &fx);
                        sc.spawn(move || {
                            let mut v = vec![];
                            for i in 0..per {
                                let op = ops[i % ops.len()];
                                if let Ok(out) = run_one(b, op, fx) {
                                    for e in embedded(b, op, &out) {
                                        if !e.is_empty() {
                                            v.push((op.to_string(), e));
                                        }
                                    }
                                }
                            }
                            v
                        })
                    })
                    .collect();
                hs.into_iter().map(|h| h.join().unwrap_or_default()).collect()
            });
            let mut cross = 0u64;
            for (t, v) in results.iter().enumerate() {
                for (op, e) in v {
                    rep.evaluations += 1;
                    if !seen.insert(e.clone()) {
                        cross += 1;
                        if cross <= 3 {
                            rep.violation(&format!("c16.{}.{op}.repeat-across-threads", b.name), format!("{} {op}: the random field {} drawn on thread {t} had already occurred (on another thread or earlier) — 4 threads x {per} operations", b.name, hex::encode(e)), json!({"backend": b.name, "op": op, "what": "repeat across threads"}));
                        }
                    }
                }
            }
            rep.count_n(&format!("{}.repeats-across-threads", b.name), cross);
            rep.nontrivial(format!("{}|distinct-threads", b.name));
        }
        rep.count_n(&format!("{}.distinct-random-fields", b.name), seen.len() as u64);
        rep.count_n(&format!("{}.repeats", b.name), repeats);
        rep.nontrivial(format!("{}|distinct|{}", b.name, seen.len()));
        if rep.samples.len() < 6 {
            rep.sample(json!({"backend": b.name, "history_ops": n, "distinct_random_fields": seen.len()}));
        }
    }
    rng::set_mode(Mode::Os);
    rep.model_prim_calls = m.prim_calls();
    rep.finish(ctx.out.as_deref());
}
