//! The primitive oracle: answers the extracted model's `CALL (name args...)` requests with the named
//! standard function, computed with the RustCrypto crates directly (never through paseto-rs).
//! Mirrors coq/theories/Oracle.v: every argument and result is a byte string.
use crate::sexp::Sexp;
use digest::{Digest, FixedOutput, KeyInit, Mac, Update};
use std::collections::HashMap;

/// Oracle.v `nenc`: 4 bytes big-endian when the number fits, wider otherwise (never truncated here)
fn be_u32(b: &[u8]) -> u32 {
    let mut v: u64 = 0;
    for x in b {
        if v >> 56 != 0 {
            left_domain("number", "wider than 64 bits");
            return u32::MAX;
        }
        v = (v << 8) | *x as u64;
    }
    if v > u32::MAX as u64 {
        left_domain("number", "does not fit 32 bits");
        return u32::MAX;
    }
    v as u32
}

fn left_domain(name: &str, why: &str) {
    let mut l = crate::report::LEFT_DOMAIN.lock().unwrap_or_else(|e| e.into_inner());
    if l.len() < 20 {
        l.push(format!("{name}: {why}"));
    }
}

const T: &[u8] = &[1];
const F: &[u8] = &[0];

fn blake2b(outlen: usize, key: &[u8], msg: &[u8]) -> Vec<u8> {
    if key.len() > 64 {
        left_domain("blake2b", "key longer than 64 bytes");
        return vec![0u8; outlen.min(1 << 20)];
    }
    use blake2::digest::consts::{U16, U24, U32, U33, U48, U56, U64};
    macro_rules! go {
        ($n:ty) => {{
            if key.is_empty() {
                let mut h = blake2::Blake2b::<$n>::default();
                Update::update(&mut h, msg);
                h.finalize_fixed().to_vec()
            } else {
                let mut h = <blake2::Blake2bMac<$n> as KeyInit>::new_from_slice(key).expect("blake2b key");
                Mac::update(&mut h, msg);
                h.finalize().into_bytes().to_vec()
            }
        }};
    }
    match outlen {
        16 => go!(U16),
        24 => go!(U24),
        32 => go!(U32),
        33 => go!(U33),
        48 => go!(U48),
        56 => go!(U56),
        64 => go!(U64),
        n => {
            left_domain("blake2b", &format!("output length {n}"));
            vec![0u8; n.min(1 << 20)]
        }
    }
}

pub fn ed_expanded_scalar(seed: &[u8; 32]) -> curve25519_dalek::Scalar {
    ed25519_dalek::hazmat::ExpandedSecretKey::from(seed).scalar
}

fn clamp_scalar(r: &[u8]) -> Option<curve25519_dalek::Scalar> {
    let r: [u8; 32] = r.try_into().ok()?;
    Some(curve25519_dalek::Scalar::from_bytes_mod_order(curve25519_dalek::scalar::clamp_integer(r)))
}

pub struct RsaCache {
    sk: HashMap<Vec<u8>, rsa::RsaPrivateKey>,
    pk: HashMap<Vec<u8>, rsa::RsaPublicKey>,
}

impl RsaCache {
    pub fn new() -> Self {
        RsaCache { sk: HashMap::new(), pk: HashMap::new() }
    }
    fn sk(&mut self, der: &[u8]) -> Option<rsa::RsaPrivateKey> {
        use rsa::pkcs1::DecodeRsaPrivateKey;
        if let Some(k) = self.sk.get(der) {
            return Some(k.clone());
        }
        let k = rsa::RsaPrivateKey::from_pkcs1_der(der).ok()?;
        self.sk.insert(der.to_vec(), k.clone());
        Some(k)
    }
    fn pk(&mut self, der: &[u8]) -> Option<rsa::RsaPublicKey> {
        use rsa::pkcs8::spki::DecodePublicKey;
        if let Some(k) = self.pk.get(der) {
            return Some(k.clone());
        }
        let k = rsa::RsaPublicKey::from_public_key_der(der).ok()?;
        self.pk.insert(der.to_vec(), k.clone());
        Some(k)
    }
}

/// Answer one oracle call.  `args` are the byte-string arguments; the result is the list of results.
pub fn oracle(cache: &mut RsaCache, name: &str, a: &[Vec<u8>]) -> Vec<Vec<u8>> {
    match name {
        "sha384" => vec![sha2::Sha384::digest(&a[0]).to_vec()],
        "hmac384" => {
            let mut m = <hmac::Hmac<sha2::Sha384> as KeyInit>::new_from_slice(&a[0]).unwrap();
            Mac::update(&mut m, &a[1]);
            vec![m.finalize().into_bytes().to_vec()]
        }
        "hkdf384" => {
            let salt = if a[0].is_empty() { None } else { Some(&a[0][..]) };
            let n = be_u32(&a[3]) as usize;
            if n > 255 * 48 {
                left_domain("hkdf384", "output longer than 255*48");
                return vec![vec![0u8; n.min(1 << 20)]];
            }
            let mut out = vec![0u8; n];
            hkdf::Hkdf::<sha2::Sha384>::new(salt, &a[1]).expand(&a[2], &mut out).expect("hkdf length");
            vec![out]
        }
        "blake2b" => vec![blake2b(be_u32(&a[0]) as usize, &a[1], &a[2])],
        "pbkdf2_384" => {
            let mut out = vec![0u8; be_u32(&a[3]) as usize];
            // iteration count 0 is not a PBKDF2 parameter; answered like 1 (RFC 8018 requires c >= 1)
            pbkdf2::pbkdf2_hmac::<sha2::Sha384>(&a[0], &a[1], be_u32(&a[2]).max(1), &mut out);
            vec![out]
        }
        "argon2id" => {
            let params = match argon2::ParamsBuilder::new().m_cost(be_u32(&a[2])).t_cost(be_u32(&a[3])).p_cost(be_u32(&a[4])).build() {
                Ok(p) => p,
                Err(_) => return vec![],
            };
            let mut out = vec![0u8; be_u32(&a[5]) as usize];
            match argon2::Argon2::new(argon2::Algorithm::Argon2id, argon2::Version::V0x13, params).hash_password_into(&a[0], &a[1], &mut out) {
                Ok(()) => vec![out],
                Err(_) => vec![],
            }
        }
        "aes256" => {
            use aes::cipher::{BlockEncrypt, KeyInit as _};
            if a[0].len() != 32 || a[1].len() != 16 {
                left_domain("aes256", "key / block length");
                return vec![vec![0u8; 16]];
            }
            let c = aes::Aes256::new_from_slice(&a[0]).unwrap();
            let mut b = aes::Block::clone_from_slice(&a[1]);
            c.encrypt_block(&mut b);
            vec![b.to_vec()]
        }
        "xchacha20" => {
            use chacha20::cipher::{KeyIvInit, StreamCipher};
            if a[0].len() != 32 || a[1].len() != 24 {
                left_domain("xchacha20", "key / nonce length");
                return vec![vec![0u8; (be_u32(&a[2]) as usize).min(1 << 20)]];
            }
            let mut out = vec![0u8; be_u32(&a[2]) as usize];
            chacha20::XChaCha20::new_from_slices(&a[0], &a[1]).unwrap().apply_keystream(&mut out);
            vec![out]
        }
        "xcp_seal" => {
            use chacha20poly1305::aead::AeadInPlace;
            use chacha20poly1305::KeyInit as _;
            if a[0].len() != 32 || a[1].len() != 24 {
                left_domain("xcp_seal", "key / nonce length");
                return vec![a[3].clone(), vec![0u8; 16]];
            }
            let c = chacha20poly1305::XChaCha20Poly1305::new_from_slice(&a[0]).unwrap();
            let mut buf = a[3].clone();
            let tag = c.encrypt_in_place_detached(chacha20poly1305::XNonce::from_slice(&a[1]), &a[2], &mut buf).unwrap();
            vec![buf, tag.to_vec()]
        }
        "xcp_open" => {
            use chacha20poly1305::aead::AeadInPlace;
            use chacha20poly1305::KeyInit as _;
            if a[0].len() != 32 || a[1].len() != 24 || a[4].len() != 16 {
                return vec![];
            }
            let c = chacha20poly1305::XChaCha20Poly1305::new_from_slice(&a[0]).unwrap();
            let mut buf = a[3].clone();
            match c.decrypt_in_place_detached(chacha20poly1305::XNonce::from_slice(&a[1]), &a[2], &mut buf, chacha20poly1305::Tag::from_slice(&a[4])) {
                Ok(()) => vec![buf],
                Err(_) => vec![],
            }
        }
        "ed_pk" => match <[u8; 32]>::try_from(&a[0][..]) {
            Ok(seed) => vec![ed25519_dalek::SigningKey::from_bytes(&seed).verifying_key().to_bytes().to_vec()],
            Err(_) => {
                left_domain("ed_pk", "seed length");
                vec![vec![0u8; 32]]
            }
        },
        "ed_pk_ok" => match <[u8; 32]>::try_from(&a[0][..]) {
            Ok(pk) => vec![if ed25519_dalek::VerifyingKey::from_bytes(&pk).is_ok() { T } else { F }.to_vec()],
            Err(_) => vec![F.to_vec()],
        },
        "ed_sign" => match <[u8; 32]>::try_from(&a[0][..]) {
            Ok(seed) => {
                use ed25519_dalek::Signer;
                vec![ed25519_dalek::SigningKey::from_bytes(&seed).sign(&a[1]).to_bytes().to_vec()]
            }
            Err(_) => {
                left_domain("ed_sign", "seed length");
                vec![vec![0u8; 64]]
            }
        },
        "ed_verify" | "ed_verify_strict" => {
            let ok = (|| {
                let pk = ed25519_dalek::VerifyingKey::from_bytes(&<[u8; 32]>::try_from(&a[0][..]).ok()?).ok()?;
                let sig = ed25519_dalek::Signature::from_bytes(&<[u8; 64]>::try_from(&a[2][..]).ok()?);
                if name == "ed_verify" {
                    use ed25519_dalek::Verifier;
                    pk.verify(&a[1], &sig).ok()
                } else {
                    pk.verify_strict(&a[1], &sig).ok()
                }
            })();
            vec![if ok.is_some() { T } else { F }.to_vec()]
        }
        "p384_pk" => match p384::SecretKey::from_slice(&a[0]) {
            Ok(sk) if a[0].len() == 48 => {
                use p384::elliptic_curve::sec1::ToEncodedPoint;
                vec![sk.public_key().to_encoded_point(true).as_bytes().to_vec()]
            }
            _ => vec![],
        },
        "p384_parse" => match p384::PublicKey::from_sec1_bytes(&a[0]) {
            Ok(pk) => {
                use p384::elliptic_curve::sec1::ToEncodedPoint;
                vec![pk.to_encoded_point(true).as_bytes().to_vec()]
            }
            Err(_) => vec![],
        },
        "ecdsa_sign" => {
            use p384::ecdsa::signature::Signer;
            match p384::ecdsa::SigningKey::from_slice(&a[0]) {
                Ok(sk) => {
                    let sig: p384::ecdsa::Signature = sk.sign(&a[1]);
                    let b = sig.to_bytes();
                    vec![b[..48].to_vec(), b[48..].to_vec()]
                }
                Err(_) => vec![],
            }
        }
        "ecdsa_verify" => {
            use p384::ecdsa::signature::Verifier;
            let ok = (|| {
                let pk = p384::ecdsa::VerifyingKey::from_sec1_bytes(&a[0]).ok()?;
                let mut rs = [0u8; 96];
                if a[2].len() != 48 || a[3].len() != 48 {
                    return None;
                }
                rs[..48].copy_from_slice(&a[2]);
                rs[48..].copy_from_slice(&a[3]);
                let sig = p384::ecdsa::Signature::from_slice(&rs).ok()?;
                pk.verify(&a[1], &sig).ok()
            })();
            vec![if ok.is_some() { T } else { F }.to_vec()]
        }
        "ecdh_p384" => {
            let r = (|| {
                let sk = p384::SecretKey::from_slice(&a[0]).ok()?;
                let pk = p384::PublicKey::from_sec1_bytes(&a[1]).ok()?;
                Some(p384::ecdh::diffie_hellman(sk.to_nonzero_scalar(), pk.as_affine()).raw_secret_bytes().to_vec())
            })();
            r.into_iter().collect()
        }
        "x_of_edpk" => {
            let r = (|| {
                let b: [u8; 32] = a[0][..].try_into().ok()?;
                Some(curve25519_dalek::edwards::CompressedEdwardsY(b).decompress()?.to_montgomery().to_bytes().to_vec())
            })();
            r.into_iter().collect()
        }
        "x_of_seed" => match <[u8; 32]>::try_from(&a[0][..]) {
            Ok(seed) => vec![curve25519_dalek::EdwardsPoint::mul_base(&ed_expanded_scalar(&seed)).to_montgomery().to_bytes().to_vec()],
            Err(_) => vec![vec![]],
        },
        "x_base" => match clamp_scalar(&a[0]) {
            Some(s) => vec![curve25519_dalek::EdwardsPoint::mul_base(&s).to_montgomery().to_bytes().to_vec()],
            None => vec![vec![]],
        },
        "x_mul" => match (clamp_scalar(&a[0]), <[u8; 32]>::try_from(&a[1][..])) {
            (Some(s), Ok(p)) => vec![(s * curve25519_dalek::MontgomeryPoint(p)).to_bytes().to_vec()],
            _ => vec![vec![]],
        },
        "x_mul_seed" => match (<[u8; 32]>::try_from(&a[0][..]), <[u8; 32]>::try_from(&a[1][..])) {
            (Ok(seed), Ok(p)) => vec![(ed_expanded_scalar(&seed) * curve25519_dalek::MontgomeryPoint(p)).to_bytes().to_vec()],
            _ => vec![vec![]],
        },
        "rsa_sk_parse" => {
            use rsa::pkcs1::{DecodeRsaPrivateKey, EncodeRsaPrivateKey};
            use rsa::traits::PublicKeyParts;
            let k = rsa::RsaPrivateKey::from_pkcs1_der(&a[0]).ok().or_else(|| {
                std::str::from_utf8(&a[0]).ok().and_then(|s| rsa::RsaPrivateKey::from_pkcs1_pem(s).ok())
            });
            match k {
                Some(k) => {
                    let der = k.to_pkcs1_der().unwrap().as_bytes().to_vec();
                    cache.sk.insert(der.clone(), k.clone());
                    vec![der, (k.n().bits() as u32).to_be_bytes().to_vec()]
                }
                None => vec![],
            }
        }
        "rsa_pk_parse" => {
            use rsa::pkcs8::spki::{DecodePublicKey, EncodePublicKey};
            use rsa::traits::PublicKeyParts;
            let k = rsa::RsaPublicKey::from_public_key_der(&a[0]).ok().or_else(|| {
                std::str::from_utf8(&a[0]).ok().and_then(|s| rsa::RsaPublicKey::from_public_key_pem(s).ok())
            });
            match k {
                Some(k) => {
                    let der = k.to_public_key_der().unwrap().into_vec();
                    cache.pk.insert(der.clone(), k.clone());
                    vec![der, (k.n().bits() as u32).to_be_bytes().to_vec()]
                }
                None => vec![],
            }
        }
        "rsa_pk" => {
            use rsa::pkcs8::spki::EncodePublicKey;
            match cache.sk(&a[0]) {
                Some(k) => vec![k.to_public_key().to_public_key_der().unwrap().into_vec()],
                None => vec![vec![]],
            }
        }
        "rsa_pss_sign" => {
            use rsa::signature::{RandomizedSigner, SignatureEncoding};
            match cache.sk(&a[0]) {
                Some(k) => {
                    let sk = rsa::pss::SigningKey::<sha2::Sha384>::new(k);
                    match sk.try_sign_with_rng(&mut rsa::rand_core::OsRng, &a[1]) {
                        Ok(s) => vec![s.to_vec()],
                        Err(_) => vec![],
                    }
                }
                None => vec![],
            }
        }
        "rsa_pss_verify" => {
            use rsa::signature::Verifier;
            let ok = (|| {
                let pk = rsa::pss::VerifyingKey::<sha2::Sha384>::new(cache.pk(&a[0])?);
                let sig = rsa::pss::Signature::try_from(&a[2][..]).ok()?;
                pk.verify(&a[1], &sig).ok()
            })();
            vec![if ok.is_some() { T } else { F }.to_vec()]
        }
        "rsa_enc" => match cache.pk(&a[0]) {
            // textbook RSA is a permutation of [0, n): a message not below the modulus has no image
            Some(pk) if rsa::BigUint::from_bytes_be(&a[1]) >= *rsa::traits::PublicKeyParts::n(&pk) => vec![],
            Some(pk) => match rsa::hazmat::rsa_encrypt(&pk, &rsa::BigUint::from_bytes_be(&a[1])) {
                Ok(c) => vec![c.to_bytes_be()],
                Err(_) => vec![],
            },
            None => vec![],
        },
        "rsa_dec" => match cache.sk(&a[0]) {
            Some(sk) => match rsa::hazmat::rsa_decrypt_and_check::<rsa::rand_core::OsRng>(&sk, None, &rsa::BigUint::from_bytes_be(&a[1])) {
                Ok(r) => vec![r.to_bytes_be()],
                Err(_) => vec![],
            },
            None => vec![],
        },
        other => panic!("unknown primitive {other}"),
    }
}

/// Adapter for `Model::eval`: S-expression arguments in, S-expression answer out, with a call log.
pub struct Server {
    /// when set, the 16-byte AES-CTR counter block derived by the KDF / hash calls below is replaced by
    /// this value in the ANSWER (the model-side twin of /repo's `verif_hooks::force_iv`)
    pub force_iv: Option<[u8; 16]>,
    pub cache: RsaCache,
    pub log: Vec<(String, Vec<Vec<u8>>, Vec<Vec<u8>>)>,
    pub keep_log: bool,
}

impl Server {
    pub fn new() -> Self {
        Server { force_iv: None, cache: RsaCache::new(), log: vec![], keep_log: false }
    }
    pub fn answer(&mut self, name: &str, args: &[Sexp]) -> Sexp {
        let a: Vec<Vec<u8>> = args.iter().map(|x| x.bytes().to_vec()).collect();
        let mut r = oracle(&mut self.cache, name, &a);
        if let Some(iv) = self.force_iv {
            let derived_iv_site = match name {
                "hkdf384" => a[2].starts_with(b"paseto-encryption-key") && a[0].is_empty(),
                "hmac384" => a[1].first() == Some(&0x80) || a[1].starts_with(b"\x01k1.seal."),
                "sha384" => a[0].starts_with(b"\x01k3.seal."),
                _ => false,
            };
            if derived_iv_site && r.len() == 1 && r[0].len() == 48 {
                r[0][32..48].copy_from_slice(&iv);
            }
        }
        if self.keep_log {
            self.log.push((name.to_string(), a, r.clone()));
        }
        Sexp::L(r.into_iter().map(Sexp::X).collect())
    }
}
