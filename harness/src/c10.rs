//! C10 — cross product: every text parser (19 kinds x 6 backends; header strings written out from the specification, not taken from the library) is offered valid serialisations of
//! every kind; it may accept only strings carrying exactly its own full prefix.
use crate::c09::ref_encode;
use crate::impls::{self, Family};
use crate::model::Model;
use crate::report::Report;
use crate::rng::SplitMix64;
use crate::sexp;
use crate::Ctx;
use serde_json::json;

pub fn run(ctx: &Ctx) {
    let mut rep = Report::new("C10", &ctx.tier, ctx.seed);
    rep.rule = "for every ordered pair (producer kind, parser kind) over 19 text kinds x 6 backends (114 x 114; the header strings are the specification's, written out in the harness), several valid serialisations of the producer (data lengths 0, 32, 33, 49, 64, 96 and random; tokens with and without footer) are offered to the parser; acceptance is allowed only when the two full prefixes are the same string (sibling backends, PKE keys serialised as ordinary keys) and the footer type admits the footer. v1 RSA keys of 2048 / 4096 bits and of ten near-miss sizes offered as each of the four k1 key kinds; non-trivial = producer and parser differ; distinct = distinct (producer, parser, data-length class)".into();
    let types = impls::text_types();
    let mut model = Model::spawn(&ctx.model);
    let mut g = SplitMix64::new(ctx.seed ^ 0xC10);
    let replay_filter: Option<(String, String, String, String)> = ctx.replay.as_ref().map(|p| {
        let v: serde_json::Value = serde_json::from_str(&std::fs::read_to_string(p).unwrap()).unwrap();
        let r = &v["replay"];
        (r["parser_backend"].as_str().unwrap().into(), r["parser_kind"].as_str().unwrap().into(), String::from_utf8(hex::decode(r["input_hex"].as_str().unwrap()).unwrap()).unwrap(), String::new())
    });
    let lens: Vec<usize> = if ctx.thorough() { vec![0, 1, 31, 32, 33, 48, 49, 64, 96, 97, 130] } else { vec![0, 32, 33, 49, 64] };
    let mut n = 0u64;
    for (pi, prod) in types.iter().enumerate() {
        // valid serialisations of the producer
        let mut strings: Vec<(String, bool, usize)> = vec![]; // (text, has non-empty footer, data len)
        for &len in &lens {
            let len = if prod.family == Family::KeyId { 33 } else { len };
            let data = g.bytes(len);
            let base = format!("{}{}{}", prod.ver, prod.hdr, ref_encode(&data));
            match prod.family {
                Family::TokenVec => {
                    strings.push((base.clone(), false, len));
                    strings.push((format!("{base}.{}", ref_encode(&g.bytes(5))), true, len));
                }
                _ => strings.push((base, false, len)),
            }
            if prod.family == Family::KeyId {
                break;
            }
        }
        if let Some((_, _, s, _)) = &replay_filter {
            strings = vec![(s.clone(), s.matches('.').count() > 2, 0)];
            if pi > 0 {
                break;
            }
        }
        for (s, has_footer, dlen) in &strings {
            // sanity: the producer's own parser accepts it (otherwise the cross product is vacuous)
            if replay_filter.is_none() {
                let own = (prod.probe)(s);
                if own.res.is_err() && !(prod.family == Family::TokenUnit && *has_footer) {
                    rep.violation("cross.own-parser-rejects", format!("{} {} rejects its own valid serialisation {:?}", prod.backend, prod.kind, s), json!({"op":"cross","parser_backend":prod.backend,"parser_kind":prod.kind,"input_hex":hex::encode(s)}));
                }
            }
            for (qi, pars) in types.iter().enumerate() {
                if let Some((b, k, _, _)) = &replay_filter {
                    if pars.backend != b || pars.kind != k {
                        continue;
                    }
                }
                n += 1;
                rep.evaluations += 1;
                let io = (pars.probe)(s);
                let same_prefix = format!("{}{}", prod.ver, prod.hdr) == format!("{}{}", pars.ver, pars.hdr);
                let fam_ok = match (prod.family, pars.family) {
                    (Family::Paserk, Family::Paserk) | (Family::KeyId, Family::KeyId) => true,
                    (Family::TokenVec | Family::TokenUnit, Family::TokenVec) => true,
                    (Family::TokenVec | Family::TokenUnit, Family::TokenUnit) => !*has_footer,
                    _ => false,
                };
                let may_accept = same_prefix && fam_ok;
                let replay = json!({"op":"cross","producer":format!("{} {}", prod.backend, prod.kind),"parser_backend":pars.backend,"parser_kind":pars.kind,"input_hex":hex::encode(s)});
                rep.count(if may_accept { "same-kind" } else { "other-kind" });
                if pi != qi {
                    rep.nontrivial(format!("{}>{}:{}|{}", pi, qi, dlen, has_footer));
                }
                match (&io.res, may_accept) {
                    (Ok(_), false) => rep.violation("cross.accepted-as-other-kind", format!("a valid {} {} string {:?} is accepted by the {} {} parser", prod.backend, prod.kind, s, pars.backend, pars.kind), replay.clone()),
                    (Err(e), true) => rep.violation("cross.same-kind-rejected", format!("{} {} rejects ({e}) {:?} produced for the same kind by {} {}", pars.backend, pars.kind, s, prod.backend, prod.kind), replay.clone()),
                    (Err(e), false) if e == "panic" => rep.violation("cross.panic", format!("{} {} panicked on {:?}", pars.backend, pars.kind, s), replay.clone()),
                    _ => {}
                }
                // model: same verdict and same error kind (sampled: the model is pure and fast, but 10^5 pipes add up)
                if ctx.thorough() || n % 4 == 0 || ctx.replay.is_some() {
                    let mc = match pars.family {
                        Family::Paserk => sexp::op("parse_paserk", vec![sexp::x(pars.ver.as_bytes()), sexp::x(pars.hdr.as_bytes()), sexp::x(s.as_bytes())]),
                        Family::KeyId => sexp::op("parse_keyid", vec![sexp::x(pars.ver.as_bytes()), sexp::x(pars.hdr.as_bytes()), sexp::x(s.as_bytes())]),
                        Family::TokenVec => sexp::op("parse_token", vec![sexp::s("vec"), sexp::x(pars.ver.as_bytes()), sexp::x(b""), sexp::x(pars.hdr.as_bytes()), sexp::x(s.as_bytes())]),
                        Family::TokenUnit => sexp::op("parse_token", vec![sexp::s("unit"), sexp::x(pars.ver.as_bytes()), sexp::x(b""), sexp::x(pars.hdr.as_bytes()), sexp::x(s.as_bytes())]),
                    };
                    let mr = model.eval_pure(&mc);
                    rep.model_evaluations += 1;
                    let mi = mr.list();
                    let m_ok = mi[0].is_sym("ok");
                    let m_err = if m_ok { String::new() } else if mi[0].is_sym("err") { mi[1].sym().to_string() } else { "panic".into() };
                    let i_err = io.res.as_ref().err().cloned().unwrap_or_default();
                    if m_ok != io.res.is_ok() || m_err != i_err {
                        rep.disagreement("cross.model-vs-impl", format!("{} {} on {:?}: impl {:?}, model {}", pars.backend, pars.kind, s, io.res, mr.to_text()), replay.clone());
                    }
                }
                if n % 9973 == 0 {
                    rep.sample(json!({"producer":format!("{} {}", prod.backend, prod.kind),"parser":format!("{} {}", pars.backend, pars.kind),"input":s,"result":format!("{:?}", io.res)}));
                }
            }
        }
    }
    // ---- key-length clause: bytes whose length is not exactly that of the requested kind are rejected
    if replay_filter.is_none() {
        let bs = crate::lab::backends();
        let lens: [usize; 18] = [0, 1, 16, 31, 32, 33, 47, 48, 49, 50, 63, 64, 65, 95, 96, 97, 98, 128];
        for b in &bs {
            // material: valid keys of every kind of this backend (so that the first bytes of a longer input are a valid key)
            let kps = crate::tok::keypairs(b, &mut g, 1);
            let mut material: Vec<Vec<u8>> = vec![g.bytes(128), vec![0u8; 128]];
            for kp in kps.iter().take(2) {
                for part in [&kp.sk, &kp.pk] {
                    let mut v = part.clone();
                    v.extend_from_slice(&g.bytes(128));
                    material.push(v);
                }
            }
            if b.ver == "v3" {
                // the same point in SEC1 uncompressed (97 bytes) and hybrid form: k3.public is the 49-byte compressed form only
                use p384::elliptic_curve::sec1::ToEncodedPoint;
                if let Some(pk) = kps.first().and_then(|kp| p384::PublicKey::from_sec1_bytes(&kp.pk).ok()) {
                    let mut unc = pk.to_encoded_point(false).as_bytes().to_vec();
                    unc.extend_from_slice(&[0u8; 40]);
                    material.push(unc);
                }
            }
            for kind in ["local", "public", "secret", "pke-public", "pke-secret"] {
                let legal: Vec<usize> = match (b.ver, kind) {
                    (_, "local") => vec![32],
                    ("v1", _) => continue, // RSA keys are DER / PEM documents, not fixed-length strings (C08)
                    ("v3", "public" | "pke-public") => vec![49],
                    ("v3", _) => vec![48],
                    (_, "public" | "pke-public") => vec![32],
                    _ => vec![64],
                };
                for &len in &lens {
                    if legal.contains(&len) {
                        continue;
                    }
                    for mat in &material {
                        rep.evaluations += 1;
                        let bytes = &mat[..len];
                        match (b.key_roundtrip)(kind, bytes) {
                            Ok(k) => rep.violation("length.accepted", format!("{} accepts a {len}-byte string as a {kind} key (returned a {}-byte key)", b.name, k.len()),
                                                   json!({"op": "key-length", "parser_backend": b.name, "parser_kind": kind, "input_hex": hex::encode(bytes)})),
                            Err(e) if e == "panic" => rep.violation("length.panic", format!("{} panics on a {len}-byte string offered as a {kind} key", b.name), json!({"op": "key-length", "parser_backend": b.name, "parser_kind": kind, "input_hex": hex::encode(bytes)})),
                            Err(_) => {}
                        }
                        rep.nontrivial(format!("len|{}|{kind}|{len}", b.name));
                    }
                }
            }
        }
    }
    // ---- v1: the token-signing kinds and the key-sealing (PKE) kinds share the headers k1.public. / k1.secret. and
    //      differ only in the modulus size (2048 / 4096 bits): a key of one kind is never accepted as the other,
    //      nor is a modulus of any other size accepted as either
    if replay_filter.is_none() {
        use rsa::pkcs1::DecodeRsaPrivateKey;
        use rsa::pkcs8::spki::EncodePublicKey;
        let bs = crate::lab::backends();
        if let Some(b) = bs.iter().find(|b| b.name == "v1") {
            let mut keys: Vec<(usize, Vec<u8>)> = vec![];
            for bits in [2048usize, 4096] {
                for der in crate::tok::corpus_rsa_keys(bits) {
                    keys.push((bits, der));
                }
            }
            for bits in [1024usize, 2040, 2047, 2049, 2050, 2056, 3072, 4088, 4094, 4095] {
                for der in crate::tok::corpus_rsa_keys_named(bits, "x") {
                    keys.push((bits, der));
                }
            }
            for (bits, der) in &keys {
                let pub_der = match rsa::RsaPrivateKey::from_pkcs1_der(der).ok().and_then(|k| k.to_public_key().to_public_key_der().ok()) {
                    Some(p) => p.into_vec(),
                    None => continue,
                };
                for (kind, want_bits, bytes) in [("secret", 2048usize, der), ("public", 2048, &pub_der), ("pke-secret", 4096, der), ("pke-public", 4096, &pub_der)] {
                    rep.evaluations += 1;
                    let r = (b.key_roundtrip)(kind, bytes);
                    let case = json!({"op": "key-length", "parser_backend": "v1", "parser_kind": kind, "input_hex": hex::encode(bytes)});
                    match (&r, *bits == want_bits) {
                        (Ok(_), false) => rep.violation("kind.accepted", format!("v1 accepts an RSA key with a {bits}-bit modulus as a {kind} key (that kind has {want_bits}-bit moduli)"), case),
                        (Err(e), _) if e == "panic" => rep.violation("length.panic", format!("v1 panics on a {bits}-bit RSA key offered as a {kind} key"), case),
                        (Err(e), true) => rep.violation("kind.rejected", format!("v1 rejects a {bits}-bit RSA key as a {kind} key: {e}"), case),
                        _ => {}
                    }
                    rep.nontrivial(format!("v1kind|{kind}|{bits}"));
                }
            }
        }
    }
    // ---- header-rewrite clause: an authenticated blob relabelled to another version or kind fails to unwrap
    if replay_filter.is_none() {
        let bs = crate::lab::backends();
        let kname = |b: &crate::lab::Backend| match b.ver { "v1" => "k1", "v2" => "k2", "v3" => "k3", _ => "k4" };
        let n_blobs = if ctx.thorough() { 64 } else { 16 };
        for b in &bs {
            let keys = crate::c05::keys_for(b, &mut g);
            for (kind, key, _) in keys.wrappable.iter().filter(|k| k.1.len() <= 64).take(2) {
                for i in 0..n_blobs {
                    let wk = g.bytes(32);
                    let pass = b"pw".to_vec();
                    let pie = (b.pie_wrap)(kind, &wk, key).ok();
                    let pw = if i < 4 { let p = crate::c05::cheap_params(b, &mut g); (b.pw_wrap)(kind, &pass, Some(&p), key).ok() } else { None };
                    for ob in &bs {
                        for okind in ["local", "secret"] {
                            if ob.ver == b.ver && okind == *kind {
                                continue;
                            }
                            for (op, text, secret) in [("pie", &pie, &wk), ("pbkw", &pw, &pass)] {
                                let text = match text { Some(t) => t, None => continue };
                                let data = &text[text.rfind('.').unwrap() + 1..];
                                let relabelled = if op == "pie" { format!("{}.{okind}-wrap.pie.{data}", kname(ob)) } else { format!("{}.{okind}-pw.{data}", kname(ob)) };
                                // PBKW parameter layouts differ between the families: only within a family (cost stays the cheap one)
                                if op == "pbkw" && ob.pw_param_len != b.pw_param_len {
                                    continue;
                                }
                                rep.evaluations += 1;
                                let r = if op == "pie" { (ob.pie_unwrap)(okind, secret, &relabelled) } else { (ob.pw_unwrap)(okind, secret, &relabelled) };
                                if let Ok(k) = r {
                                    rep.violation("relabel.accepted", format!("a {} {kind} {op} blob relabelled as {} {okind} unwraps on {} (returned a {}-byte key)", b.name, kname(ob), ob.name, k.len()),
                                                  json!({"op": "relabel", "parser_backend": ob.name, "parser_kind": format!("{op}.{okind}"), "input_hex": hex::encode(&relabelled), "secret": hex::encode(secret)}));
                                }
                                rep.nontrivial(format!("relabel|{}|{op}|{kind}>{}|{okind}", b.name, ob.name));
                            }
                        }
                    }
                }
            }
        }
    }
    rep.exhaustive = true;
    rep.notes.push("exhaustive over the (producer kind, parser kind) pairs; sampled over data".into());
    rep.finish(ctx.out.as_deref());
}
