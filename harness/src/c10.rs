//! C10 — cross product: every text parser (17 kinds x 6 backends) is offered valid serialisations of
//! every kind; it may accept only strings carrying exactly its own full prefix.
use crate::c09::ref_encode;
use crate::impls::{self, Family};
use crate::model::Model;
use crate::report::Report;
use crate::rng::SplitMix64;
use crate::sexp;
use crate::Ctx;
use serde_json::json;

pub fn run(ctx: &Ctx) {
    let mut rep = Report::new("C10", &ctx.tier, ctx.seed);
    rep.rule = "for every ordered pair (producer kind, parser kind) over 17 text kinds x 6 backends (102 x 102), several valid serialisations of the producer (data lengths 0, 32, 33, 49, 64, 96 and random; tokens with and without footer) are offered to the parser; acceptance is allowed only when the two full prefixes are the same string (sibling backends, PKE keys serialised as ordinary keys) and the footer type admits the footer. non-trivial = producer and parser differ; distinct = distinct (producer, parser, data-length class)".into();
    let types = impls::text_types();
    let mut model = Model::spawn(&ctx.model);
    let mut g = SplitMix64::new(ctx.seed ^ 0xC10);
    let replay_filter: Option<(String, String, String, String)> = ctx.replay.as_ref().map(|p| {
        let v: serde_json::Value = serde_json::from_str(&std::fs::read_to_string(p).unwrap()).unwrap();
        let r = &v["replay"];
        (r["parser_backend"].as_str().unwrap().into(), r["parser_kind"].as_str().unwrap().into(), String::from_utf8(hex::decode(r["input_hex"].as_str().unwrap()).unwrap()).unwrap(), String::new())
    });
    let lens: Vec<usize> = if ctx.thorough() { vec![0, 1, 31, 32, 33, 48, 49, 64, 96, 97, 130] } else { vec![0, 32, 33, 49, 64] };
    let mut n = 0u64;
    for (pi, prod) in types.iter().enumerate() {
        // valid serialisations of the producer
        let mut strings: Vec<(String, bool, usize)> = vec![]; // (text, has non-empty footer, data len)
        for &len in &lens {
            let len = if prod.family == Family::KeyId { 33 } else { len };
            let data = g.bytes(len);
            let base = format!("{}{}{}", prod.ver, prod.hdr, ref_encode(&data));
            match prod.family {
                Family::TokenVec => {
                    strings.push((base.clone(), false, len));
                    strings.push((format!("{base}.{}", ref_encode(&g.bytes(5))), true, len));
                }
                _ => strings.push((base, false, len)),
            }
            if prod.family == Family::KeyId {
                break;
            }
        }
        if let Some((_, _, s, _)) = &replay_filter {
            strings = vec![(s.clone(), s.matches('.').count() > 2, 0)];
            if pi > 0 {
                break;
            }
        }
        for (s, has_footer, dlen) in &strings {
            // sanity: the producer's own parser accepts it (otherwise the cross product is vacuous)
            if replay_filter.is_none() {
                let own = (prod.probe)(s);
                if own.res.is_err() && !(prod.family == Family::TokenUnit && *has_footer) {
                    rep.violation("cross.own-parser-rejects", format!("{} {} rejects its own valid serialisation {:?}", prod.backend, prod.kind, s), json!({"op":"cross","parser_backend":prod.backend,"parser_kind":prod.kind,"input_hex":hex::encode(s)}));
                }
            }
            for (qi, pars) in types.iter().enumerate() {
                if let Some((b, k, _, _)) = &replay_filter {
                    if pars.backend != b || pars.kind != k {
                        continue;
                    }
                }
                n += 1;
                rep.evaluations += 1;
                let io = (pars.probe)(s);
                let same_prefix = format!("{}{}", prod.ver, prod.hdr) == format!("{}{}", pars.ver, pars.hdr);
                let fam_ok = match (prod.family, pars.family) {
                    (Family::Paserk, Family::Paserk) | (Family::KeyId, Family::KeyId) => true,
                    (Family::TokenVec | Family::TokenUnit, Family::TokenVec) => true,
                    (Family::TokenVec | Family::TokenUnit, Family::TokenUnit) => !*has_footer,
                    _ => false,
                };
                let may_accept = same_prefix && fam_ok;
                let replay = json!({"op":"cross","producer":format!("{} {}", prod.backend, prod.kind),"parser_backend":pars.backend,"parser_kind":pars.kind,"input_hex":hex::encode(s)});
                rep.count(if may_accept { "same-kind" } else { "other-kind" });
                if pi != qi {
                    rep.nontrivial(format!("{}>{}:{}|{}", pi, qi, dlen, has_footer));
                }
                match (&io.res, may_accept) {
                    (Ok(_), false) => rep.violation("cross.accepted-as-other-kind", format!("a valid {} {} string {:?} is accepted by the {} {} parser", prod.backend, prod.kind, s, pars.backend, pars.kind), replay.clone()),
                    (Err(e), true) => rep.violation("cross.same-kind-rejected", format!("{} {} rejects ({e}) {:?} produced for the same kind by {} {}", pars.backend, pars.kind, s, prod.backend, prod.kind), replay.clone()),
                    (Err(e), false) if e == "panic" => rep.violation("cross.panic", format!("{} {} panicked on {:?}", pars.backend, pars.kind, s), replay.clone()),
                    _ => {}
                }
                // model: same verdict and same error kind (sampled: the model is pure and fast, but 10^5 pipes add up)
                if ctx.thorough() || n % 4 == 0 || ctx.replay.is_some() {
                    let mc = match pars.family {
                        Family::Paserk => sexp::op("parse_paserk", vec![sexp::x(pars.ver.as_bytes()), sexp::x(pars.hdr.as_bytes()), sexp::x(s.as_bytes())]),
                        Family::KeyId => sexp::op("parse_keyid", vec![sexp::x(pars.ver.as_bytes()), sexp::x(pars.hdr.as_bytes()), sexp::x(s.as_bytes())]),
                        Family::TokenVec => sexp::op("parse_token", vec![sexp::s("vec"), sexp::x(pars.ver.as_bytes()), sexp::x(b""), sexp::x(pars.hdr.as_bytes()), sexp::x(s.as_bytes())]),
                        Family::TokenUnit => sexp::op("parse_token", vec![sexp::s("unit"), sexp::x(pars.ver.as_bytes()), sexp::x(b""), sexp::x(pars.hdr.as_bytes()), sexp::x(s.as_bytes())]),
                    };
                    let mr = model.eval_pure(&mc);
                    rep.model_evaluations += 1;
                    let mi = mr.list();
                    let m_ok = mi[0].is_sym("ok");
                    let m_err = if m_ok { String::new() } else if mi[0].is_sym("err") { mi[1].sym().to_string() } else { "panic".into() };
                    let i_err = io.res.as_ref().err().cloned().unwrap_or_default();
                    if m_ok != io.res.is_ok() || m_err != i_err {
                        rep.disagreement("cross.model-vs-impl", format!("{} {} on {:?}: impl {:?}, model {}", pars.backend, pars.kind, s, io.res, mr.to_text()), replay.clone());
                    }
                }
                if n % 9973 == 0 {
                    rep.sample(json!({"producer":format!("{} {}", prod.backend, prod.kind),"parser":format!("{} {}", pars.backend, pars.kind),"input":s,"result":format!("{:?}", io.res)}));
                }
            }
        }
    }
    rep.exhaustive = true;
    rep.notes.push("exhaustive over the (producer kind, parser kind) pairs; sampled over data".into());
    rep.finish(ctx.out.as_deref());
}
