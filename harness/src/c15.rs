//! C15 — PAE: implementation (paseto_core::pae::pre_auth_encode) vs extracted model vs closed form.
use crate::model::Model;
use crate::report::Report;
use crate::rng::SplitMix64;
use crate::sexp::{self, Sexp};
use crate::Ctx;
use paseto_core::pae::{pre_auth_encode, WriteBytes};
use serde_json::json;
use std::collections::HashMap;

type Piece = Vec<Vec<u8>>;

struct Recorder(Vec<Vec<u8>>);
impl WriteBytes for Recorder {
    fn write(&mut self, slice: &[u8]) {
        self.0.push(slice.to_vec());
    }
}

/// run the real pre_auth_encode::<N> for N = pieces.len() (0..=8), into a Vec and into a recorder
fn impl_pae(pieces: &[Piece]) -> (Vec<u8>, Vec<Vec<u8>>) {
    let frag_refs: Vec<Vec<&[u8]>> = pieces.iter().map(|p| p.iter().map(|f| &f[..]).collect()).collect();
    let piece_refs: Vec<&[&[u8]]> = frag_refs.iter().map(|p| &p[..]).collect();
    macro_rules! go {
        ($($n:literal),*) => {
            match piece_refs.len() {
                $($n => {
                    let arr: [&[&[u8]]; $n] = piece_refs.clone().try_into().unwrap();
                    let mut v = Vec::new();
                    pre_auth_encode(arr, &mut v);
                    let mut r = Recorder(vec![]);
                    pre_auth_encode(arr, &mut r);
                    (v, r.0)
                })*
                _ => unreachable!("piece count > 8"),
            }
        };
    }
    go!(0, 1, 2, 3, 4, 5, 6, 7, 8)
}

/// the statement's closed form, written directly
fn closed_form(pieces: &[Piece]) -> Vec<u8> {
    let mut o = (pieces.len() as u64).to_le_bytes().to_vec();
    for p in pieces {
        let whole: Vec<u8> = p.concat();
        o.extend_from_slice(&(whole.len() as u64).to_le_bytes());
        o.extend_from_slice(&whole);
    }
    o
}

fn case_sexp(pieces: &[Piece]) -> Sexp {
    sexp::op(
        "pae",
        vec![sexp::l(pieces.iter().map(|p| sexp::l(p.iter().map(|f| sexp::x(f)).collect())).collect())],
    )
}

fn gen_content(g: &mut SplitMix64, len: usize) -> Vec<u8> {
    match g.below(4) {
        0 => vec![0u8; len],
        1 => vec![0xffu8; len],
        _ => g.bytes(len),
    }
}

fn gen_case(g: &mut SplitMix64) -> Vec<Piece> {
    const LENS: [usize; 9] = [0, 1, 7, 8, 9, 255, 256, 257, 600];
    let n = g.below(9) as usize;
    (0..n)
        .map(|_| {
            let nf = g.below(5) as usize;
            (0..nf)
                .map(|_| {
                    let len = if g.chance(2, 3) { *g.pick(&LENS) } else { g.below(601) as usize };
                    gen_content(g, len)
                })
                .collect()
        })
        .collect()
}

fn class_of(pieces: &[Piece]) -> String {
    let mut s = format!("N{}", pieces.len());
    for p in pieces {
        s.push_str(&format!("/{}:", p.len()));
        for f in p {
            s.push_str(match f.len() {
                0 => "e",
                1..=7 => "s",
                8 => "8",
                9..=255 => "m",
                256 => "B",
                _ => "l",
            });
        }
    }
    s
}

pub fn run(ctx: &Ctx) {
    let mut rep = Report::new("C15", &ctx.tier, ctx.seed);
    rep.rule = "cases: piece count 0..8 x 0..4 fragments x fragment lengths {0,1,7,8,9,255,256,257,600} or uniform 0..600 x contents random/zero/ff, plus the exhaustive enumeration of all shapes with <=3 pieces, <=2 fragments, lengths {0,1,2}; a case is non-trivial when at least one fragment is non-empty; distinct = distinct (piece count, fragment counts, length classes) shape".into();
    let mut model = Model::spawn(&ctx.model);
    let mut g = SplitMix64::new(ctx.seed ^ 0xC15);
    let mut cases: Vec<Vec<Piece>> = vec![];

    // replay of a recorded case
    if let Some(path) = &ctx.replay {
        let v: serde_json::Value = serde_json::from_str(&std::fs::read_to_string(path).expect("replay file")).expect("json");
        let pcs: Vec<Piece> = v["replay"]["pieces"]
            .as_array()
            .expect("pieces")
            .iter()
            .map(|p| p.as_array().unwrap().iter().map(|f| hex::decode(f.as_str().unwrap()).unwrap()).collect())
            .collect();
        cases.push(pcs);
    } else {
        // exhaustive small shapes
        let lens = [0usize, 1, 2];
        let mut frag_opts: Vec<Piece> = vec![vec![]];
        for a in lens {
            frag_opts.push(vec![vec![0xa0; a]]);
            for b in lens {
                frag_opts.push(vec![vec![0xa1; a], vec![0xb1; b]]);
            }
        }
        for n in 0..=3usize {
            let mut idx = vec![0usize; n];
            loop {
                cases.push(idx.iter().map(|&i| frag_opts[i].clone()).collect());
                let mut k = 0;
                while k < n {
                    idx[k] += 1;
                    if idx[k] < frag_opts.len() {
                        break;
                    }
                    idx[k] = 0;
                    k += 1;
                }
                if k == n {
                    break;
                }
            }
        }
        rep.count_n("exhaustive-small-shapes", cases.len() as u64);
        // deterministic length sweeps: single piece, and the token-shaped call (3-fragment header, message, footer, assertion)
        let before = cases.len();
        for len in 0..=600usize {
            cases.push(vec![vec![vec![0x5a; len]]]);
            cases.push(vec![vec![b"v4".to_vec(), vec![], b".local.".to_vec()], vec![vec![0x11; 32]], vec![vec![0x22; len]], vec![b"foot".to_vec()], vec![vec![]]]);
            cases.push(vec![vec![b"v3".to_vec(), vec![], vec![0x33; len % 61]], vec![vec![0x44; len / 3], vec![0x55; len - len / 3]]]);
        }
        rep.count_n("length-sweep-0..600", (cases.len() - before) as u64);
        let nrand = if ctx.thorough() { 200_000 } else { 8_000 };
        for _ in 0..nrand {
            cases.push(gen_case(&mut g));
        }
    }

    let mut seen: HashMap<Vec<u8>, Vec<Vec<u8>>> = HashMap::new();
    for (i, pieces) in cases.iter().enumerate() {
        rep.evaluations += 1;
        rep.count(&format!("pieces={}", pieces.len()));
        let total: usize = pieces.iter().map(|p| p.iter().map(|f| f.len()).sum::<usize>()).sum();
        rep.count(match total {
            0 => "total-bytes=0",
            1..=63 => "total-bytes=1..63",
            64..=1023 => "total-bytes=64..1023",
            _ => "total-bytes>=1024",
        });
        if total > 0 {
            rep.nontrivial(class_of(pieces));
        }
        let replay = json!({"op":"pae","pieces": pieces.iter().map(|p| p.iter().map(hex::encode).collect::<Vec<_>>()).collect::<Vec<_>>()});
        let (iv, iw) = match std::panic::catch_unwind(|| impl_pae(pieces)) {
            Ok(r) => r,
            Err(_) => {
                rep.violation("pae.panic", "pre_auth_encode panicked".into(), replay);
                continue;
            }
        };
        // P(I): closed form, streaming == buffer
        let cf = closed_form(pieces);
        if iv != cf {
            rep.violation("pae.closed-form", format!("pre_auth_encode output differs from the specification's closed form (got {} bytes, want {})", iv.len(), cf.len()), replay.clone());
        }
        if iw.concat() != iv {
            rep.violation("pae.streaming", "a streaming writer received different bytes than a Vec".into(), replay.clone());
        }
        // P(I): injectivity over the batch
        let canon: Vec<Vec<u8>> = pieces.iter().map(|p| p.concat()).collect();
        if let Some(prev) = seen.get(&iv) {
            if *prev != canon {
                rep.violation("pae.injective", "two different piece lists have the same encoding".into(), json!({"op":"pae","pieces": replay["pieces"], "other": prev.iter().map(hex::encode).collect::<Vec<_>>()}));
            }
        } else {
            seen.insert(iv.clone(), canon);
        }
        // M: every case in quick; all in thorough too (cheap)
        let mc = case_sexp(pieces);
        let mr = model.eval_pure(&mc);
        rep.model_evaluations += 1;
        let items = mr.list();
        let (mv, mw) = (items[0].bytes().to_vec(), items[1].list().iter().map(|w| w.bytes().to_vec()).collect::<Vec<_>>());
        if mv != iv || mw != iw {
            rep.disagreement("pae.model-vs-impl", format!("model and implementation differ (bytes equal: {}, writes equal: {})", mv == iv, mw == iw), replay.clone());
        }
        if i % 977 == 0 {
            rep.sample(json!({"pieces": replay["pieces"], "encoding": hex::encode(&iv)}));
        }
        if i % 131 == 0 && rep.kernel_cases.len() < 60 && total < 200 {
            let gp = crate::gallina::glist(pieces.iter().map(|p| crate::gallina::gbl(p)).collect());
            rep.kernel_cases.push((format!("(pae {gp}, pae_writes {gp})"), format!("({}, {})", crate::gallina::gb(&mv), crate::gallina::gbl(&mw))));
        }
    }
    rep.exhaustive = false;
    rep.finish(ctx.out.as_deref());
}
