//! pvh — the implementation side of the correspondence checks.
//!   pvh <property> [--tier quick|thorough] [--seed N] [--model PATH] [--out FILE] [--replay FILE]
#![allow(clippy::all)]
#![allow(dead_code)]
mod c01;
mod c02;
mod c03;
mod c04;
mod c05;
mod c06;
mod c07;
mod c08;
mod c09;
mod c10;
mod c11;
mod c12;
mod c13;
mod c15;
mod c16;
mod c17;
mod gallina;
mod impls;
mod lab;
mod model;
mod prims;
mod report;
mod rng;
mod sexp;
mod tok;

pub struct Ctx {
    pub tier: String,
    pub seed: u64,
    pub model: String,
    pub out: Option<String>,
    pub replay: Option<String>,
}

impl Ctx {
    pub fn thorough(&self) -> bool {
        self.tier == "thorough"
    }
}

fn main() {
    let args: Vec<String> = std::env::args().collect();
    if args.len() < 2 {
        eprintln!("usage: pvh <property> [--tier T] [--seed N] [--model PATH] [--out FILE] [--replay FILE]");
        std::process::exit(2);
    }
    let mut ctx = Ctx {
        tier: std::env::var("VERIF_TIER").unwrap_or_else(|_| "quick".into()),
        seed: std::env::var("VERIF_SEED").ok().and_then(|s| s.parse().ok()).unwrap_or(1),
        model: "/verif/ocaml/modelrun".into(),
        out: None,
        replay: None,
    };
    let mut i = 2;
    while i < args.len() {
        let v = args.get(i + 1).cloned();
        match args[i].as_str() {
            "--tier" => ctx.tier = v.expect("--tier"),
            "--seed" => ctx.seed = v.expect("--seed").parse().expect("seed"),
            "--model" => ctx.model = v.expect("--model"),
            "--out" => ctx.out = v,
            "--replay" => ctx.replay = v,
            other => panic!("unknown argument {other}"),
        }
        i += 2;
    }
    // a panic inside a case is caught by the case runner; keep the default hook quiet
    std::panic::set_hook(Box::new(|info| {
        if std::env::var("PVH_DEBUG").is_ok() {
            eprintln!("panic: {info}");
        }
    }));
    match args[1].to_ascii_lowercase().as_str() {
        "genkeys" => {
            // one-off: fixed RSA keys for the corpus (key generation is too slow to repeat on every run)
            let dir = concat!(env!("CARGO_MANIFEST_DIR"), "/../corpus/rsa");
            std::fs::create_dir_all(dir).unwrap();
            for (bits, n) in [(2048usize, 3usize), (4096, 2)] {
                for i in 0..n {
                    let p = format!("{dir}/rsa{bits}_{i}.der");
                    if !std::path::Path::new(&p).exists() {
                        std::fs::write(&p, tok::gen_rsa_der(bits)).unwrap();
                    }
                }
            }
            // near-miss moduli for C08 (file name = measured modulus bits); openssl made the even sizes and
            // rsa2048_3.der / rsa4096_2.der, which have the public exponent 3 (the rsa crate refuses > 4096 bits)
            for bits in [2049usize, 4095] {
                let p = format!("{dir}/rsa{bits}_x.der");
                while !std::path::Path::new(&p).exists() {
                    use rsa::pkcs1::DecodeRsaPrivateKey;
                    use rsa::traits::PublicKeyParts;
                    let der = tok::gen_rsa_der(bits);
                    if rsa::RsaPrivateKey::from_pkcs1_der(&der).unwrap().n().bits() == bits {
                        std::fs::write(&p, der).unwrap();
                    }
                }
            }
        }
        "c01" => c01::run(&ctx),
        "c02" => c02::run(&ctx),
        "c03" => c03::run(&ctx),
        "c04" => c04::run(&ctx),
        "c05" => c05::run(&ctx),
        "c06" => c06::run(&ctx),
        "c07" => c07::run(&ctx),
        "c08" => c08::run(&ctx),
        "c09" => c09::run(&ctx),
        "c10" => c10::run(&ctx),
        "c11" => c11::run(&ctx),
        "c12" => c12::run(&ctx),
        "c13" => c13::run(&ctx),
        "c15" => c15::run(&ctx),
        "c16" => c16::run(&ctx),
        "c17" => c17::run(&ctx),
        other => {
            eprintln!("unknown property {other}");
            std::process::exit(2);
        }
    }
}
