//! C04 — no input makes parsing, unsealing, unwrapping or key use panic.
//! Two input streams (structured mostly-valid mutations; malformed) through every FromStr of every backend and
//! then every operation the parsed value admits, each under catch_unwind.  P(I): no panic.  The model's
//! prediction (never Panic, same error kind) is compared on the backend-level operations.
use crate::c05::{cheap_params, keys_for};
use crate::impls;
use crate::lab::{self, Backend, SealVia};
use crate::report::Report;
use crate::rng::SplitMix64;
use crate::tok::{self, M};
use crate::Ctx;
use serde_json::{json, Value};

fn kver(b: &Backend) -> &'static str {
    match b.ver { "v1" => "k1", "v2" => "k2", "v3" => "k3", _ => "k4" }
}

/// PBKW blobs are in scope only within the stated cost budget (<= 64 MiB, <= 3 passes / <= 10000 iterations)
fn pbkw_in_budget(b: &Backend, s: &str) -> bool {
    if !s.contains("-pw.") {
        return true; // not a PBKW string: the parser refuses the header before any KDF runs
    }
    let data = match s.rsplit('.').next().and_then(lab::unb64) { Some(d) => d, None => return true };
    if data.len() < b.pw_prefix_len {
        return true;
    }
    let p = &data[b.pw_param_off..b.pw_param_off + b.pw_param_len];
    if p.len() == 4 {
        u32::from_be_bytes(p.try_into().unwrap()) <= 10_000
    } else {
        u64::from_be_bytes(p[..8].try_into().unwrap()) <= (64 << 20) && u32::from_be_bytes(p[8..12].try_into().unwrap()) <= 3 && u32::from_be_bytes(p[12..].try_into().unwrap()) <= 16
    }
}

struct Env {
    local_key: Vec<u8>,
    sk: Vec<u8>,
    pk: Vec<u8>,
    pke_sk: Vec<u8>,
    pke_pk: Vec<u8>,
}

fn panicked<T>(r: &lab::R<T>) -> bool {
    matches!(r, Err(e) if e == "panic")
}

/// every operation a string can reach on one backend; returns the names of the operations that panicked
fn exercise(b: &Backend, env: &Env, s: &str, rep: &mut Report) -> Vec<String> {
    let mut bad = vec![];
    macro_rules! chk {
        ($name:expr, $e:expr) => {{
            rep.evaluations += 1;
            let r = $e;
            if panicked(&r) {
                bad.push($name.to_string());
            }
            r
        }};
    }
    // keys: parse, then display / id / clone / use
    for kind in ["local", "public", "secret"] {
        if let Ok(bytes) = chk!(format!("Key::<{kind}>::from_str"), (b.key_parse)(kind, s)) {
            rep.count(&format!("parsed.key.{kind}"));
            chk!(format!("{kind} key to_string"), (b.key_text)(kind, &bytes));
            chk!(format!("{kind} key id"), (b.key_id)(kind, &bytes));
            chk!(format!("{kind} key clone"), (b.key_clone)(kind, &bytes));
            let a: &[u8] = if b.aad { b"a" } else { b"" };
            match kind {
                "secret" => {
                    chk!("public_key()", (b.public_of_secret)(&bytes));
                    chk!("sign with parsed key", (b.public_sign)(&bytes, b"m", b"", a, SealVia::Seal));
                    chk!("unseal with parsed PKE secret", (b.pke_unseal)(&bytes, &format!("{}.seal.{}", kver(b), lab::b64(&vec![7u8; 96]))));
                    chk!("wrap parsed secret key", (b.pie_wrap)("secret", &env.local_key, &bytes));
                }
                "public" => {
                    chk!("seal to parsed key", (b.pke_seal)(&bytes, &env.local_key));
                    chk!("verify with parsed key", (b.public_verify)(&bytes, &format!("{}.public.{}", b.ver, lab::b64(&vec![1u8; 300])), a, false));
                }
                _ => {
                    chk!("encrypt with parsed key", (b.local_encrypt)(&bytes, b"m", b"", a, SealVia::Seal));
                    chk!("wrap with parsed key", (b.pie_wrap)("local", &bytes, &env.local_key));
                }
            }
        }
    }
    // tokens
    let a: &[u8] = if b.aad { b"assertion" } else { b"" };
    if chk!("decrypt", (b.local_decrypt)(&env.local_key, s, a, false)).is_ok() {
        rep.count("accepted.local-token");
    }
    chk!("decrypt (no aad)", (b.local_decrypt)(&env.local_key, s, b"", true));
    chk!("verify", (b.public_verify)(&env.pk, s, a, false));
    // wrapped / sealed keys
    for kind in ["local", "secret"] {
        chk!(format!("pie unwrap {kind}"), (b.pie_unwrap)(kind, &env.local_key, s));
        if pbkw_in_budget(b, s) {
            chk!(format!("pbkw unwrap {kind}"), (b.pw_unwrap)(kind, b"password", s));
        } else {
            rep.count("skipped.pbkw-over-budget");
        }
    }
    chk!("unseal key", (b.pke_unseal)(&env.pke_sk, s));
    let _ = &env.sk;
    let _ = &env.pke_pk;
    bad
}

fn mutate(g: &mut SplitMix64, s: &str, others: &[String]) -> String {
    let mut v = s.as_bytes().to_vec();
    match g.below(10) {
        0 => {
            // flip a bit in the decoded last segment
            if let Some(pos) = s.rfind('.') {
                if let Some(mut d) = lab::unb64(&s[pos + 1..]) {
                    if !d.is_empty() {
                        let i = g.below(d.len() as u64 * 8) as usize;
                        d[i / 8] ^= 1 << (i % 8);
                    }
                    return format!("{}{}", &s[..pos + 1], lab::b64(&d));
                }
            }
        }
        1 => {
            let n = g.below(v.len() as u64 + 1) as usize;
            v.truncate(n);
        }
        2 => {
            // truncate the decoded data
            if let Some(pos) = s.rfind('.') {
                if let Some(mut d) = lab::unb64(&s[pos + 1..]) {
                    let n = g.below(d.len() as u64 + 1) as usize;
                    d.truncate(n);
                    return format!("{}{}", &s[..pos + 1], lab::b64(&d));
                }
            }
        }
        3 => {
            // extend the decoded data
            if let Some(pos) = s.rfind('.') {
                if let Some(mut d) = lab::unb64(&s[pos + 1..]) {
                    let k = 1 + g.below(40) as usize;
                    d.extend(g.bytes(k));
                    return format!("{}{}", &s[..pos + 1], lab::b64(&d));
                }
            }
        }
        4 => {
            // header relabel: the data of this string under another string's header
            if let (Some(pos), Some(o)) = (s.rfind('.'), others.get(g.below(others.len() as u64) as usize)) {
                if let Some(op) = o.rfind('.') {
                    return format!("{}{}", &o[..op + 1], &s[pos + 1..]);
                }
            }
        }
        5 => {
            // swap two segments
            let mut parts: Vec<&str> = s.split('.').collect();
            if parts.len() >= 3 {
                let i = g.below(parts.len() as u64) as usize;
                let j = g.below(parts.len() as u64) as usize;
                parts.swap(i, j);
            }
            return parts.join(".");
        }
        6 => {
            // all-zero / all-ones data of the same length
            if let Some(pos) = s.rfind('.') {
                if let Some(d) = lab::unb64(&s[pos + 1..]) {
                    let fill = if g.chance(1, 2) { 0u8 } else { 0xff };
                    return format!("{}{}", &s[..pos + 1], lab::b64(&vec![fill; d.len()]));
                }
            }
        }
        7 => {
            if !v.is_empty() {
                let i = g.below(v.len() as u64) as usize;
                v[i] = *g.pick(b"ABCxyz019-_.=+/ \x00\x7f");
            }
        }
        8 => {
            v.push(b'.');
            v.extend_from_slice(lab::b64(&g.bytes(5)).as_bytes());
        }
        _ => {
            if !v.is_empty() {
                let i = g.below(v.len() as u64) as usize;
                v.remove(i);
            }
        }
    }
    String::from_utf8_lossy(&v).to_string()
}

/// at most n characters of s (never cuts inside a multi-byte character)
fn clip(s: &str, n: usize) -> String {
    s.chars().take(n).collect()
}

pub fn run(ctx: &Ctx) {
    let mut rep = Report::new("C04", &ctx.tier, ctx.seed);
    rep.rule = "stream (h): many honest seals / unseals / signatures per backend (value-dependent paths), the time validators at the ends of the time range with leeways up to 136 years; stream (a): valid serialisations of every text kind of every backend (tokens, keys, ids, PIE / PBKW / sealed keys) mutated by bit flips of the decoded data, truncation, extension, header relabel, segment swaps, zero / ones fill, character edits; stream (b): random strings over all bytes (valid UTF-8), and every header followed by random data of decoded length 0..700 (random / zero / ones). Every string goes through all 17 FromStr impls of all six backends (parse, Display, serde) and through Key::from_str + to_string / id / clone / public_key / sign / seal-to / encrypt / wrap, decrypt, verify, PIE and PBKW unwrap (cost budget <= 64 MiB, <= 3 passes, <= 10000 iterations), unseal-key, each under catch_unwind; distinct = (backend, stream, text kind, mutation)".into();
    let bs = lab::backends();
    let types = impls::text_types();
    let mut g = SplitMix64::new(ctx.seed ^ 0xC04);
    let mut m = M::new(&ctx.model);
    let thorough = ctx.thorough();
    // per-backend environment and corpus of valid strings
    let mut envs: Vec<Env> = vec![];
    let mut valid: Vec<Vec<String>> = vec![];
    for b in &bs {
        let keys = keys_for(b, &mut g);
        let kp = tok::keypairs(b, &mut g, 1);
        let (pke_sk, pke_pk) = keys.recipients.first().map(|r| (r.0.clone(), r.1.clone())).unwrap_or_default();
        let env = Env { local_key: g.bytes(32), sk: kp[0].sk.clone(), pk: kp[0].pk.clone(), pke_sk, pke_pk };
        let a: &[u8] = if b.aad { b"assertion" } else { b"" };
        let mut v: Vec<String> = vec![];
        let mut push = |r: lab::R<String>| {
            if let Ok(s) = r {
                v.push(s);
            }
        };
        push((b.local_encrypt)(&env.local_key, b"{\"sub\":\"x\"}", b"", a, SealVia::Seal));
        push((b.local_encrypt)(&env.local_key, b"", b"footer", a, SealVia::Seal));
        push((b.public_sign)(&env.sk, b"{\"sub\":\"x\"}", b"f", a, SealVia::Seal));
        for kind in ["local", "public", "secret"] {
            let bytes = match kind { "local" => env.local_key.clone(), "public" => env.pk.clone(), _ => env.sk.clone() };
            push((b.key_text)(kind, &bytes));
            push((b.key_id)(kind, &bytes));
        }
        for kind in ["local", "secret"] {
            let key = if kind == "local" { env.local_key.clone() } else { env.sk.clone() };
            push((b.pie_wrap)(kind, &env.local_key, &key));
            let p = cheap_params(b, &mut g);
            push((b.pw_wrap)(kind, b"password", Some(&p), &key));
        }
        push((b.pke_seal)(&env.pke_pk, &env.local_key));
        valid.push(v);
        envs.push(env);
    }
    let all_valid: Vec<String> = valid.iter().flatten().cloned().collect();
    let report_panic = |rep: &mut Report, b: &Backend, stream: &str, s: &str, ops: Vec<String>| {
        for op in ops {
            rep.violation(&format!("c04.{}.panic.{}", b.name, op.split(' ').next().unwrap_or("op")), format!("{} panicked in [{op}] on the {stream} input {:?}", b.name, clip(s, 120)), json!({"backend": b.name, "input": s, "op": op, "stream": stream}));
        }
    };
    if let Some(path) = &ctx.replay {
        let v: Value = serde_json::from_str(&std::fs::read_to_string(path).expect("replay file")).expect("json");
        let r = &v["replay"];
        let bi = bs.iter().position(|b| b.name == r["backend"].as_str().unwrap_or("")).expect("backend");
        let s = r["input"].as_str().unwrap_or("").to_string();
        let ops = exercise(&bs[bi], &envs[bi], &s, &mut rep);
        report_panic(&mut rep, &bs[bi], "replay", &s, ops);
        for t in types.iter().filter(|t| t.backend.ends_with(bs[bi].name)) {
            if (t.probe)(&s).res == Err("panic".to_string()) {
                rep.violation(&format!("c04.{}.panic.parse", bs[bi].name), format!("{} {} parser panicked", t.backend, t.kind), json!({"backend": bs[bi].name, "input": s, "op": "parse", "stream": "replay"}));
            }
        }
        rep.finish(ctx.out.as_deref());
        return;
    }
    // ---- stream (a): structured, mostly valid
    let per_string = if thorough { 400 } else { 40 };
    let mut inputs: Vec<(String, String)> = vec![];
    for (bi, _b) in bs.iter().enumerate() {
        for s in &valid[bi] {
            inputs.push((s.clone(), "valid".into()));
            for _ in 0..per_string {
                let mut x = mutate(&mut g, s, &all_valid);
                if g.chance(1, 4) {
                    x = mutate(&mut g, &x, &all_valid);
                }
                inputs.push((x, "mutated".into()));
            }
        }
    }
    // ---- stream (b): malformed
    let n_random = if thorough { 20_000 } else { 1_500 };
    for _ in 0..n_random {
        let len = g.below(80) as usize;
        let raw = g.bytes(len);
        inputs.push((String::from_utf8_lossy(&raw).to_string(), "random".into()));
    }
    let headers: Vec<String> = types.iter().map(|t| format!("{}{}", t.ver, t.hdr)).collect::<std::collections::BTreeSet<_>>().into_iter().collect();
    let lens: Vec<usize> = if thorough { (0..=700).collect() } else { vec![0, 1, 2, 15, 16, 31, 32, 33, 47, 48, 49, 63, 64, 65, 79, 80, 81, 95, 96, 97, 128, 129, 255, 256, 300, 511, 512, 592, 700] };
    for h in &headers {
        for &len in &lens {
            // PBKW headers: keep the parameter field cheap (zero / ones fills would ask for 2^32 iterations)
            let fills: Vec<Vec<u8>> = if h.contains("-pw.") { vec![g.bytes(len).iter().map(|x| x & 0x03).collect()] } else { vec![g.bytes(len), vec![0u8; len], vec![0xffu8; len]] };
            for d in fills {
                inputs.push((format!("{h}{}", lab::b64(&d)), "header+data".into()));
            }
        }
    }
    for (s, stream) in &inputs {
        rep.count(&format!("stream.{stream}"));
        // all FromStr impls of all backends (parse, Display, serde)
        for t in &types {
            rep.evaluations += 1;
            let o = (t.probe)(s);
            if o.res == Err("panic".to_string()) {
                rep.violation(&format!("c04.{}.panic.parse", t.backend), format!("{} {} FromStr / Display / serde panicked on {:?}", t.backend, t.kind, clip(s, 120)), json!({"backend": t.backend.trim_start_matches("paseto-"), "input": s, "op": "parse", "stream": stream}));
            } else if o.res.is_ok() {
                rep.nontrivial(format!("{}|{}|{}|parsed", t.backend, stream, t.kind));
            }
        }
        for (bi, b) in bs.iter().enumerate() {
            let ops = exercise(b, &envs[bi], s, &mut rep);
            report_panic(&mut rep, b, stream, s, ops);
            rep.nontrivial(format!("{}|{}", b.name, stream));
        }
        if rep.violations.len() >= 40 {
            break;
        }
    }
    // ---- honest operations whose outcome depends on a random VALUE (a ciphertext, shared secret or signature with a
    //      leading zero byte: 1 in 256): many of them, none may panic
    for (bi, b) in bs.iter().enumerate() {
        let env = &envs[bi];
        let n = if b.ver == "v1" { if ctx.thorough() { 4000 } else { 900 } } else if ctx.thorough() { 6000 } else { 1200 };
        for i in 0..n {
            rep.evaluations += 1;
            let key = g.bytes(32);
            let r = (b.pke_seal)(&env.pke_pk, &key);
            if r == Err("panic".to_string()) {
                rep.violation(&format!("c04.{}.panic.seal", b.name), format!("{} LocalKey::seal panicked on seal number {i} to a valid recipient key", b.name), json!({"backend": b.name, "input": hex::encode(&env.pke_pk), "op": "seal-many", "stream": "honest"}));
                break;
            }
            if b.ver != "v1" || i % 40 == 0 {
                if let Ok(w) = &r {
                    if (b.pke_unseal)(&env.pke_sk, w) == Err("panic".to_string()) {
                        rep.violation(&format!("c04.{}.panic.unseal-key", b.name), format!("{} SealedKey::unseal panicked on an honestly sealed key", b.name), json!({"backend": b.name, "input": w, "op": "unseal-many", "stream": "honest"}));
                        break;
                    }
                }
            }
            if b.ver != "v1" || i % 10 == 0 {
                let t = (b.public_sign)(&env.sk, &key, b"", b"", SealVia::Seal);
                if t == Err("panic".to_string()) || matches!(&t, Ok(t) if (b.public_verify)(&env.pk, t, b"", false).is_err_and(|e| e == "panic")) {
                    rep.violation(&format!("c04.{}.panic.sign", b.name), format!("{} sign / verify panicked on an honest message", b.name), json!({"backend": b.name, "input": hex::encode(&key), "op": "sign-many", "stream": "honest"}));
                    break;
                }
            }
        }
        rep.nontrivial(format!("{}|honest-many", b.name));
    }
    // ---- the built-in validators on authenticated claims at the ends of the time range: unsealing calls them, so a
    //      panic in `validate` is a panic of unseal (instants at Timestamp::MIN / MAX, leeways up to years)
    {
        use paseto_core::validation::Validate;
        use paseto_json::{RegisteredClaims, Time};
        let ends: Vec<jiff::Timestamp> = {
            let (mn, mx) = (jiff::Timestamp::MIN, jiff::Timestamp::MAX);
            let s = jiff::SignedDuration::from_secs(1);
            let mut v = vec![mn, mx, jiff::Timestamp::UNIX_EPOCH, jiff::Timestamp::from_second(1_700_000_000).unwrap()];
            v.push(mn.checked_add(s).unwrap());
            v.push(mx.checked_sub(s).unwrap());
            v.push(mx.checked_sub(jiff::SignedDuration::from_secs(59)).unwrap());
            v.push(mn.checked_add(jiff::SignedDuration::from_secs(59)).unwrap());
            v
        };
        let leeways = [std::time::Duration::ZERO, std::time::Duration::from_secs(1), std::time::Duration::from_secs(60), std::time::Duration::from_secs(86_400 * 366), std::time::Duration::from_secs(u32::MAX as u64)];
        // `now` and the leeway are the CALLER's parameters: `now - leeway` and `now + leeway` must be representable (jiff's
        // arithmetic panics otherwise; DESIGN §8 C11, "representable"); the claims are the token's and range over everything
        let margin = jiff::SignedDuration::from_secs(u32::MAX as i64 + 86_400);
        let nows = [jiff::Timestamp::UNIX_EPOCH, jiff::Timestamp::from_second(1_700_000_000).unwrap(), jiff::Timestamp::MIN.checked_add(margin).unwrap(), jiff::Timestamp::MAX.checked_sub(margin).unwrap()];
        for now in &nows {
            for exp in std::iter::once(None).chain(ends.iter().map(Some)) {
                for nbf in std::iter::once(None).chain(ends.iter().map(Some)) {
                    for lw in &leeways {
                        rep.evaluations += 1;
                        let (now, exp, nbf, lw) = (*now, exp.copied(), nbf.copied(), *lw);
                        let r = std::panic::catch_unwind(move || {
                            let mut c = RegisteredClaims::default();
                            c.exp = exp;
                            c.nbf = nbf;
                            let _ = Time::valid_at(now).validate(&c);
                            let _ = Time::valid_at(now).with_leeway(lw).validate(&c);
                        });
                        if r.is_err() {
                            rep.violation("c04.paseto-json.panic.validate", format!("the time validator panicked: now {now}, exp {exp:?}, nbf {nbf:?}, leeway {lw:?}"), json!({"backend": "paseto-json", "input": format!("{now} {exp:?} {nbf:?} {lw:?}"), "op": "validate", "stream": "time-ends"}));
                        }
                    }
                }
                if rep.violations.len() >= 40 {
                    break;
                }
            }
        }
        rep.nontrivial("paseto-json|validate|time-ends".into());
    }
    // ---- the model never predicts a panic for unseal on arbitrary payloads (and agrees on the error kind)
    for b in &bs {
        for &len in &[0usize, 1, 31, 32, 47, 48, 63, 64, 79, 80, 95, 96, 97, 255, 256, 300] {
            for purpose in ["local", "public"] {
                let payload = g.bytes(len);
                let key = if purpose == "local" { envs[0].local_key.clone() } else { tok::keypairs(b, &mut g, 0).first().map(|k| k.pk.clone()).unwrap_or_default() };
                if key.is_empty() {
                    continue;
                }
                let text = lab::token_string(b.ver, purpose, &payload, b"");
                let ir = if purpose == "local" { (b.local_decrypt)(&key, &text, b"", false) } else { (b.public_verify)(&key, &text, b"", false) };
                rep.model_evaluations += 1;
                let mr = if purpose == "local" { m.local_unseal(b.name, &key, b"", &payload, b"", b"") } else { m.public_unseal(b.name, &key, b"", &payload, b"", b"") };
                let same = match (&ir, &mr) { (Err(x), Err(y)) => x == y, (Ok(_), Ok(_)) => true, _ => false };
                if !same {
                    rep.disagreement(&format!("c04.{}.{purpose}.model", b.name), format!("{len}-byte payload: implementation {:?}, model {:?}", ir.as_ref().map(|x| x.0.len()), mr.as_ref().map(|x| x.len())), json!({"backend": b.name, "input": text, "op": "unseal", "stream": "model"}));
                }
            }
        }
    }
    if rep.samples.is_empty() {
        for (s, st) in inputs.iter().step_by(inputs.len() / 6 + 1) {
            rep.sample(json!({"stream": st, "input": s.chars().take(100).collect::<String>()}));
        }
    }
    rep.model_prim_calls = m.prim_calls();
    rep.finish(ctx.out.as_deref());
}
