//! C02 — unsealing accepts only the exact bytes, footer, assertion and key as sealed.
//! Fault enumeration on the implementation (every acceptance of a modified token is a violation), with
//! the extracted model evaluated on the same faulted tokens (result and error kind must agree).
use crate::lab::{self, Backend, SealVia};
use crate::report::Report;
use crate::rng::SplitMix64;
use crate::tok::{self, content, M};
use crate::Ctx;
use serde_json::{json, Value};

#[derive(Clone)]
pub struct Tok {
    pub purpose: &'static str,
    /// unsealing key bytes (local key / public key)
    pub key: Vec<u8>,
    pub payload: Vec<u8>,
    pub footer: Vec<u8>,
    pub aad: Vec<u8>,
    pub m: Vec<u8>,
}

#[derive(Clone)]
pub struct Fault {
    pub kind: &'static str,
    pub detail: String,
    pub backend: usize,
    pub purpose: &'static str,
    pub key: Vec<u8>,
    pub payload: Vec<u8>,
    pub footer: Vec<u8>,
    pub aad: Vec<u8>,
    /// Some(text): offered as this exact string instead of the re-encoded (payload, footer)
    pub text: Option<String>,
}

fn unseal(b: &Backend, purpose: &str, key: &[u8], tok: &str, aad: &[u8]) -> lab::R<(Vec<u8>, Vec<u8>)> {
    if purpose == "local" { (b.local_decrypt)(key, tok, aad, false) } else { (b.public_verify)(key, tok, aad, false) }
}

fn model_unseal(m: &mut M, b: &Backend, purpose: &str, key: &[u8], payload: &[u8], footer: &[u8], aad: &[u8]) -> lab::R<Vec<u8>> {
    if purpose == "local" { m.local_unseal(b.name, key, b"", payload, footer, aad) } else { m.public_unseal(b.name, key, b"", payload, footer, aad) }
}

pub fn fault_json(bs: &[Backend], f: &Fault) -> Value {
    json!({"backend": bs[f.backend].name, "purpose": f.purpose, "fault": f.kind, "detail": f.detail, "key": hex::encode(&f.key),
           "payload": hex::encode(&f.payload), "footer": hex::encode(&f.footer), "aad": hex::encode(&f.aad), "text": f.text})
}

/// all faults of one sealed token
pub fn faults(bs: &[Backend], bi: usize, t: &Tok, others: &[Vec<u8>], g: &mut SplitMix64, thorough: bool) -> Vec<Fault> {
    let b = &bs[bi];
    let mut out = vec![];
    let base = |kind: &'static str, detail: String| Fault { kind, detail, backend: bi, purpose: t.purpose, key: t.key.clone(), payload: t.payload.clone(), footer: t.footer.clone(), aad: t.aad.clone(), text: None };
    // 1. every single-bit flip of every payload byte and every footer byte
    for i in 0..t.payload.len() {
        for bit in 0..8 {
            let mut f = base("bitflip-payload", format!("byte {i} bit {bit}"));
            f.payload[i] ^= 1 << bit;
            out.push(f);
        }
    }
    for i in 0..t.footer.len() {
        for bit in 0..8 {
            let mut f = base("bitflip-footer", format!("byte {i} bit {bit}"));
            f.footer[i] ^= 1 << bit;
            out.push(f);
        }
    }
    // 2. every truncation (from the end), and dropping 1..3 leading bytes
    for len in 0..t.payload.len() {
        let mut f = base("truncate", format!("to {len} bytes"));
        f.payload.truncate(len);
        out.push(f);
    }
    for k in 1..=3.min(t.payload.len()) {
        let mut f = base("drop-front", format!("{k} bytes"));
        f.payload.drain(..k);
        out.push(f);
    }
    // 3. extension by 1..3 bytes at either end and at each internal boundary
    let tail = if t.purpose == "local" { b.local_tag_len } else { b.sig_len };
    let mut cuts = vec![0usize, t.payload.len()];
    if t.purpose == "local" {
        cuts.push(b.nonce_len.min(t.payload.len()));
    }
    cuts.push(t.payload.len().saturating_sub(tail));
    for &at in &cuts {
        for k in 1..=3 {
            for fill in [0u8, 0xff] {
                let mut f = base("extend", format!("{k} x {fill:02x} at {at}"));
                for _ in 0..k {
                    f.payload.insert(at, fill);
                }
                out.push(f);
            }
        }
    }
    // 4. boundary shifts 1..3 bytes: body <-> footer, footer <-> assertion
    let body_end = t.payload.len() - tail;
    let body_start = if t.purpose == "local" { b.nonce_len } else { 0 };
    for k in 1..=3usize {
        if t.footer.len() >= k {
            // first k footer bytes appended to the body
            let mut f = base("shift-footer-to-body", format!("{k}"));
            let moved: Vec<u8> = f.footer.drain(..k).collect();
            for (j, x) in moved.iter().enumerate() {
                f.payload.insert(body_end + j, *x);
            }
            out.push(f);
        }
        if body_end - body_start >= k {
            let mut f = base("shift-body-to-footer", format!("{k}"));
            let moved: Vec<u8> = f.payload.drain(body_end - k..body_end).collect();
            let mut nf = moved;
            nf.extend_from_slice(&f.footer);
            f.footer = nf;
            out.push(f);
        }
        if b.aad {
            if t.footer.len() >= k {
                let mut f = base("shift-footer-to-assertion", format!("{k}"));
                let cut = f.footer.len() - k;
                let moved: Vec<u8> = f.footer.drain(cut..).collect();
                let mut na = moved;
                na.extend_from_slice(&f.aad);
                f.aad = na;
                out.push(f);
            }
            if t.aad.len() >= k {
                let mut f = base("shift-assertion-to-footer", format!("{k}"));
                let moved: Vec<u8> = f.aad.drain(..k).collect();
                f.footer.extend_from_slice(&moved);
                out.push(f);
            }
        }
    }
    // 5. add / remove / alter footer and assertion
    if t.footer.is_empty() {
        let mut f = base("add-footer", "x".into());
        f.footer = vec![b'x'];
        out.push(f);
        let mut f = base("add-footer", "NUL".into());
        f.footer = vec![0];
        out.push(f);
    } else {
        let mut f = base("remove-footer", String::new());
        f.footer.clear();
        out.push(f);
        let mut f = base("append-footer", String::new());
        f.footer.push(0);
        out.push(f);
    }
    if t.aad.is_empty() {
        // for v1/v2 any non-empty assertion must be refused; for v3/v4 it is a different authenticated input
        for a in [vec![0u8], b"implicit".to_vec()] {
            let mut f = base("add-assertion", hex::encode(&a));
            f.aad = a;
            out.push(f);
        }
    } else {
        let mut f = base("remove-assertion", String::new());
        f.aad.clear();
        out.push(f);
        let mut f = base("alter-assertion", "last byte".into());
        *f.aad.last_mut().unwrap() ^= 1;
        out.push(f);
        let mut f = base("extend-assertion", String::new());
        f.aad.push(0);
        out.push(f);
    }
    // 6. header relabel at string level: the same segments under every other version / purpose whose
    //    key bytes are type-compatible (all local keys are 32 bytes; v2<->v4 and v3<->v3-aws-lc public keys)
    for (oi, ob) in bs.iter().enumerate() {
        for op in ["local", "public"] {
            if ob.ver == b.ver && op == t.purpose {
                continue;
            }
            let compatible = if op == "local" { t.key.len() == 32 } else { (t.key.len() == 32 && (ob.ver == "v2" || ob.ver == "v4")) || (t.key.len() == 49 && ob.ver == "v3") };
            if !compatible {
                continue;
            }
            let mut f = base("relabel", format!("{}.{} offered as {}.{} to {}", b.ver, t.purpose, ob.ver, op, ob.name));
            f.backend = oi;
            f.purpose = op;
            if !ob.aad {
                f.aad.clear();
            }
            out.push(f);
        }
    }
    // 7. other keys
    for (j, k) in others.iter().enumerate() {
        if *k != t.key {
            let mut f = base("other-key", format!("#{j}"));
            f.key = k.clone();
            out.push(f);
        }
    }
    if t.purpose == "local" {
        let nflips = if thorough { 256 } else { 24 };
        for _ in 0..nflips {
            let i = g.below(32 * 8) as usize;
            let mut f = base("key-bitflip", format!("bit {i}"));
            f.key[i / 8] ^= 1 << (i % 8);
            out.push(f);
        }
    }
    // 8. text-level: single-character substitutions in the base64 segments
    let text = lab::token_string(b.ver, t.purpose, &t.payload, &t.footer);
    let hdr_len = b.ver.len() + 1 + t.purpose.len() + 1;
    let n_subst = if thorough { 400 } else { 40 };
    for _ in 0..n_subst {
        let pos = hdr_len + g.below((text.len() - hdr_len) as u64) as usize;
        let old = text.as_bytes()[pos];
        if old == b'.' {
            continue;
        }
        let new = *g.pick(b"ABCDEFGHIJKLMNOPQRSTUVWXYZabcdefghijklmnopqrstuvwxyz0123456789-_=+/. ");
        if new == old {
            continue;
        }
        let mut s = text.clone().into_bytes();
        s[pos] = new;
        let s = String::from_utf8(s).unwrap();
        let mut f = base("text-substitution", format!("char {pos}: {} -> {}", old as char, new as char));
        f.text = Some(s);
        out.push(f);
    }
    // 9. text-level: one character appended to the payload segment and to the footer segment (the byte-level
    //    extensions above are re-encoded canonically; a decoder that ignores a dangling character is only visible here)
    {
        let segs: Vec<&str> = text.split('.').collect();
        let alphabet = b"ABCDEFGHIJKLMNOPQRSTUVWXYZabcdefghijklmnopqrstuvwxyz0123456789-_";
        for (si, _) in segs.iter().enumerate().skip(2) {
            for &c in alphabet.iter() {
                let mut parts: Vec<String> = segs.iter().map(|x| x.to_string()).collect();
                parts[si].push(c as char);
                let mut f = base("text-append", format!("segment {si}: + {}", c as char));
                f.text = Some(parts.join("."));
                out.push(f);
            }
        }
    }
    // 10. text-level: further dot-separated sections after the token (with or without content)
    for tail in [".", "..", ".AAAA", "..AAAA", ".AA", ". ", ".=", "...", ".AAAA.AAAA"] {
        let s = format!("{text}{tail}");
        let mut f = base("text-extra-section", format!("+ {tail:?}"));
        f.text = Some(s);
        out.push(f);
    }
    out
}

fn run_fault(bs: &[Backend], orig: &Tok, f: &Fault, m: &mut M, rep: &mut Report, with_model: bool) {
    let b = &bs[f.backend];
    rep.evaluations += 1;
    rep.count(&format!("fault.{}", f.kind));
    let (text, parts) = match &f.text {
        Some(s) => (s.clone(), lab::token_parts_strict(s)),
        None => (lab::token_string(b.ver, f.purpose, &f.payload, &f.footer), Some((f.payload.clone(), f.footer.clone()))),
    };
    // a text substitution may alias the same bytes only via the empty-footer dot; anything that is the canonical
    // spelling of the original (payload, footer) is not a fault.  The decoder used for this decision is strict: a
    // dangling character or non-zero unused bits are a different text of the same bytes and must be rejected.
    if let Some((p, ft)) = &parts {
        if f.text.is_some() && *p == orig.payload && *ft == orig.footer {
            rep.count("fault.noop");
            return;
        }
    }
    let r = unseal(b, f.purpose, &f.key, &text, &f.aad);
    match &r {
        Ok((claims, _)) => {
            rep.violation(
                &format!("c02.{}.{}.accepted.{}", b.name, f.purpose, f.kind),
                format!("{} {} token accepted after fault {} ({}): returned {} claim bytes", b.name, f.purpose, f.kind, f.detail, claims.len()),
                fault_json(bs, f),
            );
            return;
        }
        Err(e) => {
            rep.count(&format!("reject.{e}"));
            if e == "panic" {
                rep.violation(&format!("c02.{}.{}.panic.{}", b.name, f.purpose, f.kind), format!("{} panicked on fault {} ({})", b.name, f.kind, f.detail), fault_json(bs, f));
                return;
            }
            if (f.kind == "add-assertion") && !b.aad && e != "ClaimsError" {
                rep.disagreement(&format!("c02.{}.assertion-error-kind", b.name), format!("non-empty assertion on {} gave {e}, model says ClaimsError", b.name), fault_json(bs, f));
            }
        }
    }
    rep.nontrivial(format!("{}|{}|{}|{}", b.name, f.purpose, f.kind, f.detail.split(' ').next().unwrap_or("")));
    if with_model {
        if let Some((p, ft)) = parts {
            rep.model_evaluations += 1;
            let mr = model_unseal(m, b, f.purpose, &f.key, &p, &ft, &f.aad);
            // errors raised before the backend's unseal runs (text parsing: C09, key decoding: C08) are not
            // this model's subject; the harness's own lenient base64 reader may have decoded what the library refuses
            let pre_stage = matches!(&r, Err(e) if e == "Base64DecodeError" || e == "InvalidKey");
            let same = pre_stage || match (&r, &mr) {
                (Err(a), Err(bb)) => a == bb,
                _ => false,
            };
            if !same {
                rep.disagreement(
                    &format!("c02.{}.{}.model", b.name, f.purpose),
                    format!("fault {} ({}): implementation {:?}, model {:?}", f.kind, f.detail, r.as_ref().map(|x| x.0.len()), mr.as_ref().map(|x| x.len())),
                    fault_json(bs, f),
                );
            }
        }
    }
}

pub fn run(ctx: &Ctx) {
    let mut rep = Report::new("C02", &ctx.tier, ctx.seed);
    rep.rule = "for each sampled sealed token (6 backends x {local, public} x payload sizes x footer / assertion presence): every single-bit flip of every payload and footer byte, every truncation, extensions at both ends and at the nonce|body|tag boundaries, 1..3-byte shifts body<->footer and footer<->assertion, add/remove/alter footer and assertion (v1/v2: any non-empty assertion), relabel to every type-compatible version/purpose, other keys and key bit flips, base64 character substitutions and single characters appended to a segment; every message length 1..300 with the last / first message byte, the last footer byte and the last assertion byte changed; every acceptance is a violation; the extracted model is evaluated on the same faulted token and must return the same error kind; distinct = (backend, purpose, fault kind, position class)".into();
    let bs = lab::backends();
    let mut m = M::new(&ctx.model);
    if let Some(path) = &ctx.replay {
        let v: Value = serde_json::from_str(&std::fs::read_to_string(path).expect("replay file")).expect("json");
        let r = &v["replay"];
        let hx = |k: &str| hex::decode(r[k].as_str().unwrap_or("")).unwrap_or_default();
        let bi = bs.iter().position(|b| b.name == r["backend"].as_str().unwrap_or("")).expect("backend");
        let purpose = if r["purpose"] == "local" { "local" } else { "public" };
        let f = Fault { kind: "replay", detail: r["detail"].as_str().unwrap_or("").into(), backend: bi, purpose, key: hx("key"), payload: hx("payload"), footer: hx("footer"), aad: hx("aad"), text: r["text"].as_str().or(r["token"].as_str()).map(|s| s.to_string()) };
        let orig = Tok { purpose, key: vec![], payload: vec![], footer: vec![0xfe, 0xfe, 0xfe], aad: vec![], m: vec![] };
        run_fault(&bs, &orig, &f, &mut m, &mut rep, true);
        rep.model_prim_calls = m.prim_calls();
        rep.finish(ctx.out.as_deref());
        return;
    }
    use rayon::prelude::*;
    drop(m);
    let parts: Vec<(Report, u64, u64)> = (0..bs.len())
        .into_par_iter()
        .map(|bi| {
            let b = &bs[bi];
            let mut rep = Report::new("C02", &ctx.tier, ctx.seed);
            let mut m = M::new(&ctx.model);
            let mut g = SplitMix64::new(ctx.seed ^ 0xC02 ^ ((bi as u64) << 32));
            let mut sampled = 0u64;
    let thorough = ctx.thorough();
    let sizes: Vec<usize> = if thorough { vec![0, 1, 16, 17, 33, 64, 200] } else { vec![0, 1, 17, 64] };
        let kps = tok::keypairs(b, &mut g, 1);
        let other_local: Vec<Vec<u8>> = vec![g.bytes(32), vec![0u8; 32]];
        let other_pub: Vec<Vec<u8>> = kps.iter().map(|k| k.pk.clone()).collect();
        for purpose in ["local", "public"] {
            for &size in &sizes {
                for with_footer in [false, true] {
                    for with_aad in [false, true] {
                        if with_aad && !b.aad {
                            continue;
                        }
                        if b.name == "v1" && purpose == "public" && !thorough && (size == 1 || size == 64) {
                            continue; // RSA verification cost: 2 sizes in quick
                        }
                        let msg = content(&mut g, size);
                        let footer = if with_footer { b"{\"kid\":\"x\"}".to_vec() } else { vec![] };
                        let aad = if with_aad { b"implicit-assertion".to_vec() } else { vec![] };
                        let (key, tokstr) = if purpose == "local" {
                            let key = g.bytes(32);
                            (key.clone(), (b.local_encrypt)(&key, &msg, &footer, &aad, SealVia::Seal))
                        } else {
                            let kp = &kps[(size + with_footer as usize) % kps.len()];
                            (kp.pk.clone(), (b.public_sign)(&kp.sk, &msg, &footer, &aad, SealVia::Seal))
                        };
                        let tokstr = match tokstr {
                            Ok(t) => t,
                            Err(e) => {
                                rep.notes.push(format!("{} {} seal failed ({e}); see C01", b.name, purpose));
                                continue;
                            }
                        };
                        let (payload, ft) = lab::token_parts(&tokstr).expect("token shape");
                        // the unmodified token must be accepted (otherwise the enumeration is vacuous)
                        match unseal(b, purpose, &key, &tokstr, &aad) {
                            Ok((m2, _)) if m2 == msg => {}
                            _ => {
                                rep.notes.push(format!("{} {}: unmodified token not accepted; see C01", b.name, purpose));
                                continue;
                            }
                        }
                        sampled += 1;
                        let t = Tok { purpose, key, payload, footer: ft, aad, m: msg };
                        if rep.samples.len() < 6 {
                            rep.sample(json!({"backend": b.name, "purpose": purpose, "token": tokstr, "assertion": hex::encode(&t.aad)}));
                        }
                        let others = if purpose == "local" { &other_local } else { &other_pub };
                        let fs = faults(&bs, bi, &t, others, &mut g, thorough);
                        // the model runs on every fault of small tokens and on a stride of the others
                        let stride = if size <= 1 || thorough { 1 } else { 4 };
                        let rsa = b.name == "v1" && purpose == "public";
                        for (i, f) in fs.iter().enumerate() {
                            let with_model = if rsa { i % 40 == 0 } else { i % stride == 0 };
                            if rsa && !thorough && f.kind == "bitflip-payload" && i % 8 != 0 {
                                continue; // RSA-2048 verification is ~50x slower: one bit per byte in quick
                            }
                            run_fault(&bs, &t, f, &mut m, &mut rep, with_model);
                            if rep.violations.len() >= 40 {
                                break;
                            }
                        }
                        // typed footers: the token authenticates the footer BYTES it carries.  Read through a footer
                        // type whose wire form is not unique (impls::TrimFooter), the genuine token must be accepted,
                        // and a token whose footer bytes differ but DECODE to the same typed footer must be refused
                        if !t.footer.is_empty() && t.footer.last() != Some(&b' ') {
                            let local = purpose == "local";
                            rep.evaluations += 1;
                            match (b.unseal_typed_footer)(local, &t.key, &tokstr, &t.aad) {
                                Ok((m2, f2)) if m2 == t.m && f2 == t.footer => rep.nontrivial(format!("{}|{}|typed-footer|genuine", b.name, purpose)),
                                other => rep.violation(&format!("c02.{}.{}.typed-footer-rejected", b.name, purpose), format!("{} {}: the genuine token read through a typed footer gives {:?}", b.name, purpose, other.map(|x| (x.0.len(), x.1.len()))), json!({"backend": b.name, "purpose": purpose, "fault": "typed-footer genuine", "key": hex::encode(&t.key), "token": tokstr, "aad": hex::encode(&t.aad)})),
                            }
                            for pad in [1usize, 2, 7] {
                                let mut f2 = t.footer.clone();
                                f2.extend(std::iter::repeat(b' ').take(pad));
                                let alias = lab::token_string(b.ver, purpose, &t.payload, &f2);
                                rep.evaluations += 1;
                                rep.count("fault.typed-footer-alias");
                                match (b.unseal_typed_footer)(local, &t.key, &alias, &t.aad) {
                                    Ok((m2, _)) => rep.violation(&format!("c02.{}.{}.accepted.typed-footer-alias", b.name, purpose), format!("{} {} token accepted although {pad} byte(s) were appended to its footer (the typed footer decodes to the same value): returned {} claim bytes", b.name, purpose, m2.len()), json!({"backend": b.name, "purpose": purpose, "fault": "typed-footer-alias", "key": hex::encode(&t.key), "token": alias, "aad": hex::encode(&t.aad)})),
                                    Err(e) if e == "panic" => rep.violation(&format!("c02.{}.{}.panic.typed-footer-alias", b.name, purpose), format!("{} panicked", b.name), json!({"backend": b.name, "purpose": purpose, "token": alias})),
                                    Err(_) => rep.nontrivial(format!("{}|{}|typed-footer-alias|{pad}", b.name, purpose)),
                                }
                            }
                        }
                        let _ = &t.m;
                    }
                }
            }
        }
            (rep, sampled, m.prim_calls())
        })
        .collect();
    let mut sampled = 0u64;
    let mut prim_calls = 0u64;
    for (r, s_, c) in parts {
        rep.merge(r);
        sampled += s_;
        prim_calls += c;
    }
    // every message length 0..=300 once per backend and purpose: the last message bit, one footer bit and the assertion
    // changed one at a time — a MAC / hash input that skips bytes in some length window is self-consistent for seal and
    // unseal and shows only as an accepted modification at those lengths
    {
        let mut g = SplitMix64::new(ctx.seed ^ 0x5EEDC02);
        for b in &bs {
            let kps = tok::keypairs(b, &mut g, 1);
            for purpose in ["local", "public"] {
                let step = if b.name == "v1" && purpose == "public" && !ctx.thorough() { 4 } else { 1 };
                let lk = g.bytes(32);
                let a: Vec<u8> = if b.aad { b"implicit-12b".to_vec() } else { vec![] };
                for len in (1..=300usize).step_by(step) {
                    let msg = content(&mut g, len);
                    let footer = b"footer-10b".to_vec();
                    let (key, tokstr) = if purpose == "local" { (lk.clone(), (b.local_encrypt)(&lk, &msg, &footer, &a, SealVia::Seal)) } else { (kps[0].pk.clone(), (b.public_sign)(&kps[0].sk, &msg, &footer, &a, SealVia::Seal)) };
                    let Ok(tokstr) = tokstr else { continue };
                    let Some((payload, ft)) = lab::token_parts(&tokstr) else { continue };
                    // the byte that carries the end of the message: public = message || signature, local = nonce || c || tag
                    let msg_end = if purpose == "public" { len - 1 } else { b.nonce_len + len - 1 };
                    let mut variants: Vec<(&str, Vec<u8>, Vec<u8>, Vec<u8>)> = vec![];
                    if msg_end < payload.len() {
                        let mut p2 = payload.clone();
                        p2[msg_end] ^= 1;
                        variants.push(("last message byte", p2, ft.clone(), a.clone()));
                        let mut p3 = payload.clone();
                        let first = if purpose == "public" { 0 } else { b.nonce_len };
                        p3[first] ^= 0x80;
                        variants.push(("first message byte", p3, ft.clone(), a.clone()));
                    }
                    let mut f2 = ft.clone();
                    let fl = f2.len() - 1;
                    f2[fl] ^= 1;
                    variants.push(("last footer byte", payload.clone(), f2, a.clone()));
                    if b.aad {
                        let mut a2 = a.clone();
                        let al = a2.len() - 1;
                        a2[al] ^= 1;
                        variants.push(("last assertion byte", payload.clone(), ft.clone(), a2));
                    }
                    for (what, p, f, aa) in variants {
                        rep.evaluations += 1;
                        rep.count("fault.length-sweep");
                        let t = lab::token_string(b.ver, purpose, &p, &f);
                        if let Ok((claims, _)) = unseal(b, purpose, &key, &t, &aa) {
                            rep.violation(&format!("c02.{}.{}.accepted.length-sweep", b.name, purpose), format!("{} {} token with a {len}-byte message accepted after changing the {what}: returned {} claim bytes", b.name, purpose, claims.len()),
                                          json!({"backend": b.name, "purpose": purpose, "fault": format!("length-sweep: {what}"), "key": hex::encode(&key), "token": t, "aad": hex::encode(&aa)}));
                        }
                    }
                    if rep.violations.len() >= 40 {
                        break;
                    }
                }
            }
        }
    }
    // the same over the FOOTER length and (where supported) the ASSERTION length, 1..=140 bytes, 7-byte message: the first
    // and the last byte of the swept piece changed — a fixed-capacity buffer for the authenticated data that is one byte
    // short drops exactly the last byte of a piece of one particular length
    {
        let mut g = SplitMix64::new(ctx.seed ^ 0xF007C02);
        for b in &bs {
            let kps = tok::keypairs(b, &mut g, 1);
            for purpose in ["local", "public"] {
                let step = if b.name == "v1" && purpose == "public" && !ctx.thorough() { 5 } else { 1 };
                let lk = g.bytes(32);
                for which in ["footer", "assertion"] {
                    if which == "assertion" && !b.aad {
                        continue;
                    }
                    for len in (1..=140usize).step_by(step).chain([255usize, 256, 257, 1024]) {
                        let swept = content(&mut g, len);
                        let (footer, a): (Vec<u8>, Vec<u8>) = if which == "footer" { (swept.clone(), if b.aad { b"ia".to_vec() } else { vec![] }) } else { (b"f".to_vec(), swept.clone()) };
                        let msg = b"7 bytes".to_vec();
                        let (key, tokstr) = if purpose == "local" { (lk.clone(), (b.local_encrypt)(&lk, &msg, &footer, &a, SealVia::Seal)) } else { (kps[0].pk.clone(), (b.public_sign)(&kps[0].sk, &msg, &footer, &a, SealVia::Seal)) };
                        let Ok(tokstr) = tokstr else { continue };
                        let Some((payload, ft)) = lab::token_parts(&tokstr) else { continue };
                        for (pos_name, pos) in [("last", len - 1), ("first", 0usize)] {
                            let (mut f2, mut a2) = (ft.clone(), a.clone());
                            if which == "footer" { f2[pos] ^= 1 } else { a2[pos] ^= 1 };
                            rep.evaluations += 1;
                            rep.count("fault.piece-length-sweep");
                            let t = lab::token_string(b.ver, purpose, &payload, &f2);
                            if let Ok((claims, _)) = unseal(b, purpose, &key, &t, &a2) {
                                rep.violation(&format!("c02.{}.{}.accepted.piece-length-sweep", b.name, purpose), format!("{} {} token with a {len}-byte {which} accepted after changing the {pos_name} byte of the {which}: returned {} claim bytes", b.name, purpose, claims.len()),
                                              json!({"backend": b.name, "purpose": purpose, "fault": format!("piece-length-sweep: {pos_name} byte of a {len}-byte {which}"), "key": hex::encode(&key), "token": t, "aad": hex::encode(&a2)}));
                            }
                        }
                        if rep.violations.len() >= 40 {
                            break;
                        }
                    }
                }
            }
        }
    }
    // payload types with a non-empty SUFFIX ("v4x.local..."): the suffix is part of the authenticated header
    {
        let mut m = M::new(&ctx.model);
        let mut g = SplitMix64::new(ctx.seed ^ 0xC02C02);
        for b in &bs {
            let kps = tok::keypairs(b, &mut g, 1);
            for purpose in ["local", "public"] {
                let (sealk, unsealk) = if purpose == "local" { let k = g.bytes(32); (k.clone(), k) } else { (kps[0].sk.clone(), kps[0].pk.clone()) };
                let msg = content(&mut g, 21);
                let a: Vec<u8> = if b.aad { b"ia".to_vec() } else { vec![] };
                let replay = json!({"backend": b.name, "purpose": purpose, "fault": "suffix", "key": hex::encode(&unsealk), "m": hex::encode(&msg)});
                rep.evaluations += 4;
                // control: a suffixed token round-trips under its own type
                let tx = match (b.seal_x)(purpose, &sealk, &msg, b"f", &a) { Ok(t) => t, Err(e) => { rep.notes.push(format!("{} {purpose}: seal with suffix failed: {e}", b.name)); continue; } };
                match (b.unseal_x)(purpose, &unsealk, &tx, &a) {
                    Ok((m2, _)) if m2 == msg => {}
                    other => { rep.disagreement(&format!("c02.{}.{purpose}.suffix-control", b.name), format!("suffixed token does not round-trip: {:?}", other.map(|x| x.0.len())), replay.clone()); continue; }
                }
                let hx = format!("{}x.{purpose}.", b.ver);
                let h0 = format!("{}.{purpose}.", b.ver);
                if !tx.starts_with(&hx) {
                    rep.disagreement(&format!("c02.{}.{purpose}.suffix-header", b.name), format!("suffixed token does not start with {hx}: {tx}"), replay.clone());
                    continue;
                }
                // 1. drop the suffix from the header: the plain type must reject it
                let dropped = format!("{h0}{}", &tx[hx.len()..]);
                let r = if purpose == "local" { (b.local_decrypt)(&unsealk, &dropped, &a, false) } else { (b.public_verify)(&unsealk, &dropped, &a, false) };
                if r.is_ok() {
                    rep.violation(&format!("c02.{}.{purpose}.accepted.suffix-dropped", b.name), format!("{} {purpose}: a token sealed for a payload type with suffix \"x\" is accepted as the plain type after rewriting the header {hx} -> {h0}", b.name), json!({"backend": b.name, "purpose": purpose, "fault": "suffix-dropped", "key": hex::encode(&unsealk), "text": dropped, "aad": hex::encode(&a)}));
                }
                // 2. add the suffix to a plain token: the suffixed type must reject it
                let t0 = if purpose == "local" { (b.local_encrypt)(&sealk, &msg, b"f", &a, SealVia::Seal) } else { (b.public_sign)(&sealk, &msg, b"f", &a, SealVia::Seal) };
                if let Ok(t0) = t0 {
                    let added = format!("{hx}{}", &t0[h0.len()..]);
                    if (b.unseal_x)(purpose, &unsealk, &added, &a).is_ok() {
                        rep.violation(&format!("c02.{}.{purpose}.accepted.suffix-added", b.name), format!("{} {purpose}: a plain token is accepted as the suffixed payload type after rewriting the header {h0} -> {hx}", b.name), json!({"backend": b.name, "purpose": purpose, "fault": "suffix-added", "key": hex::encode(&unsealk), "text": added, "aad": hex::encode(&a)}));
                    }
                }
                // 3. the model with enc = "x" agrees on the suffixed token
                if let Some((p, ft)) = lab::token_parts(&tx.replacen("x.", ".", 1)) {
                    rep.model_evaluations += 1;
                    let mr = if purpose == "local" { m.local_unseal(b.name, &unsealk, b"x", &p, &ft, &a) } else { m.public_unseal(b.name, &unsealk, b"x", &p, &ft, &a) };
                    if mr.as_ref().ok() != Some(&msg) {
                        rep.disagreement(&format!("c02.{}.{purpose}.suffix-model", b.name), format!("model unseal with suffix \"x\" of the implementation's token: {:?}", mr.map(|x| x.len())), replay.clone());
                    }
                    rep.model_evaluations += 1;
                    let m0 = if purpose == "local" { m.local_unseal(b.name, &unsealk, b"", &p, &ft, &a) } else { m.public_unseal(b.name, &unsealk, b"", &p, &ft, &a) };
                    if m0.is_ok() {
                        rep.disagreement(&format!("c02.{}.{purpose}.suffix-model", b.name), "model accepts the suffixed token with the empty suffix".into(), replay.clone());
                    }
                }
                rep.nontrivial(format!("{}|{purpose}|suffix", b.name));
            }
        }
        prim_calls += m.prim_calls();
    }
    rep.count_n("sampled-tokens", sampled);
    rep.model_prim_calls = prim_calls;
    rep.finish(ctx.out.as_deref());
}
