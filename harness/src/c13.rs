//! C13 — key ids are the spec's hash of the key's PASERK text, stable, domain-separated.
use crate::lab::{self, Backend};
use crate::report::Report;
use crate::rng::SplitMix64;
use crate::sexp;
use crate::tok::{self, res_bytes, M};
use crate::Ctx;
use digest::Digest;
use serde_json::{json, Value};

fn kver(b: &Backend) -> &'static str {
    match b.ver { "v1" => "k1", "v2" => "k2", "v3" => "k3", _ => "k4" }
}

/// the PASERK definition, written directly: id = hash33("kN" || ".xid." || PASERK text of the key)
fn direct_id(b: &Backend, kind: &str, text: &str) -> String {
    let hdr = match kind { "local" => ".lid.", "public" | "pke-public" => ".pid.", _ => ".sid." };
    let mut input = kver(b).as_bytes().to_vec();
    input.extend_from_slice(hdr.as_bytes());
    input.extend_from_slice(text.as_bytes());
    let h: Vec<u8> = if b.ver == "v1" || b.ver == "v3" {
        sha2::Sha384::digest(&input)[..33].to_vec()
    } else {
        use blake2::digest::{consts::U33, FixedOutput, Update};
        let mut c = blake2::Blake2b::<U33>::default();
        Update::update(&mut c, &input);
        c.finalize_fixed().to_vec()
    };
    format!("{}{}{}", kver(b), hdr, lab::b64(&h))
}

fn check_key(b: &Backend, m: &mut M, rep: &mut Report, kind: &str, bytes: &[u8], src: &str) -> Option<String> {
    rep.evaluations += 1;
    let case = json!({"backend": b.name, "kind": kind, "bytes": hex::encode(bytes), "what": src});
    let id = match (b.key_id)(kind, bytes) {
        Ok(i) => i,
        Err(e) => {
            rep.violation(&format!("c13.{}.{kind}.id-failed", b.name), format!("{} id() of a valid {kind} key failed: {e}", b.name), case);
            return None;
        }
    };
    let text = (b.key_text)(kind, bytes).unwrap_or_default();
    let want = direct_id(b, kind, &text);
    // ... and of the key's PASERK text written down here, not taken from the implementation: every key handed to
    // this function is given in its canonical serialisation, so its text is header || base64url(bytes)
    let khdr = match kind { "local" => ".local.", "public" | "pke-public" => ".public.", _ => ".secret." };
    let own_text = format!("{}{}{}", kver(b), khdr, lab::b64(bytes));
    let want_own = direct_id(b, kind, &own_text);
    if !src.contains("pem") && id != want_own {
        rep.violation(&format!("c13.{}.{kind}.not-spec", b.name), format!("{} {kind} id is {id}, the PASERK definition applied to the key's canonical text {} gives {want_own}", b.name, &own_text[..own_text.len().min(60)]), case.clone());
    }
    if id != want {
        rep.violation(&format!("c13.{}.{kind}.not-spec", b.name), format!("{} {kind} id is {id}, the PASERK definition gives {want}", b.name), case.clone());
    }
    // stable across serialise / parse / clone
    if let Ok(parsed) = (b.key_parse)(kind, &text) {
        if (b.key_id)(kind, &parsed).ok().as_ref() != Some(&id) {
            rep.violation(&format!("c13.{}.{kind}.unstable", b.name), format!("{} id changes after serialising and parsing the {kind} key", b.name), case.clone());
        }
    }
    if let Ok(cl) = (b.key_clone)(kind, bytes) {
        if (b.key_id)(kind, &cl).ok().as_ref() != Some(&id) {
            rep.violation(&format!("c13.{}.{kind}.unstable", b.name), format!("{} id of a clone differs", b.name), case.clone());
        }
    }
    // text round trip of the id, exactly 33 bytes
    let id_kind = match kind { "pke-secret" => "secret", "pke-public" => "public", k => k };
    match (b.keyid_cmp)(id_kind, &id, &id) {
        Ok((true, 0, true, a, _)) if a.len() == 33 => {}
        other => rep.violation(&format!("c13.{}.{kind}.id-text", b.name), format!("{} id text does not parse back to an equal 33-byte id: {:?}", b.name, other.map(|x| (x.0, x.1, x.2, x.3.len()))), case.clone()),
    }
    // model
    rep.model_evaluations += 1;
    let mr = res_bytes(&m.eval(&sexp::op("key_id", vec![sexp::s(b.name), sexp::s(kind), sexp::x(bytes)])));
    if mr.as_ref().ok().map(|x| &x[..]) != Some(id.as_bytes()) {
        rep.disagreement(&format!("c13.{}.{kind}.model", b.name), format!("model id {:?} != implementation {id}", mr.map(|x| String::from_utf8_lossy(&x).to_string())), case);
    }
    rep.nontrivial(format!("{}|{kind}|{src}", b.name));
    Some(id)
}

pub fn run(ctx: &Ctx) {
    let mut rep = Report::new("C13", &ctx.tier, ctx.seed);
    rep.rule = "ids (lid / sid / pid) of generated and parsed keys on all six backends: equal to the PASERK definition computed directly (SHA-384[..33] / BLAKE2b-264 over kN || id header || key text) and to the extracted model; stable across clone and serialise/parse; v1 keys given as PEM and as DER; the two backends of a version agree; lid / sid / pid of related keys differ; id strings with 0..70 data bytes parse iff the data has exactly 33 bytes (and round-trip); id strings with a truncated, missing, doubled or foreign kind label are refused; the pid of secret.public_key() equals the pid of that public key derived independently; KeyId ==, cmp, partial_cmp and Hash agree with the 33 bytes on random, equal and adjacent ids; distinct = (backend, kind, key source) and comparison classes".into();
    let bs = lab::backends();
    let mut m = M::new(&ctx.model);
    let mut g = SplitMix64::new(ctx.seed ^ 0xC13);
    if let Some(path) = &ctx.replay {
        let v: Value = serde_json::from_str(&std::fs::read_to_string(path).expect("replay file")).expect("json");
        let r = &v["replay"];
        let b = bs.iter().find(|b| b.name == r["backend"].as_str().unwrap_or("")).expect("backend");
        let kind = ["local", "public", "secret"].iter().find(|k| **k == r["kind"].as_str().unwrap_or("")).copied().unwrap_or("local");
        check_key(b, &mut m, &mut rep, kind, &hex::decode(r["bytes"].as_str().unwrap_or("")).unwrap_or_default(), "replay");
        rep.finish(ctx.out.as_deref());
        return;
    }
    let mut by_version: std::collections::BTreeMap<(String, String, Vec<u8>), Vec<(String, String)>> = Default::default();
    for b in &bs {
        let mut kps = tok::keypairs(b, &mut g, 2);
        // valid keys whose encodings begin / end with white space, NUL, 0xff, and (v3) whose x coordinate has a leading zero byte
        kps.extend(tok::edge_keypairs(b, &mut g));
        let mut keys: Vec<(&str, Vec<u8>, String)> = vec![("local", g.bytes(32), "parsed".into()), ("local", vec![0u8; 32], "zeros".into())];
        if let Ok(k) = (b.local_random)() {
            keys.push(("local", k, "random()".into()));
        }
        for kp in &kps {
            keys.push(("secret", kp.sk.clone(), kp.source.into()));
            keys.push(("public", kp.pk.clone(), kp.source.into()));
        }
        // the key-sealing (PKE) kinds have ids too (sid / pid over their own PASERK text): v1 uses its 4096-bit keys,
        // the other backends the same key material as for signing
        let pke: Vec<(Vec<u8>, Vec<u8>)> = if b.ver == "v1" {
            use rsa::pkcs1::DecodeRsaPrivateKey;
            use rsa::pkcs8::spki::EncodePublicKey;
            tok::corpus_rsa_keys(4096).into_iter().filter_map(|der| {
                let pk = rsa::RsaPrivateKey::from_pkcs1_der(&der).ok()?.to_public_key().to_public_key_der().ok()?.into_vec();
                Some((der, pk))
            }).collect()
        } else {
            kps.iter().map(|kp| (kp.sk.clone(), kp.pk.clone())).collect()
        };
        for (sk, pk) in &pke {
            keys.push(("pke-secret", sk.clone(), "parsed".into()));
            keys.push(("pke-public", pk.clone(), "parsed".into()));
        }
        for (kind, bytes, src) in &keys {
            if let Some(id) = check_key(b, &mut m, &mut rep, kind, bytes, src) {
                by_version.entry((b.ver.to_string(), kind.to_string(), bytes.clone())).or_default().push((b.name.to_string(), id));
            }
        }
        // related keys: sid of a secret key, pid of its public key (and lid of the same 32 bytes where that is a key) differ
        for kp in &kps {
            let sid = (b.key_id)("secret", &kp.sk).unwrap_or_default();
            let pid = (b.key_id)("public", &kp.pk).unwrap_or_default();
            let tail = |s: &str| s.rsplit('.').next().unwrap_or("").to_string();
            rep.evaluations += 1;
            if tail(&sid) == tail(&pid) {
                rep.violation(&format!("c13.{}.not-separated", b.name), "sid and pid of one key pair carry the same digest".into(), json!({"backend": b.name, "kind": "secret", "bytes": hex::encode(&kp.sk), "what": "related"}));
            }
            if kp.pk.len() == 32 {
                let lid = (b.key_id)("local", &kp.pk).unwrap_or_default();
                if tail(&lid) == tail(&pid) {
                    rep.violation(&format!("c13.{}.not-separated", b.name), "lid and pid of the same 32 bytes carry the same digest".into(), json!({"backend": b.name, "kind": "public", "bytes": hex::encode(&kp.pk), "what": "related"}));
                }
            }
        }
        // the public key a secret key derives has the id of that public key given directly (v1: the corpus
        // includes a key with public exponent 3)
        for kp in &kps {
            rep.evaluations += 1;
            let derived = (b.public_of_secret)(&kp.sk).and_then(|pk| (b.key_id)("public", &pk));
            let direct = (b.key_id)("public", &kp.pk);
            if derived != direct || direct.is_err() {
                rep.violation(&format!("c13.{}.public.derived-id", b.name), format!("{}: the pid of secret.public_key() is {:?}, the pid of the same public key parsed from its bytes is {:?}", b.name, derived, direct), json!({"backend": b.name, "kind": "secret", "bytes": hex::encode(&kp.sk), "what": "derived public key"}));
            }
        }
        // id strings: the data part must decode to exactly 33 bytes
        for kind in ["local", "public", "secret"] {
            let hdr = match kind { "local" => ".lid.", "public" => ".pid.", _ => ".sid." };
            for len in (0usize..=70).chain([96, 99, 132]) {
                let bytes = g.bytes(len);
                let s = format!("{}{}{}", kver(b), hdr, lab::b64(&bytes));
                rep.evaluations += 1;
                rep.model_evaluations += 1;
                let mr = res_bytes(&m.eval(&sexp::op("parse_keyid", vec![sexp::x(kver(b).as_bytes()), sexp::x(hdr.as_bytes()), sexp::x(s.as_bytes())])));
                let got = (b.keyid_cmp)(kind, &s, &s);
                let case = json!({"backend": b.name, "kind": kind, "bytes": hex::encode(&bytes), "what": format!("id string with {len} data bytes")});
                match (&got, len == 33) {
                    (Ok((true, 0, true, a, _)), true) if *a == bytes => rep.nontrivial(format!("{}|idtext|{kind}|33", b.name)),
                    (Err(_), false) => rep.nontrivial(format!("{}|idtext|{kind}|{}", b.name, if len < 33 { "short" } else { "long" })),
                    (Ok(x), false) => rep.violation(&format!("c13.{}.{kind}.id-length", b.name), format!("{} parses an id string whose data decodes to {len} bytes (as {})", b.name, hex::encode(&x.3)), case.clone()),
                    (other, _) => rep.violation(&format!("c13.{}.{kind}.id-text", b.name), format!("{} does not parse / round-trip a 33-byte id: {:?}", b.name, other.as_ref().map(|x| (x.0, x.1, x.2, x.3.len()))), case.clone()),
                }
                if mr.is_ok() != got.is_ok() || (mr.is_ok() && mr.as_ref().ok() != got.as_ref().ok().map(|x| &x.3)) {
                    rep.disagreement(&format!("c13.{}.{kind}.idtext-model", b.name), format!("id string with {len} data bytes: implementation {:?}, model {:?}", got.as_ref().map(|x| x.3.len()), mr.as_ref().map(|x| x.len())), case);
                }
            }
        }
        // v1: PEM and DER inputs of one key give one id
        if b.ver == "v1" {
            use rsa::pkcs1::{DecodeRsaPrivateKey, EncodeRsaPrivateKey};
            for der in tok::corpus_rsa_keys(2048).iter() {
                let k = rsa::RsaPrivateKey::from_pkcs1_der(der).unwrap();
                let pem = k.to_pkcs1_pem(rsa::pkcs8::LineEnding::LF).unwrap().as_bytes().to_vec();
                rep.evaluations += 1;
                let a = (b.key_id)("secret", der);
                let c = (b.key_id)("secret", &pem);
                if a != c || a.is_err() {
                    rep.violation("c13.v1.secret.pem-der", format!("the PEM and DER forms of one RSA key have different ids: {:?} vs {:?}", a, c), json!({"backend": "v1", "kind": "secret", "bytes": hex::encode(der), "what": "pem-vs-der"}));
                }
                rep.nontrivial("v1|secret|pem-vs-der".into());
            }
        }
        // Eq / Ord / Hash of KeyId agree with the bytes
        for kind in ["local", "public", "secret"] {
            let hdr = match kind { "local" => ".lid.", "public" => ".pid.", _ => ".sid." };
            let mk = |bytes: &[u8]| format!("{}{}{}", kver(b), hdr, lab::b64(bytes));
            let base = g.bytes(33);
            let mut pairs: Vec<(Vec<u8>, Vec<u8>)> = vec![(base.clone(), base.clone())];
            for i in [0usize, 16, 32] {
                let mut x = base.clone();
                x[i] = x[i].wrapping_add(1);
                pairs.push((base.clone(), x.clone()));
                pairs.push((x, base.clone()));
            }
            for _ in 0..10 {
                pairs.push((g.bytes(33), g.bytes(33)));
            }
            // malformed id strings around the header: a truncated, missing or doubled kind, another kind's label — with a
            // valid 33-byte body — must not parse as this kind of id
            {
                let body = lab::b64(&base);
                let v = kver(b);
                let k3 = &hdr[1..4]; // "lid" / "pid" / "sid"
                let other = if kind == "local" { "sid" } else { "lid" };
                let bad: Vec<String> = vec![
                    format!("{v}{body}"), format!("{v}.{body}"), format!("{v}..{body}"), format!("{v}.{}.{body}", &k3[..2]), format!("{v}.{}.{body}", &k3[..1]),
                    format!("{v}.{k3}..{body}"), format!("{v}..{k3}.{body}"), format!("{v}.{k3}{body}"), format!("{v}{k3}.{body}"), format!("{v}.{other}.{body}"),
                    format!("{v}.{k3}.{body}."), format!(".{k3}.{body}"), format!("{v}.{}.{body}", k3.to_uppercase()),
                ];
                let good = mk(&base);
                for s_bad in bad {
                    rep.evaluations += 1;
                    if let Ok(r) = (b.keyid_cmp)(kind, &s_bad, &good) {
                        rep.violation(&format!("c13.{}.{kind}.malformed-id-accepted", b.name), format!("{} parses {:?} as a {kind} key id (equal to the well-formed one: {})", b.name, s_bad, r.0), json!({"backend": b.name, "kind": kind, "bytes": hex::encode(&base), "what": format!("malformed id {s_bad}")}));
                    }
                }
                rep.nontrivial(format!("{}|malformed-id|{kind}", b.name));
            }
            for (x, y) in pairs {
                rep.evaluations += 1;
                let want = (x == y, match x.cmp(&y) { std::cmp::Ordering::Less => -1i8, std::cmp::Ordering::Equal => 0, _ => 1 });
                match (b.keyid_cmp)(kind, &mk(&x), &mk(&y)) {
                    Ok((eq, ord, heq, xa, ya)) if eq == want.0 && ord == want.1 && (!eq || heq) && xa == x && ya == y => rep.nontrivial(format!("{}|cmp|{kind}|{}", b.name, want.1)),
                    other => rep.violation(&format!("c13.{}.{kind}.cmp", b.name), format!("KeyId ==/cmp/hash disagree with the bytes: got {:?}, bytes say {:?}", other.map(|o| (o.0, o.1, o.2)), want), json!({"backend": b.name, "kind": kind, "bytes": hex::encode(&x), "what": format!("cmp with {}", hex::encode(&y))})),
                }
            }
        }
    }
    // the two backends of a version compute identical ids for identical keys
    for ((ver, kind, bytes), ids) in &by_version {
        if ids.len() > 1 && ids.iter().any(|(_, i)| *i != ids[0].1) {
            rep.violation(&format!("c13.siblings.{ver}.{kind}"), format!("backends of {ver} give different ids for one {kind} key: {:?}", ids), json!({"backend": ids[0].0, "kind": kind, "bytes": hex::encode(bytes), "what": "siblings"}));
        }
    }
    // sibling ids on keys generated by one backend
    for (x, y) in [("v3", "v3-aws-lc"), ("v4", "v4-sodium")] {
        let bx = bs.iter().find(|b| b.name == x).unwrap();
        let by = bs.iter().find(|b| b.name == y).unwrap();
        for kp in tok::keypairs(bx, &mut g, 2).into_iter().chain(tok::edge_keypairs(bx, &mut g)) {
            for (kind, bytes) in [("secret", &kp.sk), ("public", &kp.pk)] {
                rep.evaluations += 1;
                let a = (bx.key_id)(kind, bytes);
                let c = (by.key_id)(kind, bytes);
                if a != c || a.is_err() {
                    rep.violation(&format!("c13.siblings.{x}.{kind}"), format!("{x} and {y} give different ids: {:?} vs {:?}", a, c), json!({"backend": x, "kind": kind, "bytes": hex::encode(bytes), "what": "siblings"}));
                }
                rep.nontrivial(format!("sib|{x}|{kind}|{}", kp.source));
            }
        }
    }
    rep.model_prim_calls = m.prim_calls();
    rep.finish(ctx.out.as_deref());
}
