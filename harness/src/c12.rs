//! C12 — nothing from an unauthenticated token is decoded, validated or reported.
//! Harness-defined payload and validator types count their invocations; every failing-token class of C02
//! is offered to the real `SealedToken::unseal` of every backend; counters must stay 0, the error must be a
//! format / cryptographic one and must not depend on what the payload type would make of the bytes.
use crate::c02::{fault_json, faults, Fault, Tok};
use crate::impls::{err_name, V1, V2, V3, V3L, V4, V4S};
use crate::lab::{self, key_from, Backend, SealVia};
use crate::report::Report;
use crate::rng::SplitMix64;
use crate::tok::{self, content};
use crate::Ctx;
use paseto_core::tokens::SealedToken;
use paseto_core::validation::Validate;
use paseto_core::version::{Local, Public};
use paseto_core::PasetoError;
use serde_json::json;
use std::cell::Cell;
use std::str::FromStr;

thread_local! {
    static DECODES: Cell<u64> = Cell::new(0);
    static VALIDATES: Cell<u64> = Cell::new(0);
}

/// decodes anything, counting
pub struct Lenient(Vec<u8>);
impl paseto_core::encodings::Payload for Lenient {
    const SUFFIX: &'static str = "";
    fn encode(self, mut w: impl paseto_core::encodings::WriteBytes) -> Result<(), Box<dyn std::error::Error + Send + Sync>> {
        w.write(&self.0);
        Ok(())
    }
    fn decode(p: &[u8]) -> Result<Self, Box<dyn std::error::Error + Send + Sync>> {
        DECODES.with(|c| c.set(c.get() + 1));
        Ok(Lenient(p.to_vec()))
    }
}
/// refuses everything, counting: a payload type for which the same bytes "would not decode"
pub struct Strict;
impl paseto_core::encodings::Payload for Strict {
    const SUFFIX: &'static str = "";
    fn encode(self, _: impl paseto_core::encodings::WriteBytes) -> Result<(), Box<dyn std::error::Error + Send + Sync>> {
        Ok(())
    }
    fn decode(_: &[u8]) -> Result<Self, Box<dyn std::error::Error + Send + Sync>> {
        DECODES.with(|c| c.set(c.get() + 1));
        Err("strict payload type refuses".into())
    }
}
/// decodes anything, counting, with the header suffix "x" ("v4x.local.")
pub struct LenientX(Vec<u8>);
impl paseto_core::encodings::Payload for LenientX {
    const SUFFIX: &'static str = "x";
    fn encode(self, mut w: impl paseto_core::encodings::WriteBytes) -> Result<(), Box<dyn std::error::Error + Send + Sync>> {
        w.write(&self.0);
        Ok(())
    }
    fn decode(p: &[u8]) -> Result<Self, Box<dyn std::error::Error + Send + Sync>> {
        DECODES.with(|c| c.set(c.get() + 1));
        Ok(LenientX(p.to_vec()))
    }
}
pub struct CountingValidator<M>(std::marker::PhantomData<M>);
impl<M> Validate for CountingValidator<M> {
    type Claims = M;
    fn validate(&self, _: &M) -> Result<(), PasetoError> {
        VALIDATES.with(|c| c.set(c.get() + 1));
        Ok(())
    }
}

/// (error kind or "ok", decodes, validates)
type Obs = (String, u64, u64);

fn observe<T>(f: impl FnOnce() -> Result<T, PasetoError>) -> Obs {
    DECODES.with(|c| c.set(0));
    VALIDATES.with(|c| c.set(0));
    let r = std::panic::catch_unwind(std::panic::AssertUnwindSafe(f));
    let kind = match r {
        Ok(Ok(_)) => "ok".to_string(),
        Ok(Err(e)) => err_name(&e).to_string(),
        Err(_) => "panic".to_string(),
    };
    (kind, DECODES.with(|c| c.get()), VALIDATES.with(|c| c.get()))
}

macro_rules! unseal_with {
    ($V:ty, $purpose:expr, $M:ty, $key:expr, $tok:expr, $aad:expr) => {{
        if $purpose == "local" {
            observe(|| {
                let k = key_from::<$V, Local>($key)?;
                let t = SealedToken::<$V, Local, $M, Vec<u8>>::from_str($tok)?;
                t.unseal(&k, $aad, &CountingValidator::<$M>(std::marker::PhantomData)).map(|_| ())
            })
        } else {
            observe(|| {
                let k = key_from::<$V, Public>($key)?;
                let t = SealedToken::<$V, Public, $M, Vec<u8>>::from_str($tok)?;
                t.unseal(&k, $aad, &CountingValidator::<$M>(std::marker::PhantomData)).map(|_| ())
            })
        }
    }};
}

/// the same through the payload type with suffix "x"
fn unseal_counting_x(backend: &str, purpose: &str, key: &[u8], tok: &str, aad: &[u8]) -> Obs {
    macro_rules! go {
        ($V:ty) => {
            unseal_with!($V, purpose, LenientX, key, tok, aad)
        };
    }
    match backend {
        "v1" => go!(V1),
        "v2" => go!(V2),
        "v3" => go!(V3),
        "v3-aws-lc" => go!(V3L),
        "v4" => go!(V4),
        _ => go!(V4S),
    }
}

fn unseal_counting(backend: &str, purpose: &str, strict: bool, key: &[u8], tok: &str, aad: &[u8]) -> Obs {
    macro_rules! go {
        ($V:ty) => {
            if strict { unseal_with!($V, purpose, Strict, key, tok, aad) } else { unseal_with!($V, purpose, Lenient, key, tok, aad) }
        };
    }
    match backend {
        "v1" => go!(V1),
        "v2" => go!(V2),
        "v3" => go!(V3),
        "v3-aws-lc" => go!(V3L),
        "v4" => go!(V4),
        _ => go!(V4S),
    }
}

fn check_fault(bs: &[Backend], f: &Fault, rep: &mut Report) {
    let b = &bs[f.backend];
    rep.evaluations += 1;
    let text = match &f.text {
        Some(s) => s.clone(),
        None => lab::token_string(b.ver, f.purpose, &f.payload, &f.footer),
    };
    // a text-level fault that is the canonical spelling of the very token sealed (the one alias: a dot after a footer-less
    // token) is not a modified token (text faults carry the original payload and footer in the fault record)
    if f.text.is_some() {
        if let Some((p, ft)) = lab::token_parts_strict(&text) {
            if p == f.payload && ft == f.footer {
                rep.count("fault.noop");
                return;
            }
        }
    }
    let lenient = unseal_counting(b.name, f.purpose, false, &f.key, &text, &f.aad);
    let strict = unseal_counting(b.name, f.purpose, true, &f.key, &text, &f.aad);
    rep.count(&format!("error.{}", lenient.0));
    if lenient.0 == "ok" || strict.0 == "PayloadError" {
        // the token is a modified one (or is offered under another key / assertion / header), so it is NOT
        // authentic: the caller's decoder (and validator) ran on unauthenticated bytes
        rep.violation(
            &format!("c12.{}.{}.ran-on-unauthenticated", b.name, f.purpose),
            format!("{} {}: a token that is not the one sealed [fault {}: {}] reached the payload decoder ({} call(s)) and the validator ({} call(s)); result {} / {} depending on the payload type", b.name, f.purpose, f.kind, f.detail, lenient.1.max(strict.1), lenient.2, lenient.0, strict.0),
            fault_json(bs, f),
        );
        return;
    }
    if lenient.1 != 0 || lenient.2 != 0 || strict.1 != 0 || strict.2 != 0 {
        rep.violation(
            &format!("c12.{}.{}.ran-on-unauthenticated", b.name, f.purpose),
            format!("{} {}: token failed authentication ({}) yet the payload decoder ran {} time(s) and the validator {} time(s) [fault {}: {}]", b.name, f.purpose, lenient.0, lenient.1.max(strict.1), lenient.2.max(strict.2), f.kind, f.detail),
            fault_json(bs, f),
        );
        return;
    }
    if lenient.0 != strict.0 {
        rep.violation(
            &format!("c12.{}.{}.error-depends-on-payload-type", b.name, f.purpose),
            format!("{} {}: error {} with a payload type that decodes anything, {} with one that refuses [fault {}]", b.name, f.purpose, lenient.0, strict.0, f.kind),
            fault_json(bs, f),
        );
        return;
    }
    let allowed: &[&str] = &["InvalidToken", "CryptoError", "ClaimsError", "Base64DecodeError", "InvalidKey"];
    if !allowed.contains(&lenient.0.as_str()) {
        rep.violation(
            &format!("c12.{}.{}.error-kind", b.name, f.purpose),
            format!("{} {}: unauthenticated token reported {} [fault {}]", b.name, f.purpose, lenient.0, f.kind),
            fault_json(bs, f),
        );
        return;
    }
    if lenient.0 == "ClaimsError" && (b.aad || f.aad.is_empty()) {
        rep.violation(&format!("c12.{}.{}.claims-error", b.name, f.purpose), format!("{} {}: ClaimsError for an unauthenticated token outside the v1/v2 assertion refusal [fault {}]", b.name, f.purpose, f.kind), fault_json(bs, f));
        return;
    }
    rep.nontrivial(format!("{}|{}|{}|{}", b.name, f.purpose, f.kind, lenient.0));
}

pub fn run(ctx: &Ctx) {
    let mut rep = Report::new("C12", &ctx.tier, ctx.seed);
    rep.rule = "every fault class of C02 (bit flips, truncations, extensions, boundary shifts, footer/assertion edits, relabels, other keys, text substitutions) on sampled tokens of all 6 backends x {local, public}, unsealed through the real SealedToken::unseal with harness payload types (one that decodes anything, one that refuses everything) and a validator, all counting invocations; counters must be 0, the error a format/cryptographic one and identical for both payload types; positive control: the unmodified token runs decoder and validator exactly once; distinct = (backend, purpose, fault kind, error kind)".into();
    let bs = lab::backends();
    if let Some(path) = &ctx.replay {
        let v: serde_json::Value = serde_json::from_str(&std::fs::read_to_string(path).expect("replay file")).expect("json");
        let r = &v["replay"];
        let hx = |k: &str| hex::decode(r[k].as_str().unwrap_or("")).unwrap_or_default();
        let bi = bs.iter().position(|b| b.name == r["backend"].as_str().unwrap_or("")).expect("backend");
        let purpose = if r["purpose"] == "local" { "local" } else { "public" };
        if r["fault"] == "payload-type-relabel" {
            // both payload types used once, then each token offered to the other type
            let b = &bs[bi];
            // the two tokens are sealed again here (the recorded ones were produced by the tree on which the violation
            // was found and are kept in the file for reading only)
            let (sealk, key, a) = (hx("seal_key"), hx("key"), hx("aad"));
            let plain = if purpose == "local" { (b.local_encrypt)(&sealk, b"plain", b"f", &a, SealVia::Seal) } else { (b.public_sign)(&sealk, b"plain", b"f", &a, SealVia::Seal) }.unwrap_or_default();
            let sfx = (b.seal_x)(purpose, &sealk, b"suffixed", b"f", &a).unwrap_or_default();
            let (plain, sfx) = (plain.as_str(), sfx.as_str());
            let (h0, hx_) = (format!("{}.{purpose}.", b.ver), format!("{}x.{purpose}.", b.ver));
            let _ = unseal_counting(b.name, purpose, false, &key, plain, &a);
            let _ = unseal_counting_x(b.name, purpose, &key, sfx, &a);
            let as_x = format!("{hx_}{}", plain.get(h0.len()..).unwrap_or(""));
            let as_0 = format!("{h0}{}", sfx.get(hx_.len()..).unwrap_or(""));
            for (what, obs) in [("a plain token relabelled to the suffixed payload type", unseal_counting_x(b.name, purpose, &key, &as_x, &a)), ("a suffixed token relabelled to the plain payload type", unseal_counting(b.name, purpose, false, &key, &as_0, &a))] {
                rep.evaluations += 1;
                if obs.0 == "ok" || obs.1 != 0 || obs.2 != 0 {
                    rep.violation(&format!("c12.{}.{purpose}.ran-on-unauthenticated", b.name), format!("{} {purpose}: {what} gave {} with {} decoder call(s) and {} validator call(s)", b.name, obs.0, obs.1, obs.2), v["replay"].clone());
                }
            }
            rep.finish(ctx.out.as_deref());
            return;
        }
        let f = Fault { kind: "replay", detail: r["detail"].as_str().unwrap_or("").into(), backend: bi, purpose, key: hx("key"), payload: hx("payload"), footer: hx("footer"), aad: hx("aad"), text: r["text"].as_str().or(r["token"].as_str()).map(|s| s.to_string()) };
        check_fault(&bs, &f, &mut rep);
        rep.finish(ctx.out.as_deref());
        return;
    }
    let mut g = SplitMix64::new(ctx.seed ^ 0xC12);
    let thorough = ctx.thorough();
    let sizes: Vec<usize> = if thorough { vec![0, 1, 17, 64] } else { vec![0, 17] };
    for (bi, b) in bs.iter().enumerate() {
        let kps = tok::keypairs(b, &mut g, 1);
        for purpose in ["local", "public"] {
            for &size in &sizes {
                for (with_footer, with_aad) in [(false, false), (true, b.aad)] {
                    let msg = content(&mut g, size);
                    let footer = if with_footer { b"ft".to_vec() } else { vec![] };
                    let aad = if with_aad { b"ia".to_vec() } else { vec![] };
                    let (key, tokstr) = if purpose == "local" {
                        let key = g.bytes(32);
                        (key.clone(), (b.local_encrypt)(&key, &msg, &footer, &aad, SealVia::Seal))
                    } else {
                        let kp = &kps[0];
                        (kp.pk.clone(), (b.public_sign)(&kp.sk, &msg, &footer, &aad, SealVia::Seal))
                    };
                    let tokstr = match tokstr {
                        Ok(t) => t,
                        Err(_) => continue,
                    };
                    // positive control: decoder and validator run exactly once on the authentic token
                    let ok = unseal_counting(b.name, purpose, false, &key, &tokstr, &aad);
                    rep.evaluations += 1;
                    if ok != ("ok".to_string(), 1, 1) {
                        rep.disagreement(&format!("c12.{}.{}.control", b.name, purpose), format!("authentic token: observed {:?}, expected (ok, 1 decode, 1 validate)", ok), json!({"token": tokstr}));
                        continue;
                    }
                    let st = unseal_counting(b.name, purpose, true, &key, &tokstr, &aad);
                    if st != ("PayloadError".to_string(), 1, 0) {
                        rep.disagreement(&format!("c12.{}.{}.control", b.name, purpose), format!("authentic token, refusing payload type: observed {:?}, expected (PayloadError, 1 decode, 0 validate)", st), json!({"token": tokstr}));
                    }
                    let (payload, ft) = lab::token_parts(&tokstr).expect("token shape");
                    let t = Tok { purpose, key: key.clone(), payload, footer: ft, aad, m: msg };
                    if rep.samples.len() < 4 {
                        rep.sample(json!({"backend": b.name, "purpose": purpose, "token": tokstr, "control": "decoder x1, validator x1"}));
                    }
                    let others: Vec<Vec<u8>> = if purpose == "local" { vec![g.bytes(32)] } else { kps.iter().skip(1).map(|k| k.pk.clone()).collect() };
                    // a token whose footer BYTES differ but decode to the same typed footer is not the token that was
                    // sealed: read through a typed footer it must fail authentication (if it is accepted, the
                    // decoder and the validator ran on it)
                    if !t.footer.is_empty() && t.footer.last() != Some(&b' ') {
                        let mut f2 = t.footer.clone();
                        f2.push(b' ');
                        let alias = lab::token_string(b.ver, purpose, &t.payload, &f2);
                        rep.evaluations += 1;
                        if let Ok((m2, _)) = (b.unseal_typed_footer)(purpose == "local", &t.key, &alias, &t.aad) {
                            rep.violation(&format!("c12.{}.{}.ran-on-unauthenticated", b.name, purpose), format!("{} {}: a token whose footer bytes were changed (one space appended; the typed footer decodes to the same value) was accepted: the payload decoder returned {} bytes", b.name, purpose, m2.len()), json!({"backend": b.name, "purpose": purpose, "token": alias, "key": hex::encode(&t.key), "aad": hex::encode(&t.aad), "fault": "typed-footer-alias"}));
                        }
                    }
                    let fs = faults(&bs, bi, &t, &others, &mut g, false);
                    let rsa = b.name == "v1" && purpose == "public";
                    let stride = if thorough { 1 } else if rsa { 16 } else { 3 };
                    for (i, f) in fs.iter().enumerate() {
                        if f.kind == "bitflip-payload" && i % stride != 0 {
                            continue;
                        }
                        check_fault(&bs, f, &mut rep);
                        if rep.violations.len() >= 30 {
                            break;
                        }
                    }
                }
            }
        }
    }
    // footer and assertion of every length 1..=140 with the first / last byte changed (a fixed-capacity buffer for the
    // authenticated data that drops the last byte of a piece of one particular length), and relabelling between a plain
    // and a suffixed payload type in both directions AFTER both types have been used in the process (a header cached
    // from the first use)
    {
        let mut g = SplitMix64::new(ctx.seed ^ 0xF007C12);
        for (bi, b) in bs.iter().enumerate() {
            let kps = tok::keypairs(b, &mut g, 1);
            for purpose in ["local", "public"] {
                let step = if b.name == "v1" && purpose == "public" && !thorough { 5 } else { 1 };
                let lk = g.bytes(32);
                let (sealk, unsealk) = if purpose == "local" { (lk.clone(), lk.clone()) } else { (kps[0].sk.clone(), kps[0].pk.clone()) };
                for which in ["footer", "assertion"] {
                    if which == "assertion" && !b.aad {
                        continue;
                    }
                    for len in (1..=140usize).step_by(step).chain([255usize, 256, 257]) {
                        let swept = content(&mut g, len);
                        let (footer, a): (Vec<u8>, Vec<u8>) = if which == "footer" { (swept.clone(), if b.aad { b"ia".to_vec() } else { vec![] }) } else { (b"f".to_vec(), swept.clone()) };
                        let tokstr = if purpose == "local" { (b.local_encrypt)(&sealk, b"7 bytes", &footer, &a, SealVia::Seal) } else { (b.public_sign)(&sealk, b"7 bytes", &footer, &a, SealVia::Seal) };
                        let Ok(tokstr) = tokstr else { continue };
                        let Some((payload, ft)) = lab::token_parts(&tokstr) else { continue };
                        for pos in [len - 1, 0] {
                            let (mut f2, mut a2) = (ft.clone(), a.clone());
                            if which == "footer" { f2[pos] ^= 1 } else { a2[pos] ^= 1 };
                            let f = Fault { kind: "piece-length-sweep", detail: format!("byte {pos} of a {len}-byte {which}"), backend: bi, purpose: if purpose == "local" { "local" } else { "public" }, key: unsealk.clone(), payload: payload.clone(), footer: f2, aad: a2, text: None };
                            check_fault(&bs, &f, &mut rep);
                        }
                        if rep.violations.len() >= 30 {
                            break;
                        }
                    }
                }
                // relabel between payload types
                let a: Vec<u8> = if b.aad { b"ia".to_vec() } else { vec![] };
                let plain = if purpose == "local" { (b.local_encrypt)(&sealk, b"plain", b"f", &a, SealVia::Seal) } else { (b.public_sign)(&sealk, b"plain", b"f", &a, SealVia::Seal) };
                let sfx = (b.seal_x)(purpose, &sealk, b"suffixed", b"f", &a);
                if let (Ok(plain), Ok(sfx)) = (plain, sfx) {
                    let (h0, hx) = (format!("{}.{purpose}.", b.ver), format!("{}x.{purpose}.", b.ver));
                    // both types used once, legitimately
                    let ok0 = unseal_counting(b.name, purpose, false, &unsealk, &plain, &a);
                    let okx = unseal_counting_x(b.name, purpose, &unsealk, &sfx, &a);
                    rep.evaluations += 4;
                    if ok0.0 != "ok" || okx.0 != "ok" {
                        rep.notes.push(format!("{} {purpose}: control unseal of the plain / suffixed token gave {} / {}", b.name, ok0.0, okx.0));
                    }
                    // the plain token offered as the suffixed type and vice versa
                    let as_x = format!("{hx}{}", &plain[h0.len()..]);
                    let as_0 = format!("{h0}{}", &sfx[hx.len()..]);
                    for (what, obs) in [("a plain token relabelled to the suffixed payload type", unseal_counting_x(b.name, purpose, &unsealk, &as_x, &a)), ("a suffixed token relabelled to the plain payload type", unseal_counting(b.name, purpose, false, &unsealk, &as_0, &a))] {
                        if obs.0 == "ok" || obs.1 != 0 || obs.2 != 0 {
                            rep.violation(&format!("c12.{}.{purpose}.ran-on-unauthenticated", b.name), format!("{} {purpose}: {what} gave {} with {} decoder call(s) and {} validator call(s)", b.name, obs.0, obs.1, obs.2), json!({"backend": b.name, "purpose": purpose, "fault": "payload-type-relabel", "seal_key": hex::encode(&sealk), "key": hex::encode(&unsealk), "plain": plain, "suffixed": sfx, "aad": hex::encode(&a)}));
                        } else {
                            rep.nontrivial(format!("{}|{purpose}|payload-type-relabel", b.name));
                        }
                    }
                }
            }
        }
    }
    rep.notes.sort();
    rep.notes.dedup();
    rep.finish(ctx.out.as_deref());
}
