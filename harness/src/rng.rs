//! Deterministic PRNG for case generation, and the getrandom "custom" backend
//! (selected by --cfg getrandom_backend="custom") that lets a case script, record or fail
//! the library's own randomness without touching /repo.
use std::cell::RefCell;
use std::io::Read;

#[derive(Clone)]
pub struct SplitMix64(pub u64);

impl SplitMix64 {
    pub fn new(seed: u64) -> Self {
        SplitMix64(seed)
    }
    pub fn next(&mut self) -> u64 {
        self.0 = self.0.wrapping_add(0x9E3779B97F4A7C15);
        let mut z = self.0;
        z = (z ^ (z >> 30)).wrapping_mul(0xBF58476D1CE4E5B9);
        z = (z ^ (z >> 27)).wrapping_mul(0x94D049BB133111EB);
        z ^ (z >> 31)
    }
    pub fn below(&mut self, n: u64) -> u64 {
        if n == 0 { 0 } else { self.next() % n }
    }
    pub fn pick<'a, T>(&mut self, v: &'a [T]) -> &'a T {
        &v[self.below(v.len() as u64) as usize]
    }
    pub fn bytes(&mut self, len: usize) -> Vec<u8> {
        let mut v = Vec::with_capacity(len);
        while v.len() < len {
            let w = self.next().to_le_bytes();
            let k = (len - v.len()).min(8);
            v.extend_from_slice(&w[..k]);
        }
        v
    }
    pub fn chance(&mut self, num: u64, den: u64) -> bool {
        self.below(den) < num
    }
    pub fn fork(&mut self) -> SplitMix64 {
        SplitMix64(self.next())
    }
}

/// How the library's RNG behaves for the current thread.
pub enum Mode {
    /// forward to the operating system
    Os,
    /// serve bytes from a deterministic stream; optionally fail at the k-th call (0-based)
    Script { prng: SplitMix64, fixed: Option<u8>, fail_at: Option<usize> },
    /// serve bytes from a deterministic stream until the k-th call, fail at it and at every later call
    FailFrom { prng: SplitMix64, from: usize },
    /// serve exactly these bytes (front first); fail when exhausted
    Exact { data: Vec<u8>, pos: usize },
}

pub struct RngState {
    pub mode: Mode,
    /// (requested length, served?) for every call since the last reset
    pub calls: Vec<(usize, bool)>,
    /// all bytes served since the last reset
    pub served: Vec<u8>,
}

thread_local! {
    pub static RNG: RefCell<RngState> = RefCell::new(RngState { mode: Mode::Os, calls: vec![], served: vec![] });
}

pub fn set_mode(mode: Mode) {
    RNG.with(|r| {
        let mut r = r.borrow_mut();
        r.mode = mode;
        r.calls.clear();
        r.served.clear();
    });
}

pub fn take_log() -> (Vec<(usize, bool)>, Vec<u8>) {
    RNG.with(|r| {
        let mut r = r.borrow_mut();
        r.mode = Mode::Os;
        (std::mem::take(&mut r.calls), std::mem::take(&mut r.served))
    })
}

pub fn os_fill(dest: &mut [u8]) {
    thread_local! {
        static F: RefCell<std::fs::File> = RefCell::new(std::fs::File::open("/dev/urandom").expect("urandom"));
    }
    F.with(|f| f.borrow_mut().read_exact(dest).expect("urandom read"));
}

#[unsafe(no_mangle)]
unsafe extern "Rust" fn __getrandom_v03_custom(dest: *mut u8, len: usize) -> Result<(), getrandom::Error> {
    let buf = unsafe { std::slice::from_raw_parts_mut(dest, len) };
    RNG.with(|r| {
        let mut r = r.borrow_mut();
        let idx = r.calls.len();
        // an operation that keeps drawing from a dead or scripted source for ever (a retry loop that swallows the
        // failure) must not hang the check: after this many consecutive failed / scripted calls the source panics,
        // which the byte-level API reports as "panic"
        if !matches!(r.mode, Mode::Os) && idx > 20_000 {
            drop(r);
            panic!("the random source was called more than 20000 times by one operation");
        }
        let ok = match &mut r.mode {
            Mode::Os => {
                os_fill(buf);
                true
            }
            Mode::Script { prng, fixed, fail_at } => {
                if *fail_at == Some(idx) {
                    false
                } else {
                    match fixed {
                        Some(b) => buf.fill(*b),
                        None => buf.copy_from_slice(&prng.bytes(len)),
                    }
                    true
                }
            }
            Mode::FailFrom { prng, from } => {
                if idx >= *from {
                    false
                } else {
                    buf.copy_from_slice(&prng.bytes(len));
                    true
                }
            }
            Mode::Exact { data, pos } => {
                if *pos + len <= data.len() {
                    buf.copy_from_slice(&data[*pos..*pos + len]);
                    *pos += len;
                    true
                } else {
                    false
                }
            }
        };
        r.calls.push((len, ok));
        if ok {
            r.served.extend_from_slice(buf);
            Ok(())
        } else {
            Err(getrandom::Error::UNEXPECTED)
        }
    })
}
