//! Rendering of case inputs/outputs as Gallina terms for the in-kernel cross-check (cases.v).
pub fn gb(b: &[u8]) -> String {
    format!("hex \"{}\"", hex::encode(b))
}
pub fn glist(items: Vec<String>) -> String {
    format!("[{}]", items.join("; "))
}
pub fn gbl(items: &[Vec<u8>]) -> String {
    glist(items.iter().map(|b| gb(b)).collect())
}
pub fn gopt(v: Option<String>) -> String {
    match v {
        Some(s) => format!("Some ({s})"),
        None => "None".into(),
    }
}
pub fn gnat(v: usize) -> String {
    format!("{v}%nat")
}
pub fn gn(v: u128) -> String {
    format!("{v}%N")
}
