//! Handle on one `modelrun` process (the extracted Gallina model).
use crate::sexp::Sexp;
use std::io::{BufRead, BufReader, Write};
use std::process::{Child, ChildStdin, ChildStdout, Command, Stdio};

pub struct Model {
    child: Child,
    stdin: ChildStdin,
    stdout: BufReader<ChildStdout>,
    pub calls: u64,
}

impl Model {
    pub fn spawn(path: &str) -> Model {
        // the extracted code recurses on unary nat / lists: give it a large stack
        let mut child = Command::new("sh")
            .arg("-c")
            .arg(format!("ulimit -s unlimited 2>/dev/null || ulimit -s 1000000 2>/dev/null; exec {path}"))
            .stdin(Stdio::piped())
            .stdout(Stdio::piped())
            .spawn()
            .unwrap_or_else(|e| panic!("cannot start model {path}: {e}"));
        let stdin = child.stdin.take().unwrap();
        let stdout = BufReader::new(child.stdout.take().unwrap());
        Model { child, stdin, stdout, calls: 0 }
    }

    /// Evaluate one case; primitive calls made by the model are answered by `prims`.
    pub fn eval(&mut self, case: &Sexp, prims: &mut dyn FnMut(&str, &[Sexp]) -> Sexp) -> Sexp {
        let mut line = case.to_text();
        line.push('\n');
        self.stdin.write_all(line.as_bytes()).expect("model stdin");
        self.stdin.flush().expect("flush");
        loop {
            let mut resp = String::new();
            let k = self.stdout.read_line(&mut resp).expect("model stdout");
            if k == 0 {
                return Sexp::L(vec![Sexp::S("driver-error".into()), Sexp::S("model-died".into())]);
            }
            let resp = resp.trim_end();
            if let Some(r) = resp.strip_prefix("RESULT ") {
                return Sexp::parse(r).unwrap_or_else(|e| panic!("bad model result {r}: {e}"));
            } else if let Some(c) = resp.strip_prefix("CALL ") {
                self.calls += 1;
                let c = Sexp::parse(c).unwrap_or_else(|e| panic!("bad model call {c}: {e}"));
                let items = c.list();
                let ans = prims(items[0].sym(), &items[1..]);
                let mut t = ans.to_text();
                t.push('\n');
                self.stdin.write_all(t.as_bytes()).expect("model stdin");
                self.stdin.flush().expect("flush");
            } else {
                panic!("unexpected model output: {resp}");
            }
        }
    }

    pub fn eval_pure(&mut self, case: &Sexp) -> Sexp {
        self.eval(case, &mut |name, _| panic!("pure case called primitive {name}"))
    }
}

impl Drop for Model {
    fn drop(&mut self) {
        let _ = self.child.kill();
        let _ = self.child.wait();
    }
}
