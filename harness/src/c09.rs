//! C09 — text encodings strict and canonical: real FromStr/Display/serde of every text type at every
//! backend vs the extracted model vs an independent strict base64url reference.
use crate::impls::{self, Family, TextOutcome, TextType};
use crate::model::Model;
use crate::report::Report;
use crate::rng::SplitMix64;
use crate::sexp::{self, Sexp};
use crate::Ctx;
use serde_json::json;
use std::collections::HashMap;

const ALPHA: &[u8; 64] = b"ABCDEFGHIJKLMNOPQRSTUVWXYZabcdefghijklmnopqrstuvwxyz0123456789-_";

/// independent reference: strict, unpadded, canonical base64url (RFC 4648 §5 / §3.5)
pub fn ref_decode(s: &str) -> Option<Vec<u8>> {
    let mut vals = Vec::with_capacity(s.len());
    for c in s.bytes() {
        vals.push(ALPHA.iter().position(|&a| a == c)? as u32);
    }
    if vals.len() % 4 == 1 {
        return None;
    }
    let mut out = Vec::new();
    for ch in vals.chunks(4) {
        let mut acc = 0u32;
        for (i, v) in ch.iter().enumerate() {
            acc |= v << (18 - 6 * i);
        }
        let nb = match ch.len() {
            4 => 3,
            3 => 2,
            2 => 1,
            _ => return None,
        };
        let bytes = [(acc >> 16) as u8, (acc >> 8) as u8, acc as u8];
        out.extend_from_slice(&bytes[..nb]);
        // canonical: unused trailing bits are zero
        let used_bits = 8 * nb as u32;
        let total_bits = 6 * ch.len() as u32;
        let spare = total_bits - used_bits;
        if spare > 0 && (acc >> (24 - total_bits)) & ((1 << spare) - 1) != 0 {
            return None;
        }
    }
    Some(out)
}

pub fn ref_encode(b: &[u8]) -> String {
    let mut o = String::new();
    for ch in b.chunks(3) {
        let mut acc = 0u32;
        for (i, v) in ch.iter().enumerate() {
            acc |= (*v as u32) << (16 - 8 * i);
        }
        let nc = ch.len() + 1;
        for i in 0..nc {
            o.push(ALPHA[((acc >> (18 - 6 * i)) & 63) as usize] as char);
        }
    }
    o
}

/// what the statement prescribes for one text type on one input string, from the reference decoder
fn reference(tt: &TextType, s: &str) -> Result<String, ()> {
    let rest = s.strip_prefix(tt.ver).ok_or(())?.strip_prefix(tt.hdr).ok_or(())?;
    match tt.family {
        Family::Paserk => ref_decode(rest).map(|b| format!("{}{}{}", tt.ver, tt.hdr, ref_encode(&b))).ok_or(()),
        Family::KeyId => {
            let b = ref_decode(rest).ok_or(())?;
            if b.len() != 33 {
                return Err(());
            }
            Ok(format!("{}{}{}", tt.ver, tt.hdr, ref_encode(&b)))
        }
        Family::TokenVec | Family::TokenUnit => {
            let (p, f) = match rest.split_once('.') {
                Some((p, f)) => (p, Some(f)),
                None => (rest, None),
            };
            let pb = ref_decode(p).ok_or(())?;
            let fb = match f {
                Some(f) => ref_decode(f).ok_or(())?,
                None => vec![],
            };
            if tt.family == Family::TokenUnit && !fb.is_empty() {
                return Err(());
            }
            let mut o = format!("{}{}{}", tt.ver, tt.hdr, ref_encode(&pb));
            if !fb.is_empty() {
                o.push('.');
                o.push_str(&ref_encode(&fb));
            }
            Ok(o)
        }
    }
}

fn model_case(tt: &TextType, s: &str) -> Sexp {
    match tt.family {
        Family::Paserk => sexp::op("parse_paserk", vec![sexp::x(tt.ver.as_bytes()), sexp::x(tt.hdr.as_bytes()), sexp::x(s.as_bytes())]),
        Family::KeyId => sexp::op("parse_keyid", vec![sexp::x(tt.ver.as_bytes()), sexp::x(tt.hdr.as_bytes()), sexp::x(s.as_bytes())]),
        Family::TokenVec => sexp::op("parse_token", vec![sexp::s("vec"), sexp::x(tt.ver.as_bytes()), sexp::x(b""), sexp::x(tt.hdr.as_bytes()), sexp::x(s.as_bytes())]),
        Family::TokenUnit => sexp::op("parse_token", vec![sexp::s("unit"), sexp::x(tt.ver.as_bytes()), sexp::x(b""), sexp::x(tt.hdr.as_bytes()), sexp::x(s.as_bytes())]),
    }
}

/// model outcome in the same shape as the implementation's: Ok(re-serialisation) / Err(kind), raw bytes
fn model_outcome(model: &mut Model, tt: &TextType, s: &str) -> (Result<String, String>, Option<Vec<u8>>, String, String) {
    let case = model_case(tt, s);
    let r = model.eval_pure(&case);
    let items = r.list();
    let out = match items[0].sym() {
        "ok" => match tt.family {
            Family::Paserk | Family::KeyId => {
                let data = items[1].bytes().to_vec();
                let p = model.eval_pure(&sexp::op("print_paserk", vec![sexp::x(tt.ver.as_bytes()), sexp::x(tt.hdr.as_bytes()), sexp::x(&data)]));
                (Ok(String::from_utf8(p.bytes().to_vec()).unwrap()), Some(data))
            }
            Family::TokenVec | Family::TokenUnit => {
                let t = items[1].list();
                let (pl, f) = (t[0].bytes().to_vec(), t[1].bytes().to_vec());
                let p = model.eval_pure(&sexp::op("print_token", vec![sexp::x(tt.ver.as_bytes()), sexp::x(b""), sexp::x(tt.hdr.as_bytes()), sexp::x(&pl), sexp::x(&f)]));
                (Ok(String::from_utf8(p.bytes().to_vec()).unwrap()), Some(f))
            }
        },
        "err" => (Err(items[1].sym().to_string()), None),
        "panic" => (Err("panic".to_string()), None),
        other => (Err(format!("driver:{other}")), None),
    };
    (out.0, out.1, case.to_text(), r.to_text())
}

struct Runner<'a> {
    rep: Report,
    model: Model,
    types: &'a [TextType],
    by_value: HashMap<(usize, String), String>,
    n: u64,
    seq: u64,
    shard: u64,
    nshards: u64,
}

impl<'a> Runner<'a> {
    fn one(&mut self, ti: usize, s: &str, origin: &str) {
        self.seq += 1;
        if self.seq % self.nshards != self.shard {
            return;
        }
        let tt = &self.types[ti];
        self.rep.evaluations += 1;
        self.n += 1;
        self.rep.count(&format!("origin:{origin}"));
        let io: TextOutcome = (tt.probe)(s);
        let replay = json!({"op":"text","backend":tt.backend,"kind":tt.kind,"input_hex":hex::encode(s.as_bytes())});
        // ---- P(I): direct reading of the statement
        let want = reference(tt, s);
        match (&io.res, &want) {
            (Ok(text), Ok(w)) => {
                self.rep.count("accepted");
                let alias = tt.family != Family::Paserk && tt.family != Family::KeyId && s == format!("{text}.");
                if text != s && !alias {
                    self.rep.violation("text.noncanonical-accepted", format!("{} {}: accepted string re-serialises differently: {:?} -> {:?}", tt.backend, tt.kind, s, text), replay.clone());
                } else if text != w {
                    self.rep.violation("text.wrong-value", format!("{} {}: accepted {:?} but re-serialises to {:?}, reference says {:?}", tt.backend, tt.kind, s, text, w), replay.clone());
                }
                // no two different accepted strings carry the same value (except token + ".")
                let key = (ti, text.clone());
                if let Some(prev) = self.by_value.get(&key) {
                    let ok_alias = *prev == format!("{s}.") || s == format!("{prev}.");
                    if prev != s && !ok_alias {
                        self.rep.violation("text.two-strings-one-value", format!("{} {}: {:?} and {:?} carry the same value", tt.backend, tt.kind, prev, s), replay.clone());
                    }
                } else if self.by_value.len() < 400_000 {
                    self.by_value.insert(key, s.to_string());
                }
                if !io.serde_ok {
                    self.rep.violation("text.serde", format!("{} {}: serde form of {:?} is not its Display string / does not parse back", tt.backend, tt.kind, s), replay.clone());
                }
                if s.len() > tt.ver.len() + tt.hdr.len() {
                    self.rep.nontrivial(format!("{}|{}|acc|{}", tt.kind, origin, s.len().min(40)));
                }
            }
            (Ok(text), Err(())) => {
                self.rep.violation("text.should-reject", format!("{} {}: accepted {:?} (as {:?}) which the strict encoding rejects", tt.backend, tt.kind, s, text), replay.clone());
            }
            (Err(e), Ok(w)) => {
                self.rep.violation("text.should-accept", format!("{} {}: rejected ({}) the canonical string {:?} (value {:?})", tt.backend, tt.kind, e, s, w), replay.clone());
            }
            (Err(e), Err(())) => {
                self.rep.count(&format!("rejected:{e}"));
                if e == "panic" {
                    self.rep.violation("text.panic", format!("{} {}: parser panicked on {:?}", tt.backend, tt.kind, s), replay.clone());
                }
                if !io.serde_ok {
                    self.rep.violation("text.serde", format!("{} {}: serde accepts {:?} which FromStr rejects", tt.backend, tt.kind, s), replay.clone());
                }
                self.rep.nontrivial(format!("{}|{}|rej:{}|{}", tt.kind, origin, e, s.len().min(40)));
            }
        }
        // ---- M vs I
        let (mres, mraw, mcase, mtext) = model_outcome(&mut self.model, tt, s);
        self.rep.model_evaluations += 1;
        let raw_same = match (&io.raw, &mraw) {
            (Some(a), Some(b)) => a == b,
            _ => true,
        };
        if mres != io.res || !raw_same {
            self.rep.disagreement("text.model-vs-impl", format!("{} {} on {:?}: impl {:?} model {:?}", tt.backend, tt.kind, s, io.res, mres), replay.clone());
        }
        if self.n % 2003 == 0 {
            self.rep.sample(json!({"backend":tt.backend,"kind":tt.kind,"input":s,"impl":format!("{:?}", io.res),"model":format!("{:?}", mres)}));
        }
        if self.n % 811 == 0 && self.rep.kernel_cases.len() < 5 && s.len() < 200 {
            // kernel re-evaluation of the model's parse
            let g = |b: &[u8]| crate::gallina::gb(b);
            let (lhs, rhs) = match tt.family {
                Family::Paserk => (format!("parse_paserk ({}) ({}) ({})", g(tt.ver.as_bytes()), g(tt.hdr.as_bytes()), g(s.as_bytes())), gres_bytes(&mtext)),
                Family::KeyId => (format!("parse_keyid ({}) ({}) ({})", g(tt.ver.as_bytes()), g(tt.hdr.as_bytes()), g(s.as_bytes())), gres_bytes(&mtext)),
                _ => (String::new(), String::new()),
            };
            if !lhs.is_empty() {
                self.rep.kernel_cases.push((lhs, rhs));
            }
            let _ = mcase;
        }
    }
}

/// render a model result "(sok x..)" / "(serr sKind)" as a Gallina term of type result bytes
fn gres_bytes(mtext: &str) -> String {
    let r = Sexp::parse(mtext).unwrap();
    let it = r.list();
    match it[0].sym() {
        "ok" => format!("Ok ({})", crate::gallina::gb(it[1].bytes())),
        "err" => format!("Err {}", it[1].sym()),
        _ => "Panic \"\"".to_string(),
    }
}

pub fn run(ctx: &Ctx) {
    let nshards: u64 = if ctx.replay.is_some() { 1 } else { 14 };
    let mut total = Report::new("C09", &ctx.tier, ctx.seed);
    let reports: Vec<Report> = std::thread::scope(|sc| {
        let hs: Vec<_> = (0..nshards).map(|sh| sc.spawn(move || run_shard(ctx, sh, nshards))).collect();
        hs.into_iter().map(|h| h.join().expect("shard")).collect()
    });
    for r in reports {
        if total.rule.is_empty() {
            total.rule = r.rule.clone();
        }
        total.merge(r);
    }
    total.finish(ctx.out.as_deref());
}

fn run_shard(ctx: &Ctx, shard: u64, nshards: u64) -> Report {
    let mut rep = Report::new("C09", &ctx.tier, ctx.seed);
    rep.rule = "inputs: (a) every string of 0..2 characters over 128 ASCII + 3 multi-byte code points, and every 3-character string over the 64-letter alphabet + 10 special characters, as the base64 segment of a key text; (b) after 0..2 whole blocks, every tail of length 1..4 with every character at the last two positions over all 131 characters; (c) canonical encodings of byte strings of length 0..300 and their single-character substitutions / padding / extra segments, through every text type (19 per backend) of every backend; serde form checked on each; (d) the typed keys Key<V, K> of every kind and backend on valid key texts and on strings with bytes appended, prepended, removed or repeated, white space and dots: whatever is accepted must re-serialise to itself. non-trivial = input longer than its header; distinct = distinct (text kind, generator, outcome class, length bucket)".into();
    let types = impls::text_types();
    let mut r = Runner { rep, model: Model::spawn(&ctx.model), types: &types, by_value: HashMap::new(), n: 0, seq: 0, shard, nshards };
    let find = |b: &str, k: &str| types.iter().position(|t| t.backend == b && t.kind == k).unwrap();

    if let Some(path) = &ctx.replay {
        let v: serde_json::Value = serde_json::from_str(&std::fs::read_to_string(path).unwrap()).unwrap();
        let rp = &v["replay"];
        let ti = find(rp["backend"].as_str().unwrap(), rp["kind"].as_str().unwrap());
        let s = String::from_utf8(hex::decode(rp["input_hex"].as_str().unwrap()).unwrap()).unwrap();
        r.one(ti, &s, "replay");
        return r.rep;
    }

    let mut g = SplitMix64::new(ctx.seed ^ 0xC09);
    let kt = find("paseto-v4", "key.local");
    let pre = format!("{}{}", types[kt].ver, types[kt].hdr);
    // (a) exhaustive short strings
    let mut chars: Vec<char> = (0u8..128).map(|c| c as char).collect();
    chars.extend(['\u{e9}', '\u{20ac}', '\u{1f600}']);
    r.one(kt, &pre, "exh-short");
    for &a in &chars {
        r.one(kt, &format!("{pre}{a}"), "exh-short");
        for &b in &chars {
            r.one(kt, &format!("{pre}{a}{b}"), "exh-short");
        }
    }
    let mut small: Vec<char> = ALPHA.iter().map(|&c| c as char).collect();
    small.extend(['=', '+', '/', '.', ' ', '\n', '\0', '~', '\u{e9}', '@']);
    let step3 = if ctx.thorough() { 1 } else { 3 };
    let mut k = (ctx.seed % 3) as usize;
    for &a in &small {
        for &b in &small {
            for &c in &small {
                k += 1;
                if k % step3 == 0 {
                    r.one(kt, &format!("{pre}{a}{b}{c}"), "exh-3");
                }
            }
        }
    }
    // (b) tails after whole blocks
    for blocks in 0..=2usize {
        let head: String = (0..blocks * 4).map(|_| ALPHA[g.below(64) as usize] as char).collect();
        for tl in 1..=4usize {
            for &a in &chars {
                for &b in if tl >= 2 { &chars[..] } else { &chars[..1] } {
                    let mut s = format!("{pre}{head}");
                    for _ in 0..tl.saturating_sub(2) {
                        s.push(ALPHA[g.below(64) as usize] as char);
                    }
                    if tl >= 2 {
                        s.push(b);
                    }
                    s.push(a);
                    if ctx.thorough() || g.chance(1, 4) || tl <= 2 {
                        r.one(kt, &s, "tail");
                    }
                }
            }
        }
    }
    // (c) every text type of every backend: canonical encodings and mutations
    let per_type = if ctx.thorough() { 400 } else { 40 };
    for ti in 0..types.len() {
        let (ver, hdr, fam) = (types[ti].ver, types[ti].hdr, types[ti].family);
        for j in 0..per_type {
            let len = match j % 8 {
                0 => 0,
                1 => 1,
                2 => 2,
                3 => 32,
                4 => 33,
                5 => 34,
                6 => g.below(301) as usize,
                _ => g.below(100) as usize,
            };
            let len = if fam == Family::KeyId && j % 2 == 0 { 33 } else { len };
            let data = g.bytes(len);
            let mut s = format!("{ver}{hdr}{}", ref_encode(&data));
            if matches!(fam, Family::TokenVec | Family::TokenUnit) && j % 3 != 0 {
                let fl = g.below(20) as usize;
                s.push('.');
                s.push_str(&ref_encode(&g.bytes(fl)));
            }
            r.one(ti, &s, "valid");
            // mutations
            let body_start = ver.len() + hdr.len();
            let sb: Vec<char> = s.chars().collect();
            for m in 0..11 {
                let mut t = sb.clone();
                let origin = match m {
                    8 if body_start > 1 => {
                        // one character of the header removed (a truncated kind or version)
                        let i = g.below(body_start as u64) as usize;
                        t.remove(i.min(t.len() - 1));
                        "mut-header-char-removed"
                    }
                    9 => {
                        // a dot of the header doubled
                        if let Some(i) = t.iter().take(body_start).rposition(|c| *c == '.') {
                            t.insert(i, '.');
                        }
                        "mut-header-dot-doubled"
                    }
                    10 => {
                        // the whole kind removed: version, then the data
                        let vlen = ver.len();
                        t.drain(vlen..body_start.saturating_sub(1).max(vlen));
                        "mut-kind-removed"
                    }
                    0 => {
                        t.push('=');
                        "mut-pad"
                    }
                    1 => {
                        t.push('.');
                        "mut-trailing-dot"
                    }
                    2 => {
                        t.extend(".AA".chars());
                        "mut-extra-segment"
                    }
                    3 if t.len() > body_start => {
                        let i = t.len() - 1;
                        t[i] = ALPHA[g.below(64) as usize] as char;
                        "mut-last-char"
                    }
                    4 if t.len() > body_start => {
                        let i = body_start + g.below((t.len() - body_start) as u64) as usize;
                        t[i] = *g.pick(&['+', '/', ' ', '=', '\u{e9}', '.', '-', '_', 'A']);
                        "mut-foreign-char"
                    }
                    5 => {
                        t.truncate(t.len().saturating_sub(1));
                        "mut-truncate"
                    }
                    6 => {
                        let i = g.below(body_start as u64 + 1) as usize;
                        if i < t.len() {
                            t[i] = if t[i] == 'k' { 'v' } else { 'k' };
                        }
                        "mut-header"
                    }
                    7 => {
                        t.insert(body_start.min(t.len()), ' ');
                        "mut-space"
                    }
                    _ => "mut-none",
                };
                let ts: String = t.into_iter().collect();
                r.one(ti, &ts, origin);
            }
        }
    }
    // (d) the typed keys (Key<V, K>: FromStr and Display through KeyText plus the backend's decoder): whatever string is
    //     accepted re-serialises to itself.  Valid key texts of every kind and, from each, strings that a decoder reading
    //     only a prefix, ignoring a tail or normalising its input would also accept.
    if shard == 0 {
        let bs = crate::lab::backends();
        for b in &bs {
            let kps = crate::tok::keypairs(b, &mut g, 2);
            let mut valid: Vec<(&'static str, String)> = vec![];
            for _ in 0..2 {
                if let Ok(t) = (b.key_text)("local", &g.bytes(32)) {
                    valid.push(("local", t));
                }
            }
            for kp in kps.iter().take(if b.name == "v1" { 1 } else { 2 }) {
                for (kind, bytes) in [("public", &kp.pk), ("secret", &kp.sk)] {
                    if b.name == "v1" {
                        // v1: the signing kinds take 2048-bit keys; the corpus pair is one
                        if let Ok(t) = (b.key_text)(kind, bytes) {
                            valid.push((kind, t));
                        }
                    } else {
                        for k2 in [kind, if kind == "public" { "pke-public" } else { "pke-secret" }] {
                            if let Ok(t) = (b.key_text)(k2, bytes) {
                                valid.push((k2, t));
                            }
                        }
                    }
                }
            }
            for (kind, text) in &valid {
                let body_at = text.rfind('.').unwrap() + 1;
                let (head, body) = text.split_at(body_at);
                let data = crate::lab::unb64(body).unwrap_or_default();
                let mut cands: Vec<(String, &'static str)> = vec![(text.clone(), "valid")];
                // bytes appended (1..=64 and a long tail), canonical text
                for extra in [1usize, 2, 3, 16, 31, 32, 33, 48, 64, 200] {
                    let mut d = data.clone();
                    d.extend(g.bytes(extra));
                    cands.push((format!("{head}{}", ref_encode(&d)), "bytes-appended"));
                    let mut d = data.clone();
                    d.extend(vec![0u8; extra]);
                    cands.push((format!("{head}{}", ref_encode(&d)), "zeros-appended"));
                    let mut d = vec![0u8; extra];
                    d.extend(&data);
                    cands.push((format!("{head}{}", ref_encode(&d)), "zeros-prepended"));
                    if data.len() > extra {
                        cands.push((format!("{head}{}", ref_encode(&data[..data.len() - extra])), "bytes-removed"));
                        cands.push((format!("{head}{}", ref_encode(&data[extra..])), "bytes-removed-front"));
                    }
                }
                // the key repeated, the text with surrounding white space, a trailing dot, the body doubled
                let mut d = data.clone();
                d.extend(&data);
                cands.push((format!("{head}{}", ref_encode(&d)), "key-twice"));
                cands.push((format!("{text} "), "space-after"));
                cands.push((format!(" {text}"), "space-before"));
                cands.push((format!("{text}\n"), "newline-after"));
                cands.push((format!("{text}."), "dot-after"));
                cands.push((format!("{text}{body}"), "body-twice"));
                for (s, origin) in cands {
                    r.rep.evaluations += 1;
                    r.rep.count(&format!("typed-key.{origin}"));
                    match (b.key_reprint)(kind, &s) {
                        Ok(back) => {
                            r.rep.count("typed-key.accepted");
                            if origin == "valid" {
                                r.rep.nontrivial(format!("typed|{}|{kind}", b.name));
                            }
                            if back != s {
                                r.rep.violation(
                                    &format!("typed-key.{}.{kind}.not-canonical", b.name),
                                    format!("{} Key<{kind}>::from_str accepts a string ({origin}, {} characters) that re-serialises to a different one ({} characters)", b.name, s.len(), back.len()),
                                    json!({"op": "typed-key", "backend": b.name, "kind": kind, "input": s, "reprinted": back}),
                                );
                            }
                        }
                        Err(e) => {
                            r.rep.count(&format!("typed-key.rejected.{e}"));
                            if origin == "valid" {
                                r.rep.violation(&format!("typed-key.{}.{kind}.rejects-own", b.name), format!("{} Key<{kind}>::from_str rejects ({e}) the text it printed", b.name), json!({"op": "typed-key", "backend": b.name, "kind": kind, "input": s}));
                            } else if e == "panic" {
                                r.rep.violation(&format!("typed-key.{}.{kind}.panic", b.name), format!("{} Key<{kind}>::from_str panicked on a {origin} string", b.name), json!({"op": "typed-key", "backend": b.name, "kind": kind, "input": s}));
                            }
                        }
                    }
                }
            }
        }
    }
    r.rep.exhaustive = false;
    r.rep
}
