//! C05 — wrapping, password-wrapping or sealing a key and undoing it returns the same key; fixed lengths.
//! I = real API (wrap_pie / password_wrap[_with_params] / seal and their inverses) on all six backends,
//! M = extracted Paserk.v over the primitive oracle (bit-equal under the scripted RNG), P(I) = round trip + length.
use crate::lab::{self, Backend};
use crate::report::Report;
use crate::rng::{self, Mode, SplitMix64};
use crate::sexp;
use crate::tok::{self, res_bytes, M};
use crate::Ctx;
use serde_json::{json, Value};

pub fn paserk_bytes(s: &str) -> Option<Vec<u8>> {
    lab::unb64(s.rsplit('.').next()?)
}

pub fn pie_header(kind: &str) -> &'static [u8] {
    if kind == "local" { b".local-wrap.pie." } else { b".secret-wrap.pie." }
}
pub fn pw_header(kind: &str) -> &'static [u8] {
    if kind == "local" { b".local-pw." } else { b".secret-pw." }
}

pub fn pie_tag_len(b: &Backend) -> usize {
    if b.ver == "v1" || b.ver == "v3" { 48 } else { 32 }
}
pub fn pw_tag_len(b: &Backend) -> usize {
    pie_tag_len(b)
}

/// cheap PBKW parameter bytes (within every backend's accepted range)
pub fn cheap_params(b: &Backend, g: &mut SplitMix64) -> Vec<u8> {
    if b.pw_param_len == 4 {
        (*g.pick(&[1u32, 2, 3, 1000])).to_be_bytes().to_vec()
    } else {
        // memory in KiB and parallelism: also sizes that are NOT a multiple of 4 x parallelism (Argon2 works on
        // 4 x lanes segments internally but hashes the requested size into its first block) and more than one lane
        // where the backend supports it (libsodium: one lane only)
        let (mem_kib, para): (u64, u32) = if b.name == "v4-sodium" {
            (*g.pick(&[8u64, 9, 10, 11, 13, 16, 37, 64]), 1)
        } else {
            *g.pick(&[(8u64, 1u32), (9, 1), (10, 1), (11, 1), (13, 1), (16, 1), (64, 1), (18, 2), (37, 2), (26, 3), (64, 3)])
        };
        let time: u32 = *g.pick(&[1u32, 2, 3]);
        let mut v = (mem_kib * 1024).to_be_bytes().to_vec();
        v.extend_from_slice(&time.to_be_bytes());
        v.extend_from_slice(&para.to_be_bytes());
        v
    }
}

pub struct Keys {
    /// (kind, key bytes, source)
    pub wrappable: Vec<(&'static str, Vec<u8>, &'static str)>,
    /// recipient key pairs for PKE: (secret key bytes, public key bytes)
    pub recipients: Vec<(Vec<u8>, Vec<u8>, &'static str)>,
}

pub fn keys_for(b: &Backend, g: &mut SplitMix64) -> Keys {
    let mut wrappable: Vec<(&'static str, Vec<u8>, &'static str)> = vec![("local", g.bytes(32), "parsed"), ("local", vec![0u8; 32], "parsed")];
    if let Ok(k) = (b.local_random)() {
        wrappable.push(("local", k, "random()"));
    }
    let kps = tok::keypairs(b, g, 1);
    for kp in kps.iter().take(3) {
        wrappable.push(("secret", kp.sk.clone(), kp.source));
    }
    // keys whose encodings begin / end with white space, NUL or 0xff
    let edge = tok::edge_keypairs(b, g);
    for kp in &edge {
        wrappable.push(("secret", kp.sk.clone(), kp.source));
    }
    for t in tok::EDGE_BYTES {
        let mut k = g.bytes(32);
        k[0] = t;
        k[31] = t;
        wrappable.push(("local", k, "edge-bytes"));
    }
    let mut recipients = vec![];
    if b.ver == "v1" {
        for der in tok::corpus_rsa_keys(4096) {
            use rsa::pkcs1::DecodeRsaPrivateKey;
            use rsa::pkcs8::spki::EncodePublicKey;
            if let Ok(k) = rsa::RsaPrivateKey::from_pkcs1_der(&der) {
                recipients.push((der.clone(), k.to_public_key().to_public_key_der().unwrap().into_vec(), "parsed"));
            }
        }
    } else {
        for kp in kps.iter().chain(edge.iter()) {
            recipients.push((kp.sk.clone(), kp.pk.clone(), kp.source));
        }
    }
    Keys { wrappable, recipients }
}

fn jcase(b: &Backend, op: &str, fields: Value) -> Value {
    let mut v = fields;
    v["backend"] = json!(b.name);
    v["op"] = json!(op);
    v
}

fn script(b: &Backend, seed: u64, fixed: Option<u8>) {
    if b.scripted_rng {
        rng::set_mode(Mode::Script { prng: SplitMix64::new(seed), fixed, fail_at: None });
    }
}

pub fn run_pie(b: &Backend, m: &mut M, rep: &mut Report, kind: &str, wk: &[u8], key: &[u8], seed: u64, fixed: Option<u8>) {
    rep.evaluations += 1;
    let case = jcase(b, "pie", json!({"kind": kind, "wk": hex::encode(wk), "key": hex::encode(key), "rng_seed": seed, "rng_fixed": fixed}));
    script(b, seed, fixed);
    let w = (b.pie_wrap)(kind, wk, key);
    let (calls, served) = rng::take_log();
    let cls = format!("c05.{}.pie.{kind}", b.name);
    let w = match w {
        Ok(s) => s,
        Err(e) => return rep.violation(&format!("{cls}.wrap-failed"), format!("{} wrap_pie returned {e} for a valid key", b.name), case),
    };
    let blob = paserk_bytes(&w).unwrap_or_default();
    let tl = pie_tag_len(b);
    if blob.len() != tl + 32 + key.len() {
        rep.violation(&format!("{cls}.length"), format!("{} PIE blob has {} bytes, the format prescribes {}", b.name, blob.len(), tl + 32 + key.len()), case.clone());
    }
    match (b.pie_unwrap)(kind, wk, &w) {
        Ok(k2) if k2 == key => {}
        other => return rep.violation(&format!("{cls}.roundtrip"), format!("{} wrap_pie -> to_string -> parse -> unwrap returned {:?}", b.name, other.map(|x| x.len())), case),
    }
    rep.nontrivial(format!("{}|pie|{kind}|{}", b.name, key.len()));
    if blob.len() < tl + 32 {
        return;
    }
    let nonce = if b.scripted_rng {
        if calls.len() != 1 || calls[0].0 != 32 {
            rep.disagreement(&format!("{cls}.draws"), format!("wrap_pie drew {:?}; the model draws one block of 32", calls), case.clone());
        }
        served
    } else {
        blob[tl..tl + 32].to_vec()
    };
    rep.model_evaluations += 1;
    let mw = res_bytes(&m.eval(&sexp::op("pie_wrap", vec![sexp::s(b.name), sexp::x(pie_header(kind)), sexp::x(wk), sexp::x(key), sexp::x(&nonce)])));
    if mw.as_ref().ok() != Some(&blob) {
        rep.disagreement(&format!("{cls}.wrap-bytes"), format!("model PIE blob differs from the implementation's ({:?} vs {} bytes)", mw.as_ref().map(|x| x.len()), blob.len()), case.clone());
    }
    rep.model_evaluations += 1;
    let mu = res_bytes(&m.eval(&sexp::op("pie_unwrap", vec![sexp::s(b.name), sexp::x(pie_header(kind)), sexp::x(wk), sexp::x(&blob)])));
    if mu.as_ref().ok().map(|x| &x[..]) != Some(key) {
        rep.disagreement(&format!("{cls}.unwrap"), format!("model unwrap of the implementation's blob = {:?}", mu.map(|x| x.len())), case);
    }
}

pub fn run_pw(b: &Backend, m: &mut M, rep: &mut Report, kind: &str, pass: &[u8], params: Option<&[u8]>, key: &[u8], seed: u64, fixed: Option<u8>) {
    rep.evaluations += 1;
    let case = jcase(b, "pbkw", json!({"kind": kind, "pass": hex::encode(pass), "params": params.map(hex::encode), "key": hex::encode(key), "rng_seed": seed, "rng_fixed": fixed}));
    script(b, seed, fixed);
    let w = (b.pw_wrap)(kind, pass, params, key);
    let (calls, served) = rng::take_log();
    let cls = format!("c05.{}.pbkw.{kind}", b.name);
    let w = match w {
        Ok(s) => s,
        Err(e) => return rep.violation(&format!("{cls}.wrap-failed"), format!("{} password_wrap returned {e} for a valid key and parameters", b.name), case),
    };
    let blob = paserk_bytes(&w).unwrap_or_default();
    let tl = pw_tag_len(b);
    if blob.len() != b.pw_prefix_len + key.len() + tl {
        rep.violation(&format!("{cls}.length"), format!("{} PBKW blob has {} bytes, the format prescribes {}", b.name, blob.len(), b.pw_prefix_len + key.len() + tl), case.clone());
    }
    match (b.pw_unwrap)(kind, pass, &w) {
        Ok(k2) if k2 == key => {}
        other => return rep.violation(&format!("{cls}.roundtrip"), format!("{} password_wrap -> to_string -> parse -> unwrap returned {:?}", b.name, other.map(|x| x.len())), case),
    }
    rep.nontrivial(format!("{}|pbkw|{kind}|pass{}|{}", b.name, pass.len(), if params.is_some() { "params" } else { "default" }));
    if blob.len() < b.pw_prefix_len {
        return;
    }
    let salt_len = b.pw_param_off;
    let (salt, nonce) = if b.scripted_rng {
        let want = [salt_len, b.pw_prefix_len - salt_len - b.pw_param_len];
        if calls.len() != 2 || calls[0].0 != want[0] || calls[1].0 != want[1] {
            rep.disagreement(&format!("{cls}.draws"), format!("password_wrap drew {:?}; the model draws salt {} then nonce {}", calls, want[0], want[1]), case.clone());
            return;
        }
        (served[..salt_len].to_vec(), served[salt_len..].to_vec())
    } else {
        (blob[..salt_len].to_vec(), blob[salt_len + b.pw_param_len..b.pw_prefix_len].to_vec())
    };
    let pbytes = blob[salt_len..salt_len + b.pw_param_len].to_vec();
    if let Some(p) = params {
        if p != &pbytes[..] {
            rep.violation(&format!("{cls}.params"), format!("{} blob carries parameters {} instead of the requested {}", b.name, hex::encode(&pbytes), hex::encode(p)), case.clone());
        }
    }
    rep.model_evaluations += 1;
    let mw = res_bytes(&m.eval(&sexp::op("pw_wrap", vec![sexp::s(b.name), sexp::x(pw_header(kind)), sexp::x(pass), sexp::x(&pbytes), sexp::x(key), sexp::x(&salt), sexp::x(&nonce)])));
    if mw.as_ref().ok() != Some(&blob) {
        rep.disagreement(&format!("{cls}.wrap-bytes"), format!("model PBKW blob differs from the implementation's ({:?} vs {} bytes)", mw.as_ref().map(|x| x.len()), blob.len()), case.clone());
    }
    rep.model_evaluations += 1;
    let mu = res_bytes(&m.eval(&sexp::op("pw_unwrap", vec![sexp::s(b.name), sexp::x(pw_header(kind)), sexp::x(pass), sexp::x(&blob)])));
    if mu.as_ref().ok().map(|x| &x[..]) != Some(key) {
        rep.disagreement(&format!("{cls}.unwrap"), format!("model unwrap of the implementation's blob = {:?}", mu.map(|x| x.len())), case);
    }
}

pub fn pke_len(b: &Backend) -> usize {
    match b.ver {
        "v1" => 48 + 32 + 512,
        "v3" => 48 + 49 + 32,
        _ => 96,
    }
}

/// returns the blob (for the leading-zero statistics)
pub fn run_pke(b: &Backend, m: &mut M, rep: &mut Report, sk: &[u8], pk: &[u8], key: &[u8], seed: u64, fixed: Option<u8>, unseal: bool, model: bool) -> Option<Vec<u8>> {
    rep.evaluations += 1;
    let case = jcase(b, "pke", json!({"sk": hex::encode(sk), "pk": hex::encode(pk), "key": hex::encode(key), "rng_seed": seed, "rng_fixed": fixed}));
    script(b, seed, fixed);
    let w = (b.pke_seal)(pk, key);
    let (calls, served) = rng::take_log();
    let cls = format!("c05.{}.pke", b.name);
    let w = match w {
        Ok(s) => s,
        Err(e) => {
            rep.violation(&format!("{cls}.seal-failed"), format!("{} LocalKey::seal returned {e} for an honestly generated recipient key", b.name), case);
            return None;
        }
    };
    let blob = paserk_bytes(&w).unwrap_or_default();
    if blob.len() != pke_len(b) {
        rep.violation(&format!("{cls}.length"), format!("{} sealed key has {} bytes ({} characters), the format prescribes {}", b.name, blob.len(), w.len(), pke_len(b)), case.clone());
    }
    if unseal || blob.len() != pke_len(b) {
        match (b.pke_unseal)(sk, &w) {
            Ok(k2) if k2 == key => {}
            other => {
                rep.violation(&format!("{cls}.roundtrip"), format!("{} seal -> to_string -> parse -> unseal returned {:?}", b.name, other.map(|x| x.len())), case);
                return Some(blob);
            }
        }
        rep.nontrivial(format!("{}|pke|{}", b.name, if fixed.is_some() { "fixed-rng" } else { "rng" }));
    }
    if !model {
        return Some(blob);
    }
    let msk = tok::model_sk(b, sk);
    let msk = if b.name == "v4-sodium" { sk.to_vec() } else { msk };
    rep.model_evaluations += 1;
    let mu = res_bytes(&m.eval(&sexp::op("pke_unseal", vec![sexp::s(b.name), sexp::x(&msk), sexp::x(&blob)])));
    if mu.as_ref().ok().map(|x| &x[..]) != Some(key) {
        rep.disagreement(&format!("{cls}.unseal"), format!("model unseal of the implementation's sealed key = {:?}", mu.map(|x| x.len())), case.clone());
    }
    if b.scripted_rng && !calls.is_empty() {
        // the ephemeral secret is the first (v1: only) block the scheme accepted
        let want = match b.ver { "v1" => 512, "v3" => 48, _ => 32 };
        if calls.iter().any(|c| c.0 != want) {
            rep.disagreement(&format!("{cls}.draws"), format!("seal drew {:?}; the model draws blocks of {want}", calls), case.clone());
            return Some(blob);
        }
        let r = served[served.len() - want..].to_vec();
        rep.model_evaluations += 1;
        let ms = res_bytes(&m.eval(&sexp::op("pke_seal", vec![sexp::s(b.name), sexp::x(pk), sexp::x(key), sexp::x(&r)])));
        if ms.as_ref().ok() != Some(&blob) {
            rep.disagreement(&format!("{cls}.seal-bytes"), format!("model sealed key differs from the implementation's ({:?} vs {} bytes)", ms.as_ref().map(|x| x.len()), blob.len()), case);
        }
    }
    Some(blob)
}

pub fn run(ctx: &Ctx) {
    let mut rep = Report::new("C05", &ctx.tier, ctx.seed);
    rep.rule = "wrap_pie / password_wrap[_with_params] / seal and their inverses through text on all six backends: local and secret keys (random(), parsed, boundary scalars, keys whose encodings begin or end with white space / NUL / 0xff; every key also cloned first), wrapping keys, passwords of length 0, 1, 64, 65, 128, 129 and non-UTF-8, default and cheap explicit PBKW parameters, recipient keys generated and parsed (RSA-4096 from the corpus), RNG random / all-zero / all-ff; RustCrypto backends under a scripted getrandom so the model's blob must be bit-equal; v1 seal repeated so that RSA ciphertexts with a leading zero byte occur; distinct = (backend, operation, key kind, password/parameter class)".into();
    let bs = lab::backends();
    let mut m = M::new(&ctx.model);
    if let Some(path) = &ctx.replay {
        let v: Value = serde_json::from_str(&std::fs::read_to_string(path).expect("replay file")).expect("json");
        let r = &v["replay"];
        let hx = |k: &str| hex::decode(r[k].as_str().unwrap_or("")).unwrap_or_default();
        let b = bs.iter().find(|b| b.name == r["backend"].as_str().unwrap_or("")).expect("backend");
        let seed = r["rng_seed"].as_u64().unwrap_or(1);
        let fixed = r["rng_fixed"].as_u64().map(|x| x as u8);
        let kind = if r["kind"] == "secret" { "secret" } else { "local" };
        match r["op"].as_str().unwrap_or("") {
            "pie" => run_pie(b, &mut m, &mut rep, kind, &hx("wk"), &hx("key"), seed, fixed),
            "pbkw" => {
                let p = r["params"].as_str().map(|s| hex::decode(s).unwrap());
                run_pw(b, &mut m, &mut rep, kind, &hx("pass"), p.as_deref(), &hx("key"), seed, fixed)
            }
            _ => {
                run_pke(b, &mut m, &mut rep, &hx("sk"), &hx("pk"), &hx("key"), seed, fixed, true, true);
            }
        }
        rep.model_prim_calls = m.prim_calls();
        rep.finish(ctx.out.as_deref());
        return;
    }
    let mut g = SplitMix64::new(ctx.seed ^ 0xC05);
    let thorough = ctx.thorough();
    let passwords: Vec<Vec<u8>> = vec![vec![], b"p".to_vec(), vec![b'a'; 64], vec![b'b'; 65], vec![b'c'; 128], vec![b'd'; 129], vec![0xff, 0xfe, 0x00, 0x80]];
    for b in &bs {
        let keys = keys_for(b, &mut g);
        // PIE
        for (i, (kind, key, _src)) in keys.wrappable.iter().enumerate() {
            for j in 0..(if thorough { 12 } else { 3 }) {
                let wk = match (i + j) % 3 { 0 => g.bytes(32), 1 => vec![0u8; 32], _ => vec![0xff; 32] };
                let fixed = match j % 4 { 1 => Some(0u8), 2 => Some(0xff), _ => None };
                if rep.samples.len() < 3 {
                    rep.sample(json!({"backend": b.name, "op": "pie", "kind": kind, "key_len": key.len()}));
                }
                run_pie(b, &mut m, &mut rep, kind, &wk, key, g.next(), fixed);
            }
        }
        // PBKW: cheap explicit parameters for every password class, the defaults twice
        for (i, pass) in passwords.iter().enumerate() {
            let (kind, key, _) = &keys.wrappable[i % keys.wrappable.len()];
            let p = cheap_params(b, &mut g);
            let fixed = match i % 5 { 1 => Some(0u8), 2 => Some(0xff), _ => None };
            run_pw(b, &mut m, &mut rep, kind, pass, Some(&p), key, g.next(), fixed);
        }
        for (kind, key, _) in keys.wrappable.iter().filter(|k| k.1.len() <= 64).take(if thorough { 4 } else { 2 }) {
            run_pw(b, &mut m, &mut rep, kind, b"correct horse battery staple", None, key, g.next(), None);
        }
        // thorough: "any other valid cost parameters" — round-number boundaries of the cost fields up to the budget
        if thorough {
            let (kind, key, _) = &keys.wrappable[0];
            let mut sets: Vec<Vec<u8>> = vec![];
            if b.pw_param_len == 4 {
                for base in [10u32, 100, 1000, 10_000, 100_000, 1_000_000, 1 << 10, 1 << 16, 1 << 20] {
                    for d in [-1i64, 0, 1] {
                        sets.push(((base as i64 + d) as u32).to_be_bytes().to_vec());
                    }
                }
            } else {
                for mem_kib in [8u64, 9, 16, 1023, 1024, 1025, 65_536] {
                    for (time, para) in [(1u32, 1u32), (2, 1), (3, 1), (1, 2), (1, 4)] {
                        if b.name == "v4-sodium" && para != 1 {
                            continue;
                        }
                        if mem_kib < 8 * para as u64 {
                            continue;
                        }
                        let mut v = (mem_kib * 1024).to_be_bytes().to_vec();
                        v.extend_from_slice(&time.to_be_bytes());
                        v.extend_from_slice(&para.to_be_bytes());
                        sets.push(v);
                    }
                }
            }
            for p in sets {
                run_pw(b, &mut m, &mut rep, kind, b"pw", Some(&p), key, g.next(), None);
            }
        }
        // the same operations with every key CLONED first (wrap_pie / password_wrap / seal consume the key, so callers
        // clone; several backends write Clone by hand)
        lab::CLONE_KEYS.store(true, std::sync::atomic::Ordering::Relaxed);
        for (i, (kind, key, src)) in keys.wrappable.iter().enumerate() {
            if *src == "edge-bytes" && i % 3 != 0 {
                continue;
            }
            run_pie(b, &mut m, &mut rep, kind, &g.bytes(32), key, g.next(), None);
            let p = cheap_params(b, &mut g);
            run_pw(b, &mut m, &mut rep, kind, b"cloned", Some(&p), key, g.next(), None);
        }
        for (sk, pk, _) in keys.recipients.iter().take(if b.ver == "v1" { 1 } else { 3 }) {
            run_pke(b, &mut m, &mut rep, sk, pk, &g.bytes(32), g.next(), None, true, true);
        }
        lab::CLONE_KEYS.store(false, std::sync::atomic::Ordering::Relaxed);
        rep.count(&format!("{}.cloned-key-pass", b.name));
        // PKE
        for (ri, (sk, pk, src)) in keys.recipients.iter().enumerate() {
            let n = if b.ver == "v1" { 2 } else if *src == "edge-bytes" { 1 } else { if thorough { 20 } else { 5 } };
            for j in 0..n {
                let key = if j == 0 { vec![0u8; 32] } else { g.bytes(32) };
                let fixed = if b.ver != "v1" && b.ver != "v3" && j == 1 { Some(0xff) } else { None };
                run_pke(b, &mut m, &mut rep, sk, pk, &key, g.next(), fixed, true, true);
            }
            if b.ver != "v1" && ri == 0 {
                // many honest seals to one recipient, each unsealed: value-dependent failures (a shared secret or an
                // ephemeral key with a leading zero byte, 1 in 256) need hundreds of draws to show
                let n = if thorough { 20000 } else if b.ver == "v3" { 1500 } else { 3000 };
                for j in 0..n {
                    let key = g.bytes(32);
                    let before = rep.violations.len();
                    run_pke(b, &mut m, &mut rep, sk, pk, &key, g.next(), None, true, j % 500 == 0);
                    if rep.violations.len() > before && rep.violations.len() >= 3 {
                        break;
                    }
                }
                rep.count_n(&format!("{}.pke.seals", b.name), n as u64);
            }
            if b.ver == "v1" && ri == 0 {
                // RSA-KEM ciphertexts with leading zero bytes: many seals, length checked on each,
                // unseal (slow) on those that are special and on a sample
                let n = if thorough { 6000 } else { 1200 };
                let mut lz = 0u64;
                for j in 0..n {
                    let key = g.bytes(32);
                    let before = rep.violations.len();
                    if let Some(blob) = run_pke(b, &mut m, &mut rep, sk, pk, &key, g.next(), None, j % 200 == 0, false) {
                        let special = blob.len() == pke_len(b) && blob[80] == 0;
                        if special {
                            lz += 1;
                            // the full check, model included, on a ciphertext with a leading zero byte
                            let w = format!("k1.seal.{}", lab::b64(&blob));
                            match (b.pke_unseal)(sk, &w) {
                                Ok(k2) if k2 == key => rep.nontrivial("v1|pke|c-leading-zero".into()),
                                other => rep.violation("c05.v1.pke.roundtrip", format!("v1 sealed key whose RSA ciphertext has a leading zero byte unseals to {:?}", other.map(|x| x.len())), json!({"backend": "v1", "op": "pke-blob", "sk": hex::encode(sk), "blob": hex::encode(&blob), "key": hex::encode(&key)})),
                            }
                        }
                    }
                    if rep.violations.len() > before && rep.violations.len() >= 3 {
                        break;
                    }
                }
                rep.count_n("v1.pke.seals", n as u64);
                rep.count_n("v1.pke.c-leading-zero", lz);
            }
        }
    }
    rep.model_prim_calls = m.prim_calls();
    rep.finish(ctx.out.as_deref());
}
