//! C11 — validators and combinators: real paseto-json / paseto-core validators built dynamically
//! vs the extracted model vs the statement's inequalities written directly; plus the unseal pipeline
//! on every backend with accepting / rejecting validators.
use crate::impls::{err_name, V1, V2, V3, V3L, V4, V4S};
use crate::model::Model;
use crate::report::Report;
use crate::rng::SplitMix64;
use crate::sexp::{self, Sexp};
use crate::Ctx;
use paseto_core::validation::{NoValidation, Validate};
use paseto_json::{ForAudience, ForSubject, FromIssuer, HasExpiry, RegisteredClaims, Time};
use serde_json::json;
use std::rc::Rc;
use std::sync::Arc;
use std::time::Duration;

type RC = RegisteredClaims;
type DynV = Box<dyn Validate<Claims = RC>>;

#[derive(Clone, Debug)]
pub enum Expr {
    Time(i128),
    Leeway(i128, u64),
    HasExp,
    Sub(String),
    Iss(String),
    Aud(String),
    None,
    And(Box<Expr>, Box<Expr>),
    Slice(Vec<Expr>),
    Vec(Vec<Expr>),
    Box(Box<Expr>),
    Rc(Box<Expr>),
    Arc(Box<Expr>),
    Map(usize, Box<Expr>),
}

#[derive(Clone)]
struct Wrapper {
    #[allow(dead_code)]
    orig: RC,
    alt: RC,
}

pub fn transform(k: usize, c: &RC) -> RC {
    let mut d = c.clone();
    match k {
        0 => {}
        1 => d.exp = None,
        _ => std::mem::swap(&mut d.iss, &mut d.sub),
    }
    d
}

struct Unwrap<T: Validate<Claims = Wrapper>>(T, usize);
impl<T: Validate<Claims = Wrapper>> Validate for Unwrap<T> {
    type Claims = RC;
    fn validate(&self, c: &RC) -> Result<(), paseto_core::PasetoError> {
        let w = Wrapper { orig: c.clone(), alt: transform(self.1, c) };
        self.0.validate(&w)
    }
}

struct SliceV(Vec<DynV>);
impl Validate for SliceV {
    type Claims = RC;
    fn validate(&self, c: &RC) -> Result<(), paseto_core::PasetoError> {
        <[DynV] as Validate>::validate(&self.0[..], c)
    }
}

fn ts(ns: i128) -> jiff::Timestamp {
    jiff::Timestamp::from_nanosecond(ns).expect("timestamp in range")
}

pub fn build(e: &Expr) -> DynV {
    match e {
        Expr::Time(n) => Box::new(Time::valid_at(ts(*n))),
        Expr::Leeway(n, l) => Box::new(Time::valid_at(ts(*n)).with_leeway(Duration::from_nanos(*l))),
        Expr::HasExp => Box::new(HasExpiry),
        Expr::Sub(s) => Box::new(ForSubject(s.clone())),
        Expr::Iss(s) => Box::new(FromIssuer(s.clone())),
        Expr::Aud(s) => Box::new(ForAudience(s.clone())),
        Expr::None => Box::new(NoValidation::<RC>::dangerous_no_validation()),
        Expr::And(a, b) => Box::new(build(a).and_then(build(b))),
        Expr::Slice(l) => Box::new(SliceV(l.iter().map(build).collect())),
        Expr::Vec(l) => Box::new(l.iter().map(build).collect::<Vec<DynV>>()),
        Expr::Box(a) => Box::new(build(a)),
        Expr::Rc(a) => {
            let r: Rc<dyn Validate<Claims = RC>> = Rc::from(build(a));
            Box::new(r)
        }
        Expr::Arc(a) => {
            let r: Arc<dyn Validate<Claims = RC>> = Arc::from(build(a));
            Box::new(r)
        }
        Expr::Map(k, a) => Box::new(Unwrap(build(a).map(|w: &Wrapper| &w.alt), *k)),
    }
}

/// the statement, written directly: does the expression accept?
pub fn spec_accepts(e: &Expr, c: &RC) -> bool {
    let ns = |t: &Option<jiff::Timestamp>| t.map(|t| t.as_nanosecond());
    match e {
        Expr::Time(n) => ns(&c.exp).map_or(true, |x| x >= *n) && ns(&c.nbf).map_or(true, |x| x <= *n),
        Expr::Leeway(n, l) => ns(&c.exp).map_or(true, |x| x >= *n - *l as i128) && ns(&c.nbf).map_or(true, |x| x <= *n + *l as i128),
        Expr::HasExp => c.exp.is_some(),
        Expr::Sub(s) => c.sub.as_deref() == Some(s),
        Expr::Iss(s) => c.iss.as_deref() == Some(s),
        Expr::Aud(s) => c.aud.as_deref() == Some(s),
        Expr::None => true,
        Expr::And(a, b) => spec_accepts(a, c) && spec_accepts(b, c),
        Expr::Slice(l) | Expr::Vec(l) => l.iter().all(|x| spec_accepts(x, c)),
        Expr::Box(a) | Expr::Rc(a) | Expr::Arc(a) => spec_accepts(a, c),
        Expr::Map(k, a) => spec_accepts(a, &transform(*k, c)),
    }
}

pub fn expr_sexp(e: &Expr) -> Sexp {
    match e {
        Expr::Time(n) => sexp::op("time", vec![sexp::n(n)]),
        Expr::Leeway(n, l) => sexp::op("leeway", vec![sexp::n(n), sexp::n(l)]),
        Expr::HasExp => sexp::op("hasexp", vec![]),
        Expr::Sub(s) => sexp::op("sub", vec![sexp::x(s.as_bytes())]),
        Expr::Iss(s) => sexp::op("iss", vec![sexp::x(s.as_bytes())]),
        Expr::Aud(s) => sexp::op("aud", vec![sexp::x(s.as_bytes())]),
        Expr::None => sexp::op("none", vec![]),
        Expr::And(a, b) => sexp::op("and", vec![expr_sexp(a), expr_sexp(b)]),
        Expr::Slice(l) => sexp::op("slice", l.iter().map(expr_sexp).collect()),
        Expr::Vec(l) => sexp::op("vec", l.iter().map(expr_sexp).collect()),
        Expr::Box(a) => sexp::op("box", vec![expr_sexp(a)]),
        Expr::Rc(a) => sexp::op("rc", vec![expr_sexp(a)]),
        Expr::Arc(a) => sexp::op("arc", vec![expr_sexp(a)]),
        Expr::Map(k, a) => sexp::op("map", vec![sexp::n(k), expr_sexp(a)]),
    }
}

pub fn claims_sexp(c: &RC) -> Sexp {
    let ob = |o: &Option<String>| match o {
        Some(s) => sexp::l(vec![sexp::s("some"), sexp::x(s.as_bytes())]),
        Option::None => sexp::s("none"),
    };
    let ot = |o: &Option<jiff::Timestamp>| match o {
        Some(t) => sexp::l(vec![sexp::s("some"), sexp::n(t.as_nanosecond())]),
        Option::None => sexp::s("none"),
    };
    sexp::l(vec![ob(&c.iss), ob(&c.sub), ob(&c.aud), ot(&c.exp), ot(&c.nbf), ot(&c.iat), ob(&c.jti)])
}

fn gexpr(e: &Expr) -> String {
    use crate::gallina::gb;
    let gl = |l: &Vec<Expr>| format!("[{}]", l.iter().map(gexpr).collect::<Vec<_>>().join("; "));
    match e {
        Expr::Time(n) => format!("(VTime ({n})%Z)"),
        Expr::Leeway(n, l) => format!("(VTimeLeeway ({n})%Z ({l})%Z)"),
        Expr::HasExp => "VHasExpiry".into(),
        Expr::Sub(s) => format!("(VForSubject ({}))", gb(s.as_bytes())),
        Expr::Iss(s) => format!("(VFromIssuer ({}))", gb(s.as_bytes())),
        Expr::Aud(s) => format!("(VForAudience ({}))", gb(s.as_bytes())),
        Expr::None => "VNoValidation".into(),
        Expr::And(a, b) => format!("(VAndThen {} {})", gexpr(a), gexpr(b)),
        Expr::Slice(l) => format!("(VSlice {})", gl(l)),
        Expr::Vec(l) => format!("(VVec {})", gl(l)),
        Expr::Box(a) => format!("(VBox {})", gexpr(a)),
        Expr::Rc(a) => format!("(VRc {})", gexpr(a)),
        Expr::Arc(a) => format!("(VArc {})", gexpr(a)),
        Expr::Map(k, a) => format!("(VMap {k}%nat {})", gexpr(a)),
    }
}

fn gclaims(c: &RC) -> String {
    use crate::gallina::gb;
    let ob = |o: &Option<String>| match o {
        Some(s) => format!("(Some ({}))", gb(s.as_bytes())),
        Option::None => "None".to_string(),
    };
    let ot = |o: &Option<jiff::Timestamp>| match o {
        Some(t) => format!("(Some ({})%Z)", t.as_nanosecond()),
        Option::None => "None".to_string(),
    };
    format!("{{| iss := {}; sub := {}; aud := {}; exp := {}; nbf := {}; iat := {}; jti := {} |}}", ob(&c.iss), ob(&c.sub), ob(&c.aud), ot(&c.exp), ot(&c.nbf), ot(&c.iat), ob(&c.jti))
}

fn depth(e: &Expr) -> usize {
    match e {
        Expr::And(a, b) => 1 + depth(a).max(depth(b)),
        Expr::Slice(l) | Expr::Vec(l) => 1 + l.iter().map(depth).max().unwrap_or(0),
        Expr::Box(a) | Expr::Rc(a) | Expr::Arc(a) | Expr::Map(_, a) => 1 + depth(a),
        _ => 0,
    }
}

fn shape(e: &Expr) -> String {
    match e {
        Expr::Time(_) => "T".into(),
        Expr::Leeway(..) => "L".into(),
        Expr::HasExp => "E".into(),
        Expr::Sub(_) => "S".into(),
        Expr::Iss(_) => "I".into(),
        Expr::Aud(_) => "A".into(),
        Expr::None => "N".into(),
        Expr::And(a, b) => format!("&({},{})", shape(a), shape(b)),
        Expr::Slice(l) => format!("[{}]", l.iter().map(shape).collect::<Vec<_>>().join(",")),
        Expr::Vec(l) => format!("v[{}]", l.iter().map(shape).collect::<Vec<_>>().join(",")),
        Expr::Box(a) => format!("b{}", shape(a)),
        Expr::Rc(a) => format!("r{}", shape(a)),
        Expr::Arc(a) => format!("a{}", shape(a)),
        Expr::Map(k, a) => format!("m{}{}", k, shape(a)),
    }
}

fn leaves(now: i128, leeway: u64) -> Vec<Expr> {
    vec![Expr::Time(now), Expr::Leeway(now, leeway), Expr::HasExp, Expr::Sub("alice".into()), Expr::Iss("issuer".into()), Expr::Aud("aud".into()), Expr::None]
}

fn combine1(inner: &[Expr]) -> Vec<Expr> {
    let mut out = vec![];
    for a in inner {
        out.push(Expr::Box(Box::new(a.clone())));
        out.push(Expr::Rc(Box::new(a.clone())));
        out.push(Expr::Arc(Box::new(a.clone())));
        for k in 0..3 {
            out.push(Expr::Map(k, Box::new(a.clone())));
        }
        out.push(Expr::Slice(vec![a.clone()]));
        out.push(Expr::Vec(vec![a.clone()]));
        for b in inner {
            out.push(Expr::And(Box::new(a.clone()), Box::new(b.clone())));
            out.push(Expr::Slice(vec![a.clone(), b.clone()]));
        }
    }
    out.push(Expr::Slice(vec![]));
    out.push(Expr::Vec(vec![]));
    out
}

fn rand_expr(g: &mut SplitMix64, d: usize, now: i128, leeway: u64) -> Expr {
    if d == 0 || g.chance(1, 4) {
        return g.pick(&leaves(now, leeway)).clone();
    }
    let sub = |g: &mut SplitMix64| Box::new(rand_expr(g, d - 1, now, leeway));
    match g.below(8) {
        0 => Expr::And(sub(g), sub(g)),
        1 => {
            let n = g.below(4) as usize;
            Expr::Slice((0..n).map(|_| rand_expr(g, d - 1, now, leeway)).collect())
        }
        2 => {
            let n = g.below(4) as usize;
            Expr::Vec((0..n).map(|_| rand_expr(g, d - 1, now, leeway)).collect())
        }
        3 => Expr::Box(sub(g)),
        4 => Expr::Rc(sub(g)),
        5 => Expr::Arc(sub(g)),
        _ => Expr::Map(g.below(3) as usize, sub(g)),
    }
}

fn claim_sets(now: i128, leeway: u64, tmin: i128, tmax: i128) -> Vec<RC> {
    let l = leeway as i128;
    let cands: Vec<i128> = vec![now, now - 1, now + 1, now - l, now + l, now - l - 1, now - l + 1, now + l - 1, now + l + 1, now - 1_000_000_000_000_000, now + 1_000_000_000_000_000, tmin, tmax];
    let tsv: Vec<Option<jiff::Timestamp>> = std::iter::once(Option::None).chain(cands.into_iter().filter(|t| *t >= tmin && *t <= tmax).map(|t| Some(ts(t)))).collect();
    let mut out = vec![];
    for e in &tsv {
        for n in &tsv {
            out.push(RC { iss: Some("issuer".into()), sub: Some("alice".into()), aud: Some("aud".into()), exp: *e, nbf: *n, iat: Option::None, jti: Option::None });
        }
    }
    // string fields absent / different / swapped
    for (i, s, a) in [(Option::None, Option::None, Option::None), (Some("alice"), Some("issuer"), Some("aud")), (Some("issuer"), Some("alic"), Some("aud ")), (Some(""), Some(""), Some("")), (Some("issuer\0"), Some("alice"), Option::None)] {
        out.push(RC { iss: i.map(String::from), sub: s.map(String::from), aud: a.map(String::from), exp: Some(ts(now)), nbf: Option::None, iat: Some(ts(now)), jti: Some("id".into()) });
        out.push(RC { iss: i.map(String::from), sub: s.map(String::from), aud: a.map(String::from), exp: Option::None, nbf: Some(ts(now)), iat: Option::None, jti: Option::None });
    }
    out
}

fn run_case(rep: &mut Report, model: &mut Model, e: &Expr, c: &RC, n: u64, origin: &str) {
    rep.evaluations += 1;
    rep.count(&format!("origin:{origin}"));
    rep.count(&format!("depth={}", depth(e)));
    let v = build(e);
    let c2 = c.clone();
    let ires: Result<(), String> = match std::panic::catch_unwind(std::panic::AssertUnwindSafe(|| v.validate(&c2))) {
        Ok(Ok(())) => Ok(()),
        Ok(Err(er)) => Err(err_name(&er).to_string()),
        Err(_) => Err("panic".into()),
    };
    let es = expr_sexp(e);
    let cs = claims_sexp(c);
    let replay = json!({"op":"validate","expr":es.to_text(),"claims":cs.to_text()});
    let want = spec_accepts(e, c);
    rep.count(if want { "spec:accept" } else { "spec:reject" });
    match (&ires, want) {
        (Ok(()), false) => rep.violation("validate.accepts-invalid", format!("validator {} accepts claims {} which the statement rejects", es.to_text(), cs.to_text()), replay.clone()),
        (Err(k), true) => rep.violation("validate.rejects-valid", format!("validator {} rejects ({k}) claims {} which the statement accepts", es.to_text(), cs.to_text()), replay.clone()),
        (Err(k), false) if k != "ClaimsError" => rep.violation("validate.wrong-error", format!("validator {} fails with {k}, not a claims error", es.to_text()), replay.clone()),
        _ => {}
    }
    rep.nontrivial(format!("{}|{}|{}{}|{}", shape(e), want, c.exp.is_some(), c.nbf.is_some(), c.sub.is_some()));
    let mr = model.eval_pure(&sexp::op("validate", vec![es.clone(), cs.clone()]));
    rep.model_evaluations += 1;
    let mi = mr.list();
    let mres: Result<(), String> = match mi[0].sym() {
        "ok" => Ok(()),
        "err" => Err(mi[1].sym().to_string()),
        _ => Err("panic".into()),
    };
    if mres != ires {
        rep.disagreement("validate.model-vs-impl", format!("{} on {}: impl {:?} model {:?}", es.to_text(), cs.to_text(), ires, mres), replay.clone());
    }
    if n % 701 == 0 && rep.kernel_cases.len() < 60 {
        let rhs = match &mres {
            Ok(()) => "Ok tt".to_string(),
            Err(k) if k == "panic" => String::new(),
            Err(k) => format!("Err {k}"),
        };
        if !rhs.is_empty() {
            rep.kernel_cases.push((format!("validate {} {}", gexpr(e), gclaims(c)), rhs));
        }
    }
    if n % 4001 == 0 {
        rep.sample(json!({"validator":es.to_text(),"claims":cs.to_text(),"impl":format!("{:?}", ires),"statement_accepts":want}));
    }
}

fn parse_expr(s: &Sexp, claims: bool) -> Expr {
    let _ = claims;
    let it = s.list();
    let num = |x: &Sexp| x.num().parse::<i128>().unwrap();
    match it[0].sym() {
        "time" => Expr::Time(num(&it[1])),
        "leeway" => Expr::Leeway(num(&it[1]), it[2].num().parse().unwrap()),
        "hasexp" => Expr::HasExp,
        "sub" => Expr::Sub(String::from_utf8(it[1].bytes().to_vec()).unwrap()),
        "iss" => Expr::Iss(String::from_utf8(it[1].bytes().to_vec()).unwrap()),
        "aud" => Expr::Aud(String::from_utf8(it[1].bytes().to_vec()).unwrap()),
        "none" => Expr::None,
        "and" => Expr::And(Box::new(parse_expr(&it[1], false)), Box::new(parse_expr(&it[2], false))),
        "slice" => Expr::Slice(it[1..].iter().map(|x| parse_expr(x, false)).collect()),
        "vec" => Expr::Vec(it[1..].iter().map(|x| parse_expr(x, false)).collect()),
        "box" => Expr::Box(Box::new(parse_expr(&it[1], false))),
        "rc" => Expr::Rc(Box::new(parse_expr(&it[1], false))),
        "arc" => Expr::Arc(Box::new(parse_expr(&it[1], false))),
        "map" => Expr::Map(it[1].usize(), Box::new(parse_expr(&it[2], false))),
        o => panic!("bad expr {o}"),
    }
}

fn parse_claims(s: &Sexp) -> RC {
    let it = s.list();
    let ob = |x: &Sexp| if x.is_sym("none") { Option::None } else { Some(String::from_utf8(x.list()[1].bytes().to_vec()).unwrap()) };
    let ot = |x: &Sexp| if x.is_sym("none") { Option::None } else { Some(ts(x.list()[1].num().parse().unwrap())) };
    RC { iss: ob(&it[0]), sub: ob(&it[1]), aud: ob(&it[2]), exp: ot(&it[3]), nbf: ot(&it[4]), iat: ot(&it[5]), jti: ob(&it[6]) }
}

// ---------------------------------------------------------------- pipeline on every backend

macro_rules! pipeline_for {
    ($rep:ident, $g:ident, $name:literal, $V:ty, $nonce_len:expr, $aad:expr) => {{
        use paseto_core::{LocalKey, SecretKey, UnencryptedToken, UnsignedToken, EncryptedToken, SignedToken};
        let now: i128 = 1_700_000_000_000_000_000;
        let claims = RC { iss: Some("issuer".into()), sub: Some("alice".into()), aud: Option::None, exp: Some(ts(now)), nbf: Some(ts(now - 10)), iat: Option::None, jti: Option::None };
        let lk = LocalKey::<$V>::from(<[u8; 32]>::try_from(&$g.bytes(32)[..]).unwrap());
        let sk = SecretKey::<$V>::random().expect("keygen");
        let pk = sk.public_key();
        let aad: &[u8] = $aad;
        let ltok = UnencryptedToken::<$V, RC>::new(claims.clone()).dangerous_seal_with_nonce(&lk, aad, $g.bytes($nonce_len)).expect("seal").to_string();
        let ptok = UnsignedToken::<$V, RC>::new(claims.clone()).sign_with_aad(&sk, aad);
        let ptok = match ptok { Ok(t) => Some(t.to_string()), Err(_) => Option::None };
        let exprs = vec![Expr::Time(now), Expr::Time(now + 1), Expr::Time(now - 11), Expr::Leeway(now + 5, 5), Expr::Leeway(now + 6, 5), Expr::HasExp, Expr::Sub("alice".into()), Expr::Sub("bob".into()), Expr::None,
            Expr::And(Box::new(Expr::Time(now)), Box::new(Expr::Iss("other".into()))), Expr::Slice(vec![Expr::HasExp, Expr::Aud("x".into())]), Expr::Map(1, Box::new(Expr::HasExp))];
        for e in &exprs {
            let want = spec_accepts(e, &claims);
            for purpose in ["local", "public"] {
                let v = build(e);
                let res: Result<RC, String> = if purpose == "local" {
                    let t: EncryptedToken<$V, RC> = ltok.parse().expect("parse");
                    t.decrypt_with_aad(&lk, aad, &v).map(|u| u.claims).map_err(|er| err_name(&er).to_string())
                } else {
                    let Some(p) = &ptok else { continue };
                    let t: SignedToken<$V, RC> = p.parse().expect("parse");
                    t.verify_with_aad(&pk, aad, &v).map(|u| u.claims).map_err(|er| err_name(&er).to_string())
                };
                $rep.evaluations += 1;
                $rep.count(&format!("pipeline:{}", $name));
                $rep.nontrivial(format!("pipeline|{}|{}|{}", $name, purpose, shape(e)));
                let replay = json!({"op":"pipeline","backend":$name,"purpose":purpose,"expr":expr_sexp(e).to_text()});
                match (&res, want) {
                    (Ok(c), true) => {
                        if claims_sexp(c) != claims_sexp(&claims) {
                            $rep.violation("pipeline.wrong-claims", format!("{} {purpose}: released claims differ from the sealed ones", $name), replay);
                        }
                    }
                    (Ok(_), false) => $rep.violation("pipeline.released-unvalidated", format!("{} {purpose}: claims released although validator {} rejects them", $name, expr_sexp(e).to_text()), replay),
                    (Err(k), false) if k == "ClaimsError" => {}
                    (Err(k), _) => $rep.violation("pipeline.wrong-result", format!("{} {purpose}: validator {} (statement accepts: {want}) gave Err({k})", $name, expr_sexp(e).to_text()), replay),
                }
            }
        }
    }};
}

pub fn run(ctx: &Ctx) {
    let mut rep = Report::new("C11", &ctx.tier, ctx.seed);
    rep.rule = "the three string matchers over the complete table expected x claim for 12 strings incl. empty, NUL-extended, case and padding variants and the absent claim; the claim builder (new / setters) at boundary and random instants and durations vs the model and vs the window [now, now+d]; validator expressions: all 7 leaves, every one-level combinator over leaf pairs (and_then, 2-slices, Box/Rc/Arc/map x3/1-slice/1-vec, empty slice/vec) exhaustively, plus random expressions to depth 3; claims: exp x nbf each absent or at now, now+-1ns, now+-leeway, now+-leeway+-1ns, far past/future, Timestamp::MIN/MAX (representable ones), string claims absent/equal/different/empty/NUL; now in {0, 1.7e18, MIN+leeway, MAX-leeway}, leeway in {0, 1ns, 60s, 1 day}; then the unseal pipeline (local + public) on all six backends with 12 accepting/rejecting validators. non-trivial: all; distinct = distinct (expression shape, verdict, presence of exp/nbf/sub)".into();
    let mut model = Model::spawn(&ctx.model);
    let mut g = SplitMix64::new(ctx.seed ^ 0xC11);
    // pinned constants: the model's ts_min/ts_max are jiff's
    let tr = model.eval_pure(&sexp::op("ts_range", vec![]));
    let (tmin, tmax) = (jiff::Timestamp::MIN.as_nanosecond(), jiff::Timestamp::MAX.as_nanosecond());
    if tr.list()[0].num() != tmin.to_string() || tr.list()[1].num() != tmax.to_string() {
        rep.disagreement("validate.ts-range", format!("model ts range {} differs from jiff's [{tmin}, {tmax}]", tr.to_text()), json!({"op":"ts_range"}));
    }
    if let Some(path) = &ctx.replay {
        let v: serde_json::Value = serde_json::from_str(&std::fs::read_to_string(path).unwrap()).unwrap();
        let rp = &v["replay"];
        if rp["op"] == "validate" {
            let e = parse_expr(&Sexp::parse(rp["expr"].as_str().unwrap()).unwrap(), false);
            let c = parse_claims(&Sexp::parse(rp["claims"].as_str().unwrap()).unwrap());
            run_case(&mut rep, &mut model, &e, &c, 0, "replay");
            rep.finish(ctx.out.as_deref());
            return;
        }
    }
    // ---- the claim builder: RegisteredClaims::new(now, d) and the four setters against the model (ClaimsBuilder.v)
    //      and against the statement "valid exactly in [now, now + d]"
    {
        let mut cases: Vec<(i128, u64)> = vec![(1_700_000_000_000_000_000, 60_000_000_000), (0, 0), (0, 1), (-1, 1), (tmin, 0), (tmin, 86_400_000_000_000),
                                               (tmax - 5, 5), (tmax - 5, 6), (tmax, 0), (tmax, 1), (tmax - 1_000_000_000, u64::MAX)];
        for _ in 0..40 {
            cases.push(((g.below(4_000_000_000) as i128 - 2_000_000_000) * 1_000_000_000 + g.below(1_000_000_000) as i128, g.below(1 << 50)));
        }
        for (now, d) in cases {
            rep.evaluations += 1;
            rep.model_evaluations += 1;
            let replay = json!({"op": "builder", "now": now.to_string(), "d": d});
            let built = std::panic::catch_unwind(|| RC::new(ts(now), std::time::Duration::from_nanos(d)));
            let mr = model.eval_pure(&sexp::op("claims_new", vec![sexp::n(now), sexp::n(d as i128)]));
            let mi = mr.list();
            match (&built, mi[0].sym()) {
                (Ok(c), "ok") => {
                    if claims_sexp(c).to_text() != mi[1].to_text() {
                        rep.disagreement("builder.model-vs-impl", format!("RegisteredClaims::new({now}, {d}ns) = {} but the model builds {}", claims_sexp(c).to_text(), mi[1].to_text()), replay.clone());
                    }
                    // the statement: valid exactly in [now, now + d]; it has an expiry
                    let end = now + d as i128;
                    for (t, want) in [(now, true), (end, true), (now - 1, false), (end + 1, false), (now + (d / 2) as i128, true)] {
                        if t < tmin || t > tmax {
                            continue;
                        }
                        rep.evaluations += 1;
                        let got = Time::valid_at(ts(t)).validate(c).is_ok();
                        if got != want {
                            rep.violation(if want { "validate.rejects-valid" } else { "validate.accepts-invalid" }, format!("claims built by new({now}, {d}ns) are {} at t = {t}", if got { "accepted" } else { "rejected" }), replay.clone());
                        }
                    }
                    if HasExpiry.validate(c).is_err() {
                        rep.violation("validate.rejects-valid", format!("claims built by new({now}, {d}ns) fail HasExpiry"), replay.clone());
                    }
                    // setters: each sets its own field (model) and is accepted by its validator
                    let c2 = c.clone().from_issuer("issuer".into()).for_audience("aud".into()).for_subject("subj".into()).with_token_id("id-1".into());
                    let mut ms = mi[1].clone();
                    for (w, v) in [("iss", "issuer"), ("aud", "aud"), ("sub", "subj"), ("jti", "id-1")] {
                        ms = model.eval_pure(&sexp::op("claims_set", vec![sexp::s(w), ms.clone(), sexp::x(v.as_bytes())]));
                    }
                    if claims_sexp(&c2).to_text() != ms.to_text() {
                        rep.disagreement("builder.setters-model-vs-impl", format!("setters give {} but the model {}", claims_sexp(&c2).to_text(), ms.to_text()), replay.clone());
                    }
                    if FromIssuer("issuer").validate(&c2).is_err() || ForAudience("aud").validate(&c2).is_err() || ForSubject("subj").validate(&c2).is_err()
                        || FromIssuer("issuer2").validate(&c2).is_ok() || ForAudience("").validate(&c2).is_ok() || ForSubject("sub").validate(&c2).is_ok() {
                        rep.violation("validate.builder-setters", "a value set by from_issuer / for_audience / for_subject is not what the matching validator accepts".into(), replay.clone());
                    }
                    rep.nontrivial(format!("builder|ok|{}", if d == 0 { "d0" } else { "d+" }));
                }
                (Err(_), "panic") => rep.nontrivial("builder|overflow".into()),
                (a, b) => rep.disagreement("builder.model-vs-impl", format!("RegisteredClaims::new({now}, {d}ns): implementation {}, model {b}", if a.is_ok() { "returns" } else { "panics" }), replay.clone()),
            }
        }
    }
    let mut n = 0u64;
    let day: u64 = 86_400_000_000_000;
    let configs: Vec<(i128, u64)> = vec![(1_700_000_000_000_000_000, 60_000_000_000), (0, 1), (1_700_000_000_123_456_789, 0), (tmin + day as i128, day), (tmax - day as i128, day), (-1, 60_000_000_000)];
    for (ci, (now, leeway)) in configs.iter().enumerate() {
        let cs = claim_sets(*now, *leeway, tmin, tmax);
        let lv = leaves(*now, *leeway);
        // leaves x all claims
        for e in &lv {
            for c in &cs {
                n += 1;
                run_case(&mut rep, &mut model, e, c, n, "leaf");
            }
        }
        // one-level combinators (exhaustive over leaf pairs) x a spread of claims
        let l1 = combine1(&lv);
        let stride = if ctx.thorough() { 1 } else { 7 };
        for (i, e) in l1.iter().enumerate() {
            for (j, c) in cs.iter().enumerate() {
                if (i + j + ci) % stride == 0 {
                    n += 1;
                    run_case(&mut rep, &mut model, e, c, n, "depth1");
                }
            }
        }
        // random to depth 3
        let nr = if ctx.thorough() { 20_000 } else { 1_500 };
        for _ in 0..nr {
            let e = rand_expr(&mut g, 3, *now, *leeway);
            let c = g.pick(&cs).clone();
            n += 1;
            run_case(&mut rep, &mut model, &e, &c, n, "random-depth3");
        }
    }
    // the three string matchers, complete truth table over a pool of expected strings and claim values (absent, empty,
    // equal, prefix, case, padded, NUL-extended, non-ASCII): "accept iff the claim is present and equal"
    {
        let pool = ["", "a", "alice", "alice\0", "Alice", " alice", "alice ", "al", "\u{e9}", "aud", "issuer", "\0"];
        let now: i128 = 1_700_000_000_000_000_000;
        for which in 0..3 {
            for expected in pool {
                let e = match which { 0 => Expr::Sub(expected.into()), 1 => Expr::Iss(expected.into()), _ => Expr::Aud(expected.into()) };
                for have in std::iter::once(Option::None).chain(pool.iter().map(|x| Some(x.to_string()))) {
                    let mut c = RC { iss: Some("issuer".into()), sub: Some("alice".into()), aud: Some("aud".into()), exp: Some(ts(now)), nbf: Option::None, iat: Option::None, jti: Option::None };
                    match which { 0 => c.sub = have.clone(), 1 => c.iss = have.clone(), _ => c.aud = have.clone() };
                    n += 1;
                    run_case(&mut rep, &mut model, &e, &c, n, "string-matcher-table");
                    // the same matcher under and_then with an accepting and with a rejecting partner, both orders
                    if expected.len() <= 1 || have.is_none() {
                        for partner in [Expr::None, Expr::Time(now + 1)] {
                            n += 2;
                            run_case(&mut rep, &mut model, &Expr::And(Box::new(e.clone()), Box::new(partner.clone())), &c, n, "string-matcher-table");
                            run_case(&mut rep, &mut model, &Expr::And(Box::new(partner.clone()), Box::new(e.clone())), &c, n, "string-matcher-table");
                        }
                    }
                }
            }
        }
    }
    // pipeline on every backend (v1/v2 do not support implicit assertions)
    pipeline_for!(rep, g, "paseto-v1", V1, 32, b"");
    pipeline_for!(rep, g, "paseto-v2", V2, 24, b"");
    pipeline_for!(rep, g, "paseto-v3", V3, 32, b"assert");
    pipeline_for!(rep, g, "paseto-v3-aws-lc", V3L, 32, b"assert");
    pipeline_for!(rep, g, "paseto-v4", V4, 32, b"assert");
    pipeline_for!(rep, g, "paseto-v4-sodium", V4S, 32, b"assert");
    rep.finish(ctx.out.as_deref());
}
