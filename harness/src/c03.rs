//! C03 — tokens are bit-exact PASETO: each backend agrees with the specification and with its sibling.
//! S = SpecTokens.v (extracted), executed on every official vector; I = real API under caller nonces;
//! siblings compared pairwise; counter blocks near 2^64 / 2^128 reached through spec-built tokens (v1)
//! and through the IV hook (v3).
use crate::lab::{self, Backend, SealVia};
use crate::report::Report;
use crate::rng::SplitMix64;
use crate::sexp;
use crate::tok::{self, content, len_class, res_bytes, M};
use crate::Ctx;
use serde_json::{json, Value};

/// message lengths beyond the dense sweep: around every power of two up to 2^18, and a few odd large ones
const BIG_LENS: [usize; 30] = [1023, 1024, 1025, 2047, 2048, 2049, 4095, 4096, 4097, 8191, 8192, 8193, 16383, 16384, 16385, 32767, 32768, 32769, 65535, 65536, 65537, 100_000, 131_071, 131_072, 131_073, 200_003, 262_143, 262_144, 262_145, 300_000];

fn spec_local(m: &mut M, ver: &str, key: &[u8], n: &[u8], msg: &[u8], f: &[u8], i: &[u8]) -> Vec<u8> {
    let r = m.eval(&sexp::op("spec_local", vec![sexp::s(ver), sexp::x(key), sexp::x(n), sexp::x(msg), sexp::x(f), sexp::x(i)]));
    r.bytes().to_vec()
}

fn hexv(v: &Value, k: &str) -> Vec<u8> {
    hex::decode(v[k].as_str().unwrap_or("")).unwrap_or_default()
}

fn vectors(bs: &[Backend], m: &mut M, rep: &mut Report) {
    let dir = "/repo/paseto-test/tests/vectors";
    for ver in ["v1", "v2", "v3", "v4"] {
        let path = format!("{dir}/{ver}.json");
        let doc: Value = match std::fs::read_to_string(&path).ok().and_then(|s| serde_json::from_str(&s).ok()) {
            Some(d) => d,
            None => {
                rep.disagreement("c03.vectors.missing", format!("cannot read {path}"), json!({"file": path}));
                continue;
            }
        };
        for t in doc["tests"].as_array().cloned().unwrap_or_default() {
            if t["expect-fail"].as_bool().unwrap_or(false) {
                continue;
            }
            let name = t["name"].as_str().unwrap_or("?").to_string();
            let token = t["token"].as_str().unwrap_or("");
            let payload = t["payload"].as_str().unwrap_or("").as_bytes().to_vec();
            let footer = t["footer"].as_str().unwrap_or("").as_bytes().to_vec();
            let ia = t["implicit-assertion"].as_str().unwrap_or("").as_bytes().to_vec();
            let (tp, tf) = match lab::token_parts(token) {
                Some(x) => x,
                None => continue,
            };
            rep.evaluations += 1;
            rep.model_evaluations += 1;
            if t.get("nonce").is_some() {
                // local: the specification transcription must reproduce the official token
                if (ver == "v1" || ver == "v2") && !ia.is_empty() {
                    continue;
                }
                let got = spec_local(m, ver, &hexv(&t, "key"), &hexv(&t, "nonce"), &payload, &footer, &ia);
                if got != tp || tf != footer {
                    rep.disagreement("c03.spec-vs-vector", format!("SpecTokens.v does not reproduce official vector {name}"), json!({"vector": name}));
                } else {
                    rep.nontrivial(format!("vector|{name}"));
                    rep.count("vectors.local.reproduced-by-spec");
                }
                // and every backend of that version reproduces it too (under the vector's nonce)
                for b in bs.iter().filter(|b| b.ver == ver) {
                    let nonce = hexv(&t, "nonce");
                    let nonce = if ver == "v2" { nonce[..24.min(nonce.len())].to_vec() } else { nonce };
                    match (b.local_seal_nonce)(&hexv(&t, "key"), nonce, &payload, &footer, &ia) {
                        Ok(s) if s == token => rep.count("vectors.local.reproduced-by-impl"),
                        other => rep.violation(&format!("c03.{}.vector", b.name), format!("{} does not reproduce official vector {name}: {:?}", b.name, other), json!({"vector": name, "backend": b.name})),
                    }
                }
            } else {
                // public: deterministic schemes byte-identical, all accepted by the model's verifier
                let (sk, pk) = (hexv(&t, "secret-key"), hexv(&t, "public-key"));
                if (ver == "v1" || ver == "v2") && !ia.is_empty() {
                    continue;
                }
                for b in bs.iter().filter(|b| b.ver == ver) {
                    let (skb, pkb) = (sk.clone(), pk.clone());
                    match (b.public_verify)(&pkb, token, &ia, false) {
                        Ok((p2, _)) if p2 == payload => rep.count("vectors.public.accepted-by-impl"),
                        other => rep.violation(&format!("c03.{}.vector", b.name), format!("{} rejects official vector {name}: {:?}", b.name, other.map(|x| x.0.len())), json!({"vector": name, "backend": b.name})),
                    }
                    match m.public_unseal(b.name, &pkb, b"", &tp, &tf, &ia) {
                        Ok(p2) if p2 == payload => rep.count("vectors.public.accepted-by-model"),
                        other => rep.disagreement("c03.model-vs-vector", format!("model {} rejects official vector {name}: {:?}", b.name, other.map(|x| x.len())), json!({"vector": name})),
                    }
                    if b.name != "v1" && b.name != "v3-aws-lc" {
                        let msk = tok::model_sk(b, &skb);
                        match m.public_seal(b.name, &msk, b"", &payload, &footer, &ia) {
                            Ok(p) if p == tp => {
                                rep.count("vectors.public.reproduced-by-model");
                                rep.nontrivial(format!("vector|{name}|{}", b.name));
                            }
                            // the official v3 vectors were not produced with RFC 6979 nonces
                            Ok(_) if ver == "v3" => rep.count("vectors.public.v3-different-k"),
                            other => rep.disagreement("c03.model-vs-vector", format!("model {} does not reproduce {name}: {:?}", b.name, other.map(|x| x.len())), json!({"vector": name})),
                        }
                        match (b.public_sign)(&skb, &payload, &footer, &ia, SealVia::Seal) {
                            Ok(s) if s == token => rep.count("vectors.public.reproduced-by-impl"),
                            Ok(_) if ver == "v3" => {}
                            other => rep.violation(&format!("c03.{}.vector", b.name), format!("{} sign does not reproduce {name}: {:?}", b.name, other), json!({"vector": name, "backend": b.name})),
                        }
                    }
                }
            }
        }
    }
}

fn case_json(b: &str, key: &[u8], n: &[u8], msg: &[u8], f: &[u8], a: &[u8], forced: Option<[u8; 16]>) -> Value {
    json!({"backend": b, "key": hex::encode(key), "nonce": hex::encode(n), "m": hex::encode(msg), "f": hex::encode(f), "a": hex::encode(a),
           "forced_iv": forced.map(hex::encode)})
}

fn set_hook(iv: Option<[u8; 16]>) {
    paseto_v1::verif_hooks::force_iv(iv);
    paseto_v3::verif_hooks::force_iv(iv);
}

/// implementation under a caller-chosen nonce vs the specification (and the model)
fn impl_vs_spec(b: &Backend, m: &mut M, rep: &mut Report, key: &[u8], n: &[u8], msg: &[u8], f: &[u8], a: &[u8], forced: Option<[u8; 16]>) {
    rep.evaluations += 1;
    rep.model_evaluations += 1;
    if forced.is_some() && !(b.name == "v3") {
        return;
    }
    set_hook(forced);
    m.srv.force_iv = forced;
    let it = (b.local_seal_nonce)(key, n.to_vec(), msg, f, a);
    let spec = spec_local(m, b.ver, key, n, msg, f, a);
    let spec_tok = lab::token_string(b.ver, "local", &spec, f);
    let cls = format!("c03.{}.local", b.name);
    match &it {
        Ok(s) if *s == spec_tok => {
            rep.nontrivial(format!("{}|{}|f{}|a{}|iv{}", b.name, len_class(msg.len()), f.len().min(1), a.len().min(1), forced.map(|x| x[15]).unwrap_or(1)));
        }
        other => {
            rep.violation(&format!("{cls}.not-spec"), format!("{} token for this nonce differs from the specification's: impl {:?}", b.name, other.as_ref().map(|s| s.len())), case_json(b.name, key, n, msg, f, a, forced));
        }
    }
    // every specification-conforming token is accepted with the same claims
    match (b.local_decrypt)(key, &spec_tok, a, false) {
        Ok((m2, _)) if m2 == msg => {}
        other => rep.violation(&format!("{cls}.rejects-spec-token"), format!("{} does not return the claims of a specification-conforming token: {:?}", b.name, other.map(|x| hex::encode(&x.0[..x.0.len().min(48)]))), case_json(b.name, key, n, msg, f, a, forced)),
    }
    // ... also when it is read through a TYPED footer and carries footer bytes that are not the ones the type
    // would write (here: trailing spaces, like insignificant white space in a JSON footer): the specification
    // authenticates the footer bytes of the token, so the token is valid and its claims are the same
    if forced.is_none() && !f.is_empty() && f.last() != Some(&b' ') {
        let mut f2 = f.to_vec();
        f2.extend_from_slice(b"  ");
        rep.evaluations += 1;
        rep.model_evaluations += 1;
        let spec2 = spec_local(m, b.ver, key, n, msg, &f2, a);
        let tok2 = lab::token_string(b.ver, "local", &spec2, &f2);
        match (b.unseal_typed_footer)(true, key, &tok2, a) {
            Ok((m2, fd)) if m2 == msg && fd == f => {}
            other => rep.violation(&format!("{cls}.rejects-spec-token-typed-footer"), format!("{} does not return the claims of a specification-conforming token whose footer bytes end in white space when it is read through a typed footer: {:?}", b.name, other.map(|x| (x.0.len(), x.1.len()))), case_json(b.name, key, n, msg, &f2, a, forced)),
        }
    }
    set_hook(None);
    m.srv.force_iv = None;
}

pub fn run(ctx: &Ctx) {
    let mut rep = Report::new("C03", &ctx.tier, ctx.seed);
    rep.rule = "(1) SpecTokens.v executed on every official vector of paseto-test/tests/vectors/v*.json; every backend reproduces / accepts them; (2) dangerous_seal_with_nonce of every backend vs the specification for random / all-zero / all-ff nonces and block-boundary lengths, and decrypt of the specification's token; (3) v3 vs v3-aws-lc and v4 vs v4-sodium: identical output for identical nonce, mutual acceptance of encrypted and signed tokens; (4) counter blocks ff..ff, ff..fe, 00..00ff..ff, 7f..ff: v1 through specification-built tokens with chosen nonces, v3 through the IV hook; distinct = (backend, length class, footer, assertion, counter class) and vector names".into();
    let bs = lab::backends();
    let mut m = M::new(&ctx.model);
    let mut g = SplitMix64::new(ctx.seed ^ 0xC03);
    if let Some(path) = &ctx.replay {
        let v: Value = serde_json::from_str(&std::fs::read_to_string(path).expect("replay file")).expect("json");
        let r = &v["replay"];
        if let Some(b) = bs.iter().find(|b| b.name == r["backend"].as_str().unwrap_or("")) {
            let forced = r["forced_iv"].as_str().map(|s| <[u8; 16]>::try_from(hex::decode(s).unwrap().as_slice()).unwrap());
            if r["spec_nonce"].is_string() {
                v1_chosen_nonce(b, &mut m, &mut rep, &hexv(r, "key"), &hexv(r, "spec_nonce"), &hexv(r, "m"), &hexv(r, "f"));
            } else {
                impl_vs_spec(b, &mut m, &mut rep, &hexv(r, "key"), &hexv(r, "nonce"), &hexv(r, "m"), &hexv(r, "f"), &hexv(r, "a"), forced);
            }
        } else {
            vectors(&bs, &mut m, &mut rep);
        }
        rep.model_prim_calls = m.prim_calls();
        rep.finish(ctx.out.as_deref());
        return;
    }
    vectors(&bs, &mut m, &mut rep);
    let thorough = ctx.thorough();
    let lens: Vec<usize> = if thorough { vec![0, 1, 15, 16, 17, 31, 32, 33, 47, 48, 49, 63, 64, 65, 127, 128, 129, 255, 256, 257, 1000, 4097] } else { vec![0, 1, 16, 17, 32, 33, 48, 64, 65, 129] };
    // (2) implementation vs specification under caller nonces
    for b in &bs {
        for (i, &len) in lens.iter().enumerate() {
            for nk in 0..3 {
                let key = g.bytes(32);
                let n = match nk { 0 => g.bytes(b.nonce_len), 1 => vec![0u8; b.nonce_len], _ => vec![0xffu8; b.nonce_len] };
                let f = if i % 2 == 0 { vec![] } else { b"{\"kid\":1}".to_vec() };
                let a = if b.aad && i % 3 == 0 { b"ia".to_vec() } else { vec![] };
                let msg = content(&mut g, len);
                if rep.samples.len() < 5 && len == 17 {
                    rep.sample(case_json(b.name, &key, &n, &msg, &f, &a, None));
                }
                impl_vs_spec(b, &mut m, &mut rep, &key, &n, &msg, &f, &a, None);
            }
        }
    }
    // (4) counter blocks whose low 64 (or all 128) bits wrap inside the message
    let ivs: Vec<[u8; 16]> = vec![
        [0xff; 16],
        { let mut x = [0xffu8; 16]; x[15] = 0xfe; x },
        { let mut x = [0u8; 16]; for j in 8..16 { x[j] = 0xff; } x },
        { let mut x = [0xffu8; 16]; x[0] = 0x7f; x },
        { let mut x = [0x11u8; 16]; for j in 8..16 { x[j] = 0xff; } x[15] = 0xfd; x },
    ];
    for iv in &ivs {
        for &len in &[17usize, 33, 64, 100] {
            let key = g.bytes(32);
            let msg = content(&mut g, len);
            // v3 (RustCrypto): the derived counter block is forced on both sides
            let b3 = bs.iter().find(|b| b.name == "v3").unwrap();
            let n = g.bytes(32);
            impl_vs_spec(b3, &mut m, &mut rep, &key, &n, &msg, b"", b"", Some(*iv));
            // v1: the counter block is the second half of the nonce carried by the token
            let b1 = bs.iter().find(|b| b.name == "v1").unwrap();
            let mut n1 = g.bytes(32);
            n1[16..].copy_from_slice(iv);
            v1_chosen_nonce(b1, &mut m, &mut rep, &key, &n1, &msg, b"");
        }
    }
    // (3) siblings
    for (x, y) in [("v3", "v3-aws-lc"), ("v4", "v4-sodium")] {
        let bx = bs.iter().find(|b| b.name == x).unwrap();
        let by = bs.iter().find(|b| b.name == y).unwrap();
        // every message length 0..=600 and large ones around the powers of two (a backend that changes algorithm or
        // buffering strategy above a size threshold): identical tokens for identical key and nonce
        {
            let key = g.bytes(32);
            for len in (0..=600usize).chain(BIG_LENS.iter().copied()) {
                rep.evaluations += 1;
                let n = g.bytes(32);
                let msg = content(&mut g, len);
                let tx = (bx.local_seal_nonce)(&key, n.clone(), &msg, b"footer-10b", b"implicit-12b");
                let ty = (by.local_seal_nonce)(&key, n.clone(), &msg, b"footer-10b", b"implicit-12b");
                if tx != ty || tx.is_err() {
                    rep.violation(&format!("c03.siblings.{x}.local"), format!("{x} and {y} produce different tokens for the same key and nonce ({len}-byte message)"), case_json(x, &key, &n, &msg, b"footer-10b", b"implicit-12b", None));
                    break;
                }
            }
        }
        for &len in &lens {
            rep.evaluations += 1;
            let key = g.bytes(32);
            let n = g.bytes(32);
            let msg = content(&mut g, len);
            let f = if len % 2 == 0 { vec![] } else { b"f".to_vec() };
            let a = if len % 3 == 0 { vec![] } else { b"a".to_vec() };
            let tx = (bx.local_seal_nonce)(&key, n.clone(), &msg, &f, &a);
            let ty = (by.local_seal_nonce)(&key, n.clone(), &msg, &f, &a);
            if tx != ty || tx.is_err() {
                rep.violation(&format!("c03.siblings.{x}.local"), format!("{x} and {y} produce different tokens for the same key and nonce"), case_json(x, &key, &n, &msg, &f, &a, None));
                continue;
            }
            rep.nontrivial(format!("sib|{x}|local|{}", len_class(len)));
            // own-nonce tokens of each accepted by the other
            for (p, q) in [(bx, by), (by, bx)] {
                if let Ok(t) = (p.local_encrypt)(&key, &msg, &f, &a, SealVia::Seal) {
                    match (q.local_decrypt)(&key, &t, &a, false) {
                        Ok((m2, _)) if m2 == msg => {}
                        other => rep.violation(&format!("c03.siblings.{x}.local-accept"), format!("{} rejects {}'s token: {:?}", q.name, p.name, other.map(|z| z.0.len())), json!({"token": t, "key": hex::encode(&key), "a": hex::encode(&a)})),
                    }
                }
            }
        }
        let kps = tok::keypairs(bx, &mut g, 1);
        // payload types with a non-empty SUFFIX ("v4x.local."): each backend seals, the OTHER one unseals — the header the
        // two authenticate must be the specification's version || suffix || purpose for both
        for purpose in ["local", "public"] {
            let Some(kp) = kps.first() else { continue };
            let (sealk, unsealk) = if purpose == "local" { let k = g.bytes(32); (k.clone(), k) } else { (kp.sk.clone(), kp.pk.clone()) };
            for (p, q) in [(bx, by), (by, bx)] {
                for len in [0usize, 17, 64] {
                    rep.evaluations += 1;
                    let msg = content(&mut g, len);
                    match (p.seal_x)(purpose, &sealk, &msg, b"f", b"ia") {
                        Ok(t) => match (q.unseal_x)(purpose, &unsealk, &t, b"ia") {
                            Ok((m2, _)) if m2 == msg => rep.nontrivial(format!("sib|{x}|{purpose}|suffix")),
                            other => rep.violation(&format!("c03.siblings.{x}.{purpose}.suffix-accept"), format!("{} rejects {}'s {purpose} token of a payload type with suffix \"x\": {:?}", q.name, p.name, other.map(|z| z.0.len())), json!({"token": t, "key": hex::encode(&unsealk), "a": hex::encode(b"ia")})),
                        },
                        Err(e) => rep.violation(&format!("c03.siblings.{x}.{purpose}.suffix-seal"), format!("{} cannot seal a payload type with suffix \"x\": {e}", p.name), json!({"key": hex::encode(&sealk)})),
                    }
                }
            }
        }
        // the same sweep over the FOOTER and the ASSERTION length (1..=300 and around powers of two), 5-byte message:
        // local tokens identical for identical nonce, signed tokens verified by the other backend
        if let Some(kp) = kps.first() {
            let key = g.bytes(32);
            'piece: for which in ["footer", "assertion"] {
                for len in (1..=300usize).chain([511usize, 512, 513, 1023, 1024, 1025, 4095, 4096, 4097, 65536]) {
                    let swept = content(&mut g, len);
                    let (f, a): (Vec<u8>, Vec<u8>) = if which == "footer" { (swept, b"ia".to_vec()) } else { (b"f".to_vec(), swept) };
                    rep.evaluations += 3;
                    let n = g.bytes(32);
                    let tx = (bx.local_seal_nonce)(&key, n.clone(), b"five!", &f, &a);
                    let ty = (by.local_seal_nonce)(&key, n.clone(), b"five!", &f, &a);
                    if tx != ty || tx.is_err() {
                        rep.violation(&format!("c03.siblings.{x}.local"), format!("{x} and {y} produce different tokens for the same key and nonce ({len}-byte {which})"), case_json(x, &key, &n, b"five!", &f, &a, None));
                        break 'piece;
                    }
                    for (signer, verifier) in [(bx, by), (by, bx)] {
                        match (signer.public_sign)(&kp.sk, b"five!", &f, &a, SealVia::Seal) {
                            Ok(t) => match (verifier.public_verify)(&kp.pk, &t, &a, false) {
                                Ok((m2, _)) if m2 == b"five!" => {}
                                other => {
                                    rep.violation(&format!("c03.siblings.{x}.public-accept"), format!("{} rejects {}'s signed token with a {len}-byte {which}: {:?}", verifier.name, signer.name, other.map(|z| z.0.len())), json!({"token": t, "pk": hex::encode(&kp.pk), "a": hex::encode(&a)}));
                                    break 'piece;
                                }
                            },
                            Err(e) => {
                                rep.violation(&format!("c03.siblings.{x}.sign"), format!("{} sign failed for a {len}-byte {which}: {e}", signer.name), json!({"sk": hex::encode(&kp.sk)}));
                                break 'piece;
                            }
                        }
                    }
                }
            }
            rep.count_n(&format!("siblings.{x}.piece-length-sweep"), 620);
        }
        // public: each verifies the other's signatures; deterministic pair byte-identical
        // every message length 0..=600 (fixed 10-byte footer, 12-byte assertion): each backend signs, the OTHER one
        // verifies — a pre-authentication encoding that goes wrong only in some length window is self-consistent
        // inside one backend and shows only across the pair
        if let Some(kp) = kps.first() {
            let step = 1;
            'sweep: for len in (0..=600usize).step_by(step).chain(BIG_LENS.iter().copied()) {
                let msg = content(&mut g, len);
                for (signer, verifier) in [(bx, by), (by, bx)] {
                    rep.evaluations += 1;
                    match (signer.public_sign)(&kp.sk, &msg, b"footer-10b", b"implicit-12b", SealVia::Seal) {
                        Ok(t) => match (verifier.public_verify)(&kp.pk, &t, b"implicit-12b", false) {
                            Ok((m2, _)) if m2 == msg => {}
                            other => {
                                rep.violation(&format!("c03.siblings.{x}.public-accept"), format!("{} rejects {}'s signed token with a {len}-byte message: {:?}", verifier.name, signer.name, other.map(|z| z.0.len())), json!({"token": t, "pk": hex::encode(&kp.pk)}));
                                break 'sweep;
                            }
                        },
                        Err(e) => {
                            rep.violation(&format!("c03.siblings.{x}.sign"), format!("{} sign failed for a {len}-byte message: {e}", signer.name), json!({"sk": hex::encode(&kp.sk)}));
                            break 'sweep;
                        }
                    }
                }
            }
            rep.count_n(&format!("siblings.{x}.public.length-sweep"), 601 / step as u64);
        }
        for kp in &kps {
            for &len in &[0usize, 17, 64] {
                rep.evaluations += 1;
                let msg = content(&mut g, len);
                let sx = (bx.public_sign)(&kp.sk, &msg, b"ft", b"ia", SealVia::Seal);
                let sy = (by.public_sign)(&kp.sk, &msg, b"ft", b"ia", SealVia::Seal);
                let pky = (by.public_of_secret)(&kp.sk);
                if pky.as_ref().ok() != Some(&kp.pk) {
                    rep.violation(&format!("c03.siblings.{x}.public-key"), format!("{x} and {y} derive different public keys from the same secret key"), json!({"sk": hex::encode(&kp.sk)}));
                    continue;
                }
                for (signed, verifier) in [(&sx, by), (&sy, bx), (&sx, bx), (&sy, by)] {
                    match signed {
                        Ok(t) => match (verifier.public_verify)(&kp.pk, t, b"ia", false) {
                            Ok((m2, _)) if m2 == msg => {}
                            other => rep.violation(&format!("c03.siblings.{x}.public-accept"), format!("{} rejects a sibling's signed token: {:?}", verifier.name, other.map(|z| z.0.len())), json!({"token": t, "pk": hex::encode(&kp.pk)})),
                        },
                        Err(e) => rep.violation(&format!("c03.siblings.{x}.sign"), format!("sign failed: {e}"), json!({"sk": hex::encode(&kp.sk)})),
                    }
                }
                // the same again AFTER a rejected verification on this thread (a token under the wrong implicit
                // assertion reaches the signature check and fails): bit-exactness may not depend on what was
                // verified before
                if let Ok(t) = &sx {
                    for v in [bx, by] {
                        if (v.public_verify)(&kp.pk, t, b"another assertion", false).is_ok() {
                            rep.violation(&format!("c03.siblings.{x}.public-accept-wrong-assertion"), format!("{} verifies a token under another implicit assertion", v.name), json!({"token": t, "pk": hex::encode(&kp.pk)}));
                        }
                    }
                    let sx2 = (bx.public_sign)(&kp.sk, &msg, b"ft", b"ia", SealVia::Seal);
                    let sy2 = (by.public_sign)(&kp.sk, &msg, b"ft", b"ia", SealVia::Seal);
                    for (signed, verifier) in [(&sx2, by), (&sy2, bx), (&sx, by), (&sy, bx)] {
                        match signed {
                            Ok(t) => match (verifier.public_verify)(&kp.pk, t, b"ia", false) {
                                Ok((m2, _)) if m2 == msg => {}
                                other => rep.violation(&format!("c03.siblings.{x}.public-accept-after-rejection"), format!("after a rejected verification {} rejects a sibling's signed token: {:?}", verifier.name, other.map(|z| z.0.len())), json!({"token": t, "pk": hex::encode(&kp.pk)})),
                            },
                            Err(e) => rep.violation(&format!("c03.siblings.{x}.sign"), format!("sign failed after a rejected verification: {e}"), json!({"sk": hex::encode(&kp.sk)})),
                        }
                    }
                    if x == "v4" && (sx2 != sx || sy2 != sy) {
                        rep.violation("c03.siblings.v4.public-bytes-after-rejection", "the Ed25519 token for the same key and message differs after a rejected verification".into(), json!({"sk": hex::encode(&kp.sk), "m": hex::encode(&msg)}));
                    }
                }
                if x == "v4" && sx != sy {
                    rep.violation("c03.siblings.v4.public-bytes", "Ed25519 signatures of v4 and v4-sodium differ for the same key and message".into(), json!({"sk": hex::encode(&kp.sk), "m": hex::encode(&msg)}));
                }
                rep.nontrivial(format!("sib|{x}|public|{}|{}", kp.source, len_class(len)));
            }
        }
    }
    rep.model_prim_calls = m.prim_calls();
    rep.finish(ctx.out.as_deref());
}

/// v1: a specification-conforming token with ANY chosen 32-byte nonce must decrypt to the same claims
fn v1_chosen_nonce(b: &Backend, m: &mut M, rep: &mut Report, key: &[u8], n: &[u8], msg: &[u8], f: &[u8]) {
    rep.evaluations += 1;
    rep.model_evaluations += 1;
    let spec = spec_local(m, "v1-with-nonce", key, n, msg, f, b"");
    let t = lab::token_string("v1", "local", &spec, f);
    match (b.local_decrypt)(key, &t, b"", false) {
        Ok((m2, _)) if m2 == msg => rep.nontrivial(format!("v1|chosen-nonce|{}|{}", len_class(msg.len()), hex::encode(&n[30..]))),
        other => rep.violation("c03.v1.local.rejects-spec-token", format!("v1 decrypt of a specification-conforming token (counter block {}) returned {:?} instead of the claims", hex::encode(&n[16..]), other.map(|x| hex::encode(&x.0[..x.0.len().min(48)]))),
                               json!({"backend": "v1", "key": hex::encode(key), "spec_nonce": hex::encode(n), "m": hex::encode(msg), "f": hex::encode(f)})),
    }
    // the model agrees with the specification here as well
    match res_bytes(&m.eval(&sexp::op("local_unseal", vec![sexp::s("v1"), sexp::x(key), sexp::x(b""), sexp::x(&spec), sexp::x(f), sexp::x(b"")]))) {
        Ok(m2) if m2 == msg => {}
        other => rep.disagreement("c03.v1.model-vs-spec", format!("model v1 unseal of the specification's token: {:?}", other.map(|x| x.len())), json!({"key": hex::encode(key), "spec_nonce": hex::encode(n)})),
    }
}
