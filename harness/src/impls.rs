//! The real API of /repo, instantiated uniformly at all six backends.
use paseto_core::key::{HasKey, KeyType, SealingKey};
use paseto_core::paserk::{IdVersion, KeyId, KeyText, PasswordWrappedKey, PieWrapVersion, PieWrappedKey, PwWrapVersion, SealedKey};
use paseto_core::tokens::SealedToken;
use paseto_core::version::{Local, PkePublic, PkeSecret, Public, Secret, Version};
use paseto_core::PasetoError;
use std::str::FromStr;

pub type V1 = paseto_v1::core::V1;
pub type V2 = paseto_v2::core::V2;
pub type V3 = paseto_v3::core::V3;
pub type V3L = paseto_v3_aws_lc::core::V3;
pub type V4 = paseto_v4::core::V4;
pub type V4S = paseto_v4_sodium::core::V4;

pub const BACKENDS: [&str; 6] = ["paseto-v1", "paseto-v2", "paseto-v3", "paseto-v3-aws-lc", "paseto-v4", "paseto-v4-sodium"];

pub fn err_name(e: &PasetoError) -> &'static str {
    match e {
        PasetoError::Base64DecodeError => "Base64DecodeError",
        PasetoError::InvalidKey => "InvalidKey",
        PasetoError::InvalidToken => "InvalidToken",
        PasetoError::CryptoError => "CryptoError",
        PasetoError::ClaimsError => "ClaimsError",
        PasetoError::PayloadError(_) => "PayloadError",
        _ => "Other",
    }
}

/// A payload type that carries raw bytes (so that every byte string is "encodable").
#[derive(Clone, Debug, PartialEq, Eq)]
pub struct Raw(pub Vec<u8>);
impl paseto_core::encodings::Payload for Raw {
    const SUFFIX: &'static str = "";
    fn encode(self, mut writer: impl paseto_core::encodings::WriteBytes) -> Result<(), Box<dyn std::error::Error + Send + Sync>> {
        writer.write(&self.0);
        Ok(())
    }
    fn decode(payload: &[u8]) -> Result<Self, Box<dyn std::error::Error + Send + Sync>> {
        Ok(Raw(payload.to_vec()))
    }
}

/// A TYPED footer whose wire form is not unique: decoding drops trailing spaces, encoding writes the value
/// without them (like a JSON footer, whose text may carry insignificant white space or members the type does not
/// model).  What a token authenticates is the footer BYTES it carries, so "F" and "F " are different tokens even
/// though both decode to the same typed footer.
#[derive(Clone, Debug, PartialEq, Eq)]
pub struct TrimFooter(pub Vec<u8>);
impl paseto_core::encodings::Footer for TrimFooter {
    fn encode(&self, mut writer: impl paseto_core::encodings::WriteBytes) -> Result<(), Box<dyn std::error::Error + Send + Sync>> {
        writer.write(&self.0);
        Ok(())
    }
    fn decode(footer: &[u8]) -> Result<Self, Box<dyn std::error::Error + Send + Sync>> {
        let mut v = footer.to_vec();
        while v.last() == Some(&b' ') {
            v.pop();
        }
        Ok(TrimFooter(v))
    }
}

/// The same with a non-empty `Payload::SUFFIX` ("x"): tokens read `v4x.local....`
#[derive(Clone, Debug, PartialEq, Eq)]
pub struct RawX(pub Vec<u8>);
impl paseto_core::encodings::Payload for RawX {
    const SUFFIX: &'static str = "x";
    fn encode(self, mut writer: impl paseto_core::encodings::WriteBytes) -> Result<(), Box<dyn std::error::Error + Send + Sync>> {
        writer.write(&self.0);
        Ok(())
    }
    fn decode(payload: &[u8]) -> Result<Self, Box<dyn std::error::Error + Send + Sync>> {
        Ok(RawX(payload.to_vec()))
    }
}

/// What the outside world can observe of a text parser on one input.
#[derive(Clone, Debug, PartialEq, Eq)]
pub struct TextOutcome {
    /// Ok(re-serialisation) or Err(kind) or Err("panic")
    pub res: Result<String, String>,
    /// raw bytes where the type exposes them (KeyText, KeyId), footer for tokens
    pub raw: Option<Vec<u8>>,
    /// serde: to_string(value) == "\"" + Display + "\""  and  from_str(quoted) succeeds iff parse does
    pub serde_ok: bool,
}

#[derive(Clone, Copy, Debug, PartialEq, Eq)]
pub enum Family {
    Paserk,
    KeyId,
    TokenVec,
    TokenUnit,
}

pub struct TextType {
    pub backend: &'static str,
    pub kind: &'static str,
    pub family: Family,
    pub ver: &'static str,
    pub hdr: &'static str,
    pub probe: fn(&str) -> TextOutcome,
}

fn catch<T>(f: impl FnOnce() -> T + std::panic::UnwindSafe) -> Result<T, String> {
    std::panic::catch_unwind(f).map_err(|_| "panic".to_string())
}

fn quoted(s: &str) -> String {
    serde_json::to_string(s).unwrap()
}

fn probe_generic<T>(s: &str, raw: fn(&T) -> Option<Vec<u8>>) -> TextOutcome
where
    T: FromStr<Err = PasetoError> + std::fmt::Display + serde::Serialize + serde::de::DeserializeOwned,
{
    let s2 = s.to_string();
    let r = catch(move || match T::from_str(&s2) {
        Ok(v) => {
            let text = v.to_string();
            let ser = serde_json::to_string(&v).ok();
            let ser_ok = ser.as_deref() == Some(&quoted(&text));
            let de_ok = serde_json::from_str::<T>(&quoted(&s2)).map(|w| w.to_string() == text).unwrap_or(false);
            (Ok(text), raw(&v), ser_ok && de_ok)
        }
        Err(e) => {
            let de_err = serde_json::from_str::<T>(&quoted(&s2)).is_err();
            (Err(err_name(&e).to_string()), None, de_err)
        }
    });
    match r {
        Ok((res, raw, serde_ok)) => TextOutcome { res, raw, serde_ok },
        Err(p) => TextOutcome { res: Err(p), raw: None, serde_ok: false },
    }
}

fn raw_none<T>(_: &T) -> Option<Vec<u8>> {
    None
}

macro_rules! text_types_for {
    ($out:ident, $name:literal, $V:ty) => {{
        fn kt<K: KeyType>(s: &str) -> TextOutcome {
            probe_generic::<KeyText<$V, K>>(s, |v| Some(v.as_raw_bytes().to_vec()))
        }
        fn kid<K: KeyType>(s: &str) -> TextOutcome {
            probe_generic::<KeyId<$V, K>>(s, |v| Some(v.as_bytes().to_vec()))
        }
        fn pie<K: SealingKey>(s: &str) -> TextOutcome {
            probe_generic::<PieWrappedKey<$V, K>>(s, raw_none)
        }
        fn pw<K: SealingKey>(s: &str) -> TextOutcome {
            probe_generic::<PasswordWrappedKey<$V, K>>(s, raw_none)
        }
        fn seal(s: &str) -> TextOutcome {
            probe_generic::<SealedKey<$V>>(s, raw_none)
        }
        fn tok_vec<P: paseto_core::version::Purpose>(s: &str) -> TextOutcome {
            probe_generic::<SealedToken<$V, P, Raw, Vec<u8>>>(s, |v| Some(v.unverified_footer().clone()))
        }
        fn tok_unit<P: paseto_core::version::Purpose>(s: &str) -> TextOutcome {
            probe_generic::<SealedToken<$V, P, Raw, ()>>(s, |_| Some(vec![]))
        }
        // the header strings are the SPECIFICATION's (PASERK types.md, PASETO protocol versions), written out here: what
        // the library's constants say is part of what is being tested
        let (ver, tv): (&'static str, &'static str) = match $name {
            "paseto-v1" => ("k1", "v1"),
            "paseto-v2" => ("k2", "v2"),
            "paseto-v3" | "paseto-v3-aws-lc" => ("k3", "v3"),
            _ => ("k4", "v4"),
        };
        let mut add = |kind: &'static str, family: Family, ver: &'static str, hdr: &'static str, probe: fn(&str) -> TextOutcome| {
            $out.push(TextType { backend: $name, kind, family, ver, hdr, probe });
        };
        add("key.local", Family::Paserk, ver, ".local.", kt::<Local>);
        add("key.public", Family::Paserk, ver, ".public.", kt::<Public>);
        add("key.secret", Family::Paserk, ver, ".secret.", kt::<Secret>);
        add("key.pke-public", Family::Paserk, ver, ".public.", kt::<PkePublic>);
        add("key.pke-secret", Family::Paserk, ver, ".secret.", kt::<PkeSecret>);
        add("id.local", Family::KeyId, ver, ".lid.", kid::<Local>);
        add("id.public", Family::KeyId, ver, ".pid.", kid::<Public>);
        add("id.secret", Family::KeyId, ver, ".sid.", kid::<Secret>);
        add("id.pke-public", Family::KeyId, ver, ".pid.", kid::<PkePublic>);
        add("id.pke-secret", Family::KeyId, ver, ".sid.", kid::<PkeSecret>);
        add("pie.local", Family::Paserk, ver, ".local-wrap.pie.", pie::<Local>);
        add("pie.secret", Family::Paserk, ver, ".secret-wrap.pie.", pie::<Secret>);
        add("pw.local", Family::Paserk, ver, ".local-pw.", pw::<Local>);
        add("pw.secret", Family::Paserk, ver, ".secret-pw.", pw::<Secret>);
        add("seal", Family::Paserk, ver, ".seal.", seal);
        add("token.local", Family::TokenVec, tv, ".local.", tok_vec::<Local>);
        add("token.public", Family::TokenVec, tv, ".public.", tok_vec::<Public>);
        add("token.local.nofooter", Family::TokenUnit, tv, ".local.", tok_unit::<Local>);
        add("token.public.nofooter", Family::TokenUnit, tv, ".public.", tok_unit::<Public>);
    }};
}

pub fn text_types() -> Vec<TextType> {
    let mut out = Vec::new();
    text_types_for!(out, "paseto-v1", V1);
    text_types_for!(out, "paseto-v2", V2);
    text_types_for!(out, "paseto-v3", V3);
    text_types_for!(out, "paseto-v3-aws-lc", V3L);
    text_types_for!(out, "paseto-v4", V4);
    text_types_for!(out, "paseto-v4-sodium", V4S);
    out
}

// keep the trait imports used
#[allow(dead_code)]
fn _uses<V: IdVersion + PieWrapVersion + PwWrapVersion + HasKey<Local>>() {}
