//! lab — one uniform, byte-level view of the real public API of all six backends.
//! Every function runs under `catch_unwind`; results are `Ok(bytes)` / `Err(kind)` / `Err("panic")`.
//! Keys go in as raw key bytes (the same bytes `KeyText::from_raw_bytes` takes), tokens as strings.
use crate::impls::{err_name, Raw, RawX, V1, V2, V3, V3L, V4, V4S};
use paseto_core::key::{HasKey, Key};
use paseto_core::paserk::KeyText;
use paseto_core::tokens::{SealedToken, UnsealedToken};
use paseto_core::validation::NoValidation;
use paseto_core::version::{Local, Public, Secret, SealingVersion, UnsealingVersion};
use paseto_core::PasetoError;
use std::panic::{catch_unwind, AssertUnwindSafe};
use std::str::FromStr;

pub type R<T> = Result<T, String>;

pub fn guard<T>(f: impl FnOnce() -> Result<T, PasetoError>) -> R<T> {
    match catch_unwind(AssertUnwindSafe(f)) {
        Ok(Ok(v)) => Ok(v),
        Ok(Err(e)) => Err(err_name(&e).to_string()),
        Err(_) => Err("panic".to_string()),
    }
}

/// when set, every key the byte-level API builds is cloned and the original dropped before use: `Clone` for key types
/// is hand-written in several backends, and users clone keys because the wrapping operations consume them
pub static CLONE_KEYS: std::sync::atomic::AtomicBool = std::sync::atomic::AtomicBool::new(false);

pub fn key_from<V: HasKey<K>, K: paseto_core::key::KeyType>(bytes: &[u8]) -> Result<Key<V, K>, PasetoError>
where
    Key<V, K>: Clone,
{
    let k: Key<V, K> = KeyText::<V, K>::from_raw_bytes(bytes).try_into()?;
    if CLONE_KEYS.load(std::sync::atomic::Ordering::Relaxed) {
        let c = k.clone();
        drop(k);
        return Ok(c);
    }
    Ok(k)
}

pub fn key_bytes<V: HasKey<K>, K: paseto_core::key::KeyType>(k: &Key<V, K>) -> Vec<u8> {
    k.expose_key().as_raw_bytes().to_vec()
}

/// which entry point of the sealing API a case goes through
#[derive(Clone, Copy, Debug, PartialEq, Eq)]
pub enum SealVia {
    /// UnsealedToken::seal (generic)
    Seal,
    /// encrypt / sign (no aad argument; only used with empty aad)
    Plain,
    /// encrypt_with_aad / sign_with_aad
    WithAad,
}

pub struct Backend {
    pub name: &'static str,
    /// "v1".."v4": the PASETO version header
    pub ver: &'static str,
    /// the library's randomness goes through getrandom 0.3 (scriptable by the harness)
    pub scripted_rng: bool,
    /// implicit assertions supported
    pub aad: bool,
    pub nonce_len: usize,
    pub local_tag_len: usize,
    pub sig_len: usize,
    /// token string from dangerous_seal_with_nonce
    pub local_seal_nonce: fn(&[u8], Vec<u8>, &[u8], &[u8], &[u8]) -> R<String>,
    /// token string from the library's own nonce path
    pub local_encrypt: fn(&[u8], &[u8], &[u8], &[u8], SealVia) -> R<String>,
    /// (claims, footer)
    pub local_decrypt: fn(&[u8], &str, &[u8], bool) -> R<(Vec<u8>, Vec<u8>)>,
    /// unseal (local / public by the flag) through a TYPED footer (impls::TrimFooter); returns claims and the decoded footer
    pub unseal_typed_footer: fn(bool, &[u8], &str, &[u8]) -> R<(Vec<u8>, Vec<u8>)>,
    pub public_sign: fn(&[u8], &[u8], &[u8], &[u8], SealVia) -> R<String>,
    pub public_verify: fn(&[u8], &str, &[u8], bool) -> R<(Vec<u8>, Vec<u8>)>,
    /// LocalKey::random() -> raw bytes
    pub local_random: fn() -> R<Vec<u8>>,
    /// SecretKey::random() -> encoded secret key
    pub secret_random: fn() -> R<Vec<u8>>,
    /// SecretKey -> public_key() -> encoded
    pub public_of_secret: fn(&[u8]) -> R<Vec<u8>>,
    /// decode + re-encode, by kind: "local" | "public" | "secret" | "pke-public" | "pke-secret"
    pub key_roundtrip: fn(&str, &[u8]) -> R<Vec<u8>>,
    /// LocalKey::from([u8;32]) -> bytes
    pub local_from_array: fn([u8; 32]) -> R<Vec<u8>>,
    /// parse two key-id strings of a kind ("local" | "public" | "secret"): (a == b, a.cmp(b) as -1/0/1, hash(a) == hash(b), a.as_bytes(), b.as_bytes())
    pub keyid_cmp: fn(&str, &str, &str) -> R<(bool, i8, bool, Vec<u8>, Vec<u8>)>,
    /// decode, clone, drop the original, re-encode the clone: by kind
    pub key_clone: fn(&str, &[u8]) -> R<Vec<u8>>,
    /// the same with a payload type whose SUFFIX is "x": (purpose, sealing key bytes, m, f, a) -> token string
    pub seal_x: fn(&str, &[u8], &[u8], &[u8], &[u8]) -> R<String>,
    /// (purpose, unsealing key bytes, token, a) -> (claims, footer)
    pub unseal_x: fn(&str, &[u8], &str, &[u8]) -> R<(Vec<u8>, Vec<u8>)>,
    /// PASERK.  kind: "local" | "secret"
    pub pie_wrap: fn(&str, &[u8], &[u8]) -> R<String>,
    pub pie_unwrap: fn(&str, &[u8], &str) -> R<Vec<u8>>,
    /// (kind, password, raw parameter bytes or None for the defaults, key bytes)
    pub pw_wrap: fn(&str, &[u8], Option<&[u8]>, &[u8]) -> R<String>,
    pub pw_unwrap: fn(&str, &[u8], &str) -> R<Vec<u8>>,
    /// (recipient public key bytes, local key bytes)
    pub pke_seal: fn(&[u8], &[u8]) -> R<String>,
    /// (recipient secret key bytes, sealed string) -> local key bytes
    pub pke_unseal: fn(&[u8], &str) -> R<Vec<u8>>,
    /// key id string, by kind "local" | "public" | "secret"
    pub key_id: fn(&str, &[u8]) -> R<String>,
    /// PASERK text of a key after decoding: by kind
    pub key_text: fn(&str, &[u8]) -> R<String>,
    /// Key::from_str then re-encode, by kind
    pub key_parse: fn(&str, &str) -> R<Vec<u8>>,
    /// Key::from_str then Display (of the key, or of its exposed text), by kind incl. the PKE kinds
    pub key_reprint: fn(&str, &str) -> R<String>,
    pub pw_prefix_len: usize,
    pub pw_param_off: usize,
    pub pw_param_len: usize,
}

macro_rules! backend {
    ($name:literal, $ver:literal, $V:ty, $scripted:expr, $aad:expr, $nl:expr, $tl:expr, $sl:expr, $pl:expr, $po:expr, $pn:expr) => {{
        fn local_seal_nonce(key: &[u8], nonce: Vec<u8>, m: &[u8], f: &[u8], a: &[u8]) -> R<String> {
            guard(|| {
                let k = key_from::<$V, Local>(key)?;
                let t = UnsealedToken::<$V, Local, Raw>::new(Raw(m.to_vec())).with_footer(f.to_vec());
                Ok(t.dangerous_seal_with_nonce(&k, a, nonce)?.to_string())
            })
        }
        fn local_encrypt(key: &[u8], m: &[u8], f: &[u8], a: &[u8], via: SealVia) -> R<String> {
            guard(|| {
                let k = key_from::<$V, Local>(key)?;
                let t = UnsealedToken::<$V, Local, Raw>::new(Raw(m.to_vec())).with_footer(f.to_vec());
                Ok(match via {
                    SealVia::Seal => t.seal(&k, a)?,
                    SealVia::Plain => t.encrypt(&k)?,
                    SealVia::WithAad => t.encrypt_with_aad(&k, a)?,
                }
                .to_string())
            })
        }
        fn local_decrypt(key: &[u8], tok: &str, a: &[u8], plain: bool) -> R<(Vec<u8>, Vec<u8>)> {
            guard(|| {
                let k = key_from::<$V, Local>(key)?;
                let t = SealedToken::<$V, Local, Raw, Vec<u8>>::from_str(tok)?;
                let u = if plain { t.decrypt(&k, &NoValidation::dangerous_no_validation())? } else { t.decrypt_with_aad(&k, a, &NoValidation::dangerous_no_validation())? };
                Ok((u.claims.0, u.footer))
            })
        }
        fn unseal_typed_footer(local: bool, key: &[u8], tok: &str, a: &[u8]) -> R<(Vec<u8>, Vec<u8>)> {
            guard(|| {
                if local {
                    let k = key_from::<$V, Local>(key)?;
                    let t = SealedToken::<$V, Local, Raw, crate::impls::TrimFooter>::from_str(tok)?;
                    let u = t.unseal(&k, a, &NoValidation::dangerous_no_validation())?;
                    Ok((u.claims.0, u.footer.0))
                } else {
                    let k = key_from::<$V, Public>(key)?;
                    let t = SealedToken::<$V, Public, Raw, crate::impls::TrimFooter>::from_str(tok)?;
                    let u = t.unseal(&k, a, &NoValidation::dangerous_no_validation())?;
                    Ok((u.claims.0, u.footer.0))
                }
            })
        }
        fn public_sign(sk: &[u8], m: &[u8], f: &[u8], a: &[u8], via: SealVia) -> R<String> {
            guard(|| {
                let k = key_from::<$V, Secret>(sk)?;
                let t = UnsealedToken::<$V, Public, Raw>::new(Raw(m.to_vec())).with_footer(f.to_vec());
                Ok(match via {
                    SealVia::Seal => t.seal(&k, a)?,
                    SealVia::Plain => t.sign(&k)?,
                    SealVia::WithAad => t.sign_with_aad(&k, a)?,
                }
                .to_string())
            })
        }
        fn public_verify(pk: &[u8], tok: &str, a: &[u8], plain: bool) -> R<(Vec<u8>, Vec<u8>)> {
            guard(|| {
                let k = key_from::<$V, Public>(pk)?;
                let t = SealedToken::<$V, Public, Raw, Vec<u8>>::from_str(tok)?;
                let u = if plain { t.verify(&k, &NoValidation::dangerous_no_validation())? } else { t.verify_with_aad(&k, a, &NoValidation::dangerous_no_validation())? };
                Ok((u.claims.0, u.footer))
            })
        }
        fn local_random() -> R<Vec<u8>> {
            guard(|| Ok(key_bytes(&paseto_core::LocalKey::<$V>::random()?)))
        }
        fn secret_random() -> R<Vec<u8>> {
            guard(|| Ok(key_bytes(&paseto_core::SecretKey::<$V>::random()?)))
        }
        fn public_of_secret(sk: &[u8]) -> R<Vec<u8>> {
            guard(|| Ok(key_bytes(&key_from::<$V, Secret>(sk)?.public_key())))
        }
        fn key_roundtrip(kind: &str, b: &[u8]) -> R<Vec<u8>> {
            use paseto_core::version::{PkePublic, PkeSecret};
            let kind = kind.to_string();
            guard(|| {
                Ok(match kind.as_str() {
                    "local" => key_bytes(&key_from::<$V, Local>(b)?),
                    "public" => key_bytes(&key_from::<$V, Public>(b)?),
                    "secret" => key_bytes(&key_from::<$V, Secret>(b)?),
                    "pke-public" => key_bytes(&key_from::<$V, PkePublic>(b)?),
                    "pke-secret" => key_bytes(&key_from::<$V, PkeSecret>(b)?),
                    other => panic!("kind {other}"),
                })
            })
        }
        fn keyid_cmp(kind: &str, a: &str, b: &str) -> R<(bool, i8, bool, Vec<u8>, Vec<u8>)> {
            use paseto_core::paserk::KeyId;
            use std::hash::{Hash, Hasher};
            fn go<K: paseto_core::key::KeyType>(a: &str, b: &str) -> Result<(bool, i8, bool, Vec<u8>, Vec<u8>), PasetoError> {
                let x = KeyId::<$V, K>::from_str(a)?;
                let y = KeyId::<$V, K>::from_str(b)?;
                let h = |k: &KeyId<$V, K>| {
                    let mut s = std::collections::hash_map::DefaultHasher::new();
                    k.hash(&mut s);
                    s.finish()
                };
                let ord = match x.cmp(&y) { std::cmp::Ordering::Less => -1, std::cmp::Ordering::Equal => 0, std::cmp::Ordering::Greater => 1 };
                if x.partial_cmp(&y) != Some(x.cmp(&y)) {
                    return Err(PasetoError::ClaimsError);
                }
                Ok((x == y, ord, h(&x) == h(&y), x.as_bytes().to_vec(), y.as_bytes().to_vec()))
            }
            let kind = kind.to_string();
            guard(|| match kind.as_str() {
                "local" => go::<Local>(a, b),
                "public" => go::<Public>(a, b),
                _ => go::<Secret>(a, b),
            })
        }
        fn key_clone(kind: &str, b: &[u8]) -> R<Vec<u8>> {
            use paseto_core::version::{PkePublic, PkeSecret};
            let kind = kind.to_string();
            guard(|| {
                Ok(match kind.as_str() {
                    "local" => { let k = key_from::<$V, Local>(b)?; let c = k.clone(); drop(k); key_bytes(&c) }
                    "public" => { let k = key_from::<$V, Public>(b)?; let c = k.clone(); drop(k); key_bytes(&c) }
                    "secret" => { let k = key_from::<$V, Secret>(b)?; let c = k.clone(); drop(k); key_bytes(&c) }
                    "pke-public" => { let k = key_from::<$V, PkePublic>(b)?; let c = k.clone(); drop(k); key_bytes(&c) }
                    "pke-secret" => { let k = key_from::<$V, PkeSecret>(b)?; let c = k.clone(); drop(k); key_bytes(&c) }
                    other => panic!("kind {other}"),
                })
            })
        }
        fn local_from_array(b: [u8; 32]) -> R<Vec<u8>> {
            guard(|| Ok(key_bytes(&paseto_core::LocalKey::<$V>::from(b))))
        }
        fn seal_x(purpose: &str, key: &[u8], m: &[u8], f: &[u8], a: &[u8]) -> R<String> {
            let local = purpose == "local";
            guard(|| {
                Ok(if local {
                    UnsealedToken::<$V, Local, RawX>::new(RawX(m.to_vec())).with_footer(f.to_vec()).seal(&key_from::<$V, Local>(key)?, a)?.to_string()
                } else {
                    UnsealedToken::<$V, Public, RawX>::new(RawX(m.to_vec())).with_footer(f.to_vec()).seal(&key_from::<$V, Secret>(key)?, a)?.to_string()
                })
            })
        }
        fn unseal_x(purpose: &str, key: &[u8], tok: &str, a: &[u8]) -> R<(Vec<u8>, Vec<u8>)> {
            let local = purpose == "local";
            guard(|| {
                if local {
                    let u = SealedToken::<$V, Local, RawX, Vec<u8>>::from_str(tok)?.unseal(&key_from::<$V, Local>(key)?, a, &NoValidation::dangerous_no_validation())?;
                    Ok((u.claims.0, u.footer))
                } else {
                    let u = SealedToken::<$V, Public, RawX, Vec<u8>>::from_str(tok)?.unseal(&key_from::<$V, Public>(key)?, a, &NoValidation::dangerous_no_validation())?;
                    Ok((u.claims.0, u.footer))
                }
            })
        }
        fn pie_wrap(kind: &str, wk: &[u8], key: &[u8]) -> R<String> {
            let kind = kind.to_string();
            guard(|| {
                let w = key_from::<$V, Local>(wk)?;
                Ok(if kind == "local" { key_from::<$V, Local>(key)?.wrap_pie(&w)?.to_string() } else { key_from::<$V, Secret>(key)?.wrap_pie(&w)?.to_string() })
            })
        }
        fn pie_unwrap(kind: &str, wk: &[u8], s: &str) -> R<Vec<u8>> {
            use paseto_core::paserk::PieWrappedKey;
            let kind = kind.to_string();
            guard(|| {
                let w = key_from::<$V, Local>(wk)?;
                Ok(if kind == "local" { key_bytes(&PieWrappedKey::<$V, Local>::from_str(s)?.unwrap(&w)?) } else { key_bytes(&PieWrappedKey::<$V, Secret>::from_str(s)?.unwrap(&w)?) })
            })
        }
        fn pw_wrap(kind: &str, pass: &[u8], params: Option<&[u8]>, key: &[u8]) -> R<String> {
            use paseto_core::paserk::PasswordWrappedKey;
            let kind = kind.to_string();
            guard(|| {
                // parameters other than the defaults can only be obtained from a parsed blob
                let p = match params {
                    None => None,
                    Some(raw) => {
                        let mut blob = vec![0u8; $pl];
                        blob[$po..$po + raw.len()].copy_from_slice(raw);
                        blob.extend_from_slice(&[0u8; 80]);
                        let text = format!("{}.local-pw.{}", <$V as paseto_core::version::Version>::PASERK_HEADER, b64(&blob));
                        Some(PasswordWrappedKey::<$V, Local>::from_str(&text)?.params()?)
                    }
                };
                Ok(if kind == "local" {
                    let k = key_from::<$V, Local>(key)?;
                    match &p { None => k.password_wrap(pass)?, Some(p) => k.password_wrap_with_params(pass, p)? }.to_string()
                } else {
                    let k = key_from::<$V, Secret>(key)?;
                    match &p { None => k.password_wrap(pass)?, Some(p) => k.password_wrap_with_params(pass, p)? }.to_string()
                })
            })
        }
        fn pw_unwrap(kind: &str, pass: &[u8], s: &str) -> R<Vec<u8>> {
            use paseto_core::paserk::PasswordWrappedKey;
            let kind = kind.to_string();
            guard(|| {
                Ok(if kind == "local" { key_bytes(&PasswordWrappedKey::<$V, Local>::from_str(s)?.unwrap(pass)?) } else { key_bytes(&PasswordWrappedKey::<$V, Secret>::from_str(s)?.unwrap(pass)?) })
            })
        }
        fn pke_seal(pk: &[u8], key: &[u8]) -> R<String> {
            use paseto_core::version::PkePublic;
            guard(|| Ok(key_from::<$V, Local>(key)?.seal(&key_from::<$V, PkePublic>(pk)?)?.to_string()))
        }
        fn pke_unseal(sk: &[u8], s: &str) -> R<Vec<u8>> {
            use paseto_core::paserk::SealedKey;
            use paseto_core::version::PkeSecret;
            guard(|| Ok(key_bytes(&SealedKey::<$V>::from_str(s)?.unseal(&key_from::<$V, PkeSecret>(sk)?)?)))
        }
        fn key_id(kind: &str, b: &[u8]) -> R<String> {
            let kind = kind.to_string();
            guard(|| {
                Ok(match kind.as_str() {
                    "local" => key_from::<$V, Local>(b)?.id().to_string(),
                    "public" => key_from::<$V, Public>(b)?.id().to_string(),
                    "secret" => key_from::<$V, Secret>(b)?.id().to_string(),
                    "pke-public" => key_from::<$V, paseto_core::version::PkePublic>(b)?.id().to_string(),
                    "pke-secret" => key_from::<$V, paseto_core::version::PkeSecret>(b)?.id().to_string(),
                    other => panic!("kind {other}"),
                })
            })
        }
        fn key_text(kind: &str, b: &[u8]) -> R<String> {
            let kind = kind.to_string();
            guard(|| {
                Ok(match kind.as_str() {
                    "local" => key_from::<$V, Local>(b)?.expose_key().to_string(),
                    "public" => key_from::<$V, Public>(b)?.to_string(),
                    "secret" => key_from::<$V, Secret>(b)?.expose_key().to_string(),
                    "pke-public" => key_from::<$V, paseto_core::version::PkePublic>(b)?.expose_key().to_string(),
                    "pke-secret" => key_from::<$V, paseto_core::version::PkeSecret>(b)?.expose_key().to_string(),
                    other => panic!("kind {other}"),
                })
            })
        }
        fn key_parse(kind: &str, s: &str) -> R<Vec<u8>> {
            let kind = kind.to_string();
            guard(|| {
                Ok(match kind.as_str() {
                    "local" => key_bytes(&Key::<$V, Local>::from_str(s)?),
                    "public" => key_bytes(&Key::<$V, Public>::from_str(s)?),
                    "secret" => key_bytes(&Key::<$V, Secret>::from_str(s)?),
                    other => panic!("kind {other}"),
                })
            })
        }
        fn key_reprint(kind: &str, s: &str) -> R<String> {
            let kind = kind.to_string();
            guard(|| {
                Ok(match kind.as_str() {
                    "local" => Key::<$V, Local>::from_str(s)?.expose_key().to_string(),
                    "public" => Key::<$V, Public>::from_str(s)?.to_string(),
                    "secret" => Key::<$V, Secret>::from_str(s)?.expose_key().to_string(),
                    "pke-public" => Key::<$V, paseto_core::version::PkePublic>::from_str(s)?.expose_key().to_string(),
                    "pke-secret" => Key::<$V, paseto_core::version::PkeSecret>::from_str(s)?.expose_key().to_string(),
                    other => panic!("kind {other}"),
                })
            })
        }
        fn _bounds()
        where
            $V: SealingVersion<Local> + SealingVersion<Public> + UnsealingVersion<Local> + UnsealingVersion<Public>,
        {
        }
        Backend {
            name: $name,
            ver: $ver,
            scripted_rng: $scripted,
            aad: $aad,
            nonce_len: $nl,
            local_tag_len: $tl,
            sig_len: $sl,
            local_seal_nonce,
            local_encrypt,
            local_decrypt,
            unseal_typed_footer,
            public_sign,
            public_verify,
            local_random,
            secret_random,
            public_of_secret,
            key_roundtrip,
            local_from_array,
            keyid_cmp,
            key_clone,
            seal_x,
            unseal_x,
            pie_wrap,
            pie_unwrap,
            pw_wrap,
            pw_unwrap,
            pke_seal,
            pke_unseal,
            key_id,
            key_text,
            key_parse,
            key_reprint,
            pw_prefix_len: $pl,
            pw_param_off: $po,
            pw_param_len: $pn,
        }
    }};
}

pub fn backends() -> Vec<Backend> {
    vec![
        backend!("v1", "v1", V1, true, false, 32, 48, 256, 52, 32, 4),
        backend!("v2", "v2", V2, true, false, 24, 16, 64, 56, 16, 16),
        backend!("v3", "v3", V3, true, true, 32, 48, 96, 52, 32, 4),
        backend!("v3-aws-lc", "v3", V3L, false, true, 32, 48, 96, 52, 32, 4),
        backend!("v4", "v4", V4, true, true, 32, 32, 64, 56, 16, 16),
        backend!("v4-sodium", "v4", V4S, false, true, 32, 32, 64, 56, 16, 16),
    ]
}

/// base64url (unpadded) of the harness's own, used to take token strings apart and to build mutated ones.
pub fn b64(bytes: &[u8]) -> String {
    const A: &[u8; 64] = b"ABCDEFGHIJKLMNOPQRSTUVWXYZabcdefghijklmnopqrstuvwxyz0123456789-_";
    let mut s = String::with_capacity((bytes.len() * 4 + 2) / 3);
    for ch in bytes.chunks(3) {
        let n = (ch[0] as u32) << 16 | (*ch.get(1).unwrap_or(&0) as u32) << 8 | *ch.get(2).unwrap_or(&0) as u32;
        s.push(A[(n >> 18) as usize & 63] as char);
        s.push(A[(n >> 12) as usize & 63] as char);
        if ch.len() > 1 {
            s.push(A[(n >> 6) as usize & 63] as char);
        }
        if ch.len() > 2 {
            s.push(A[n as usize & 63] as char);
        }
    }
    s
}

pub fn unb64(s: &str) -> Option<Vec<u8>> {
    let mut out = Vec::with_capacity(s.len() * 3 / 4);
    let mut acc: u32 = 0;
    let mut bits = 0;
    for c in s.bytes() {
        let v = match c {
            b'A'..=b'Z' => c - b'A',
            b'a'..=b'z' => c - b'a' + 26,
            b'0'..=b'9' => c - b'0' + 52,
            b'-' => 62,
            b'_' => 63,
            _ => return None,
        } as u32;
        acc = (acc << 6) | v;
        bits += 6;
        if bits >= 8 {
            bits -= 8;
            out.push((acc >> bits) as u8);
            acc &= (1 << bits) - 1;
        }
    }
    Some(out)
}

/// canonical unpadded base64url only: no dangling character (length 1 mod 4), unused low bits of the last character zero
pub fn unb64_strict(s: &str) -> Option<Vec<u8>> {
    let out = unb64(s)?;
    if b64(&out) == s { Some(out) } else { None }
}

/// `token_parts` with the canonical decoder: a text that is not the canonical spelling of its bytes yields None
pub fn token_parts_strict(tok: &str) -> Option<(Vec<u8>, Vec<u8>)> {
    let mut it = tok.splitn(4, '.');
    let _v = it.next()?;
    let _p = it.next()?;
    let payload = unb64_strict(it.next()?)?;
    let footer = match it.next() {
        Some(f) => unb64_strict(f)?,
        None => vec![],
    };
    Some((payload, footer))
}

/// split "vN.purpose.payload[.footer]" into (payload bytes, footer bytes)
pub fn token_parts(tok: &str) -> Option<(Vec<u8>, Vec<u8>)> {
    let mut it = tok.splitn(4, '.');
    let _v = it.next()?;
    let _p = it.next()?;
    let payload = unb64(it.next()?)?;
    let footer = match it.next() {
        Some(f) => unb64(f)?,
        None => vec![],
    };
    Some((payload, footer))
}

pub fn token_string(ver: &str, purpose: &str, payload: &[u8], footer: &[u8]) -> String {
    let mut s = format!("{ver}.{purpose}.{}", b64(payload));
    if !footer.is_empty() {
        s.push('.');
        s.push_str(&b64(footer));
    }
    s
}
