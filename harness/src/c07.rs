//! C07 — PASERK wraps, seals and password-wraps are bit-exact per spec and interoperate.
//! S = SpecPaserk.v (extracted) executed on every official k*.json vector; every backend unwraps the vectors
//! and the specification's blobs (incl. embedded counter blocks ff..ff); siblings unwrap each other's output;
//! derived counter blocks are forced through the IV hook (v1 / v3 PIE and PKE).
use crate::c05::{keys_for, paserk_bytes, pie_tag_len};
use crate::lab::{self, Backend};
use crate::report::Report;
use crate::rng::SplitMix64;
use crate::sexp::{self, Sexp};
use crate::tok::{self, M};
use crate::Ctx;
use serde_json::{json, Value};

fn kver(b: &Backend) -> &'static str {
    match b.ver { "v1" => "k1", "v2" => "k2", "v3" => "k3", _ => "k4" }
}
fn family_a(b: &Backend) -> bool {
    b.ver == "v1" || b.ver == "v3"
}

fn opt_bytes(s: &Sexp) -> Option<Vec<u8>> {
    match s {
        Sexp::L(l) if l.len() == 2 && l[0].is_sym("some") => Some(l[1].bytes().to_vec()),
        _ => None,
    }
}

fn spec_pie(m: &mut M, b: &Backend, kind: &str, wk: &[u8], ptk: &[u8], n: &[u8]) -> Vec<u8> {
    let h = format!("{}.{kind}-wrap.pie.", kver(b));
    m.eval(&sexp::op("spec_pie", vec![sexp::s(if family_a(b) { "A" } else { "B" }), sexp::x(h.as_bytes()), sexp::x(wk), sexp::x(ptk), sexp::x(n)])).bytes().to_vec()
}

/// params: the raw parameter bytes as they appear in the blob
fn spec_pw(m: &mut M, b: &Backend, kind: &str, pw: &[u8], ptk: &[u8], salt: &[u8], params: &[u8], n: &[u8]) -> Option<Vec<u8>> {
    let h = format!("{}.{kind}-pw.", kver(b));
    if family_a(b) {
        let i = u32::from_be_bytes(params.try_into().ok()?);
        Some(m.eval(&sexp::op("spec_pwA", vec![sexp::x(h.as_bytes()), sexp::x(pw), sexp::x(ptk), sexp::x(salt), sexp::n(i), sexp::x(n)])).bytes().to_vec())
    } else {
        let mem = u64::from_be_bytes(params[..8].try_into().ok()?);
        let time = u32::from_be_bytes(params[8..12].try_into().ok()?);
        let para = u32::from_be_bytes(params[12..16].try_into().ok()?);
        opt_bytes(&m.eval(&sexp::op("spec_pwB", vec![sexp::x(h.as_bytes()), sexp::x(pw), sexp::x(ptk), sexp::x(salt), sexp::n(mem), sexp::n(time), sexp::n(para), sexp::x(n)])))
    }
}

fn hexv(v: &Value, k: &str) -> Vec<u8> {
    hex::decode(v[k].as_str().unwrap_or("")).unwrap_or_default()
}

fn load(name: &str) -> Vec<Value> {
    let p = format!("/repo/paseto-test/tests/vectors/{name}");
    std::fs::read_to_string(&p).ok().and_then(|s| serde_json::from_str::<Value>(&s).ok()).map(|d| d["tests"].as_array().cloned().unwrap_or_default()).unwrap_or_default()
}

fn vectors(bs: &[Backend], m: &mut M, rep: &mut Report) {
    for k in ["k1", "k2", "k3", "k4"] {
        let backs: Vec<&Backend> = bs.iter().filter(|b| kver(b) == k).collect();
        for kind in ["local", "secret"] {
            // ---- PIE
            for t in load(&format!("{k}.{kind}-wrap.pie.json")) {
                if t["expect-fail"].as_bool().unwrap_or(false) {
                    continue;
                }
                let name = t["name"].as_str().unwrap_or("?").to_string();
                let text = t["paserk"].as_str().unwrap_or("");
                let blob = match paserk_bytes(text) { Some(b) => b, None => continue };
                let wk = hexv(&t, "wrapping-key");
                let ptk_bytes = hexv(&t, "unwrapped");
                let b0 = backs[0];
                let tl = pie_tag_len(b0);
                if blob.len() < tl + 32 {
                    continue;
                }
                rep.evaluations += 1;
                rep.model_evaluations += 1;
                let spec = spec_pie(m, b0, kind, &wk, &ptk_bytes, &blob[tl..tl + 32]);
                if spec != blob {
                    rep.disagreement("c07.spec-vs-vector", format!("SpecPaserk.v does not reproduce official vector {name}"), json!({"vector": name}));
                } else {
                    rep.nontrivial(format!("vector|{name}"));
                    rep.count("vectors.pie.reproduced-by-spec");
                }
                for b in &backs {
                    match (b.pie_unwrap)(kind, &wk, text) {
                        Ok(kb) if kb == ptk_bytes => rep.count("vectors.pie.unwrapped-by-impl"),
                        other => rep.violation(&format!("c07.{}.vector", b.name), format!("{} does not unwrap official vector {name}: {:?}", b.name, other.map(|x| x.len())), json!({"vector": name, "backend": b.name})),
                    }
                }
            }
            // ---- PBKW
            for t in load(&format!("{k}.{kind}-pw.json")) {
                if t["expect-fail"].as_bool().unwrap_or(false) {
                    continue;
                }
                let name = t["name"].as_str().unwrap_or("?").to_string();
                let text = t["paserk"].as_str().unwrap_or("");
                let blob = match paserk_bytes(text) { Some(b) => b, None => continue };
                // the repository's own vector test passes the JSON string itself (hex digits) as the password bytes
                let pw = t["password"].as_str().unwrap_or("").as_bytes().to_vec();
                let ptk_bytes = hexv(&t, "unwrapped");
                let b0 = backs[0];
                if blob.len() < b0.pw_prefix_len {
                    continue;
                }
                let salt = &blob[..b0.pw_param_off];
                let params = &blob[b0.pw_param_off..b0.pw_param_off + b0.pw_param_len];
                let nonce = &blob[b0.pw_param_off + b0.pw_param_len..b0.pw_prefix_len];
                rep.evaluations += 1;
                rep.model_evaluations += 1;
                // what was wrapped is the key as the vector's author serialised it (k1 secret keys: a PEM document);
                // recover it with the model's unwrap and require that it decodes to the stated key
                let wrapped_plain = crate::tok::res_bytes(&m.eval(&sexp::op("pw_unwrap", vec![sexp::s(b0.name), sexp::x(crate::c05::pw_header(kind)), sexp::x(&pw), sexp::x(&blob)]))).unwrap_or_default();
                if (b0.key_roundtrip)(kind, &wrapped_plain).ok().as_ref() != Some(&ptk_bytes) && wrapped_plain != ptk_bytes {
                    rep.disagreement("c07.model-vs-vector", format!("model unwrap of official vector {name} does not give the stated key"), json!({"vector": name}));
                }
                match spec_pw(m, b0, kind, &pw, &wrapped_plain, salt, params, nonce) {
                    Some(s) if s == blob => {
                        rep.nontrivial(format!("vector|{name}"));
                        rep.count("vectors.pbkw.reproduced-by-spec");
                    }
                    _ => rep.disagreement("c07.spec-vs-vector", format!("SpecPaserk.v does not reproduce official vector {name}"), json!({"vector": name})),
                }
                for b in &backs {
                    match (b.pw_unwrap)(kind, &pw, text) {
                        Ok(kb) if kb == ptk_bytes => rep.count("vectors.pbkw.unwrapped-by-impl"),
                        other => rep.violation(&format!("c07.{}.vector", b.name), format!("{} does not unwrap official vector {name}: {:?}", b.name, other.map(|x| x.len())), json!({"vector": name, "backend": b.name})),
                    }
                }
            }
        }
        // ---- seal: the vectors do not disclose the ephemeral secret; every backend and the model unseal them
        for t in load(&format!("{k}.seal.json")) {
            if t["expect-fail"].as_bool().unwrap_or(false) {
                continue;
            }
            let name = t["name"].as_str().unwrap_or("?").to_string();
            let text = t["paserk"].as_str().unwrap_or("");
            let blob = match paserk_bytes(text) { Some(b) => b, None => continue };
            let want = hexv(&t, "unsealed");
            for b in &backs {
                let sk = if k == "k1" { (b.key_roundtrip)("pke-secret", t["sealing-secret-key"].as_str().unwrap_or("").as_bytes()).unwrap_or_default() } else { hexv(&t, "sealing-secret-key") };
                rep.evaluations += 1;
                match (b.pke_unseal)(&sk, text) {
                    Ok(kb) if kb == want => rep.count("vectors.seal.unsealed-by-impl"),
                    other => rep.violation(&format!("c07.{}.vector", b.name), format!("{} does not unseal official vector {name}: {:?}", b.name, other.map(|x| x.len())), json!({"vector": name, "backend": b.name})),
                }
                let msk = if b.name == "v4-sodium" { sk.clone() } else { tok::model_sk(b, &sk) };
                rep.model_evaluations += 1;
                let r = crate::tok::res_bytes(&m.eval(&sexp::op("pke_unseal", vec![sexp::s(b.name), sexp::x(&msk), sexp::x(&blob)])));
                match r {
                    Ok(kb) if kb == want => {
                        rep.count("vectors.seal.unsealed-by-model");
                        rep.nontrivial(format!("vector|{name}|{}", b.name));
                    }
                    other => rep.disagreement("c07.model-vs-vector", format!("model {} does not unseal official vector {name}: {:?}", b.name, other.map(|x| x.len())), json!({"vector": name})),
                }
            }
        }
    }
}

fn set_hook(iv: Option<[u8; 16]>) {
    paseto_v1::verif_hooks::force_iv(iv);
    paseto_v3::verif_hooks::force_iv(iv);
}

pub fn run(ctx: &Ctx) {
    let mut rep = Report::new("C07", &ctx.tier, ctx.seed);
    rep.rule = "(1) SpecPaserk.v executed on every official PIE / PBKW vector (nonce, salt, parameters read from the blob) and every backend unwraps / unseals every official vector; (2) specification-built blobs with chosen nonces, incl. PBKW counter blocks ff..ff, ff..fe, 7f ff..ff, 00..00 ff..ff, are unwrapped by every backend of the version to the same key; (3) v3 vs v3-aws-lc and v4 vs v4-sodium unwrap each other's PIE, PBKW and PKE output; (4) derived counter blocks forced through the IV hook for v1/v3 PIE; (5) parallelism 2 on the v4 backends; distinct = vector names and (backend pair, operation, counter class)".into();
    let bs = lab::backends();
    let mut m = M::new(&ctx.model);
    let mut g = SplitMix64::new(ctx.seed ^ 0xC07);
    vectors(&bs, &mut m, &mut rep);
    if ctx.replay.is_some() {
        // replays of C07 re-run the whole (deterministic) batch below with the recorded seed
    }
    let ivs: Vec<[u8; 16]> = vec![
        [0xff; 16],
        { let mut x = [0xffu8; 16]; x[15] = 0xfe; x },
        { let mut x = [0xffu8; 16]; x[0] = 0x7f; x },
        { let mut x = [0u8; 16]; for j in 8..16 { x[j] = 0xff; } x },
    ];
    // (2) specification-built PBKW blobs with attacker/peer-chosen nonces
    for b in &bs {
        let keys = keys_for(b, &mut g);
        for (kind, key, _) in keys.wrappable.iter().filter(|k| k.1.len() <= 64).take(2) {
            let pass = b"correct horse".to_vec();
            let params = crate::c05::cheap_params(b, &mut g);
            let nonce_len = b.pw_prefix_len - b.pw_param_off - b.pw_param_len;
            let mut nonces: Vec<Vec<u8>> = vec![g.bytes(nonce_len), vec![0u8; nonce_len], vec![0xffu8; nonce_len]];
            if family_a(b) {
                nonces.extend(ivs.iter().map(|iv| iv.to_vec()));
            }
            for (ni, n) in nonces.into_iter().enumerate() {
                // passwords around the hash block sizes too (a KDF front end that pre-hashes or truncates at the wrong
                // threshold): 13, 64, 65, 128, 129 and 200 bytes in turn
                let pass: Vec<u8> = match ni % 6 { 0 => pass.clone(), 1 => vec![b'k'; 64], 2 => vec![b'l'; 65], 3 => vec![b'm'; 128], 4 => vec![b'n'; 129], _ => vec![b'o'; 200] };
                let salt = g.bytes(b.pw_param_off);
                rep.evaluations += 1;
                rep.model_evaluations += 1;
                let spec = match spec_pw(&mut m, b, kind, &pass, key, &salt, &params, &n) {
                    Some(s) => s,
                    None => continue,
                };
                let text = format!("{}.{kind}-pw.{}", kver(b), lab::b64(&spec));
                match (b.pw_unwrap)(kind, &pass, &text) {
                    Ok(k2) if k2 == *key => rep.nontrivial(format!("{}|pbkw|spec-blob|{}", b.name, hex::encode(&n[n.len() - 2..]))),
                    other => rep.violation(&format!("c07.{}.pbkw.rejects-spec-blob", b.name), format!("{} unwraps a specification-conforming {kind}-pw blob (nonce {}) to {:?} instead of the key", b.name, hex::encode(&n), other.map(|x| hex::encode(&x[..x.len().min(40)]))),
                                           json!({"backend": b.name, "op": "pbkw", "kind": kind, "text": text, "pass": hex::encode(&pass), "key": hex::encode(key)})),
                }
            }
        }
        // PIE with random nonces: specification vs implementation unwrap
        for (kind, key, _) in keys.wrappable.iter().filter(|k| k.1.len() <= 64).take(2) {
            let wk = g.bytes(32);
            let n = g.bytes(32);
            rep.evaluations += 1;
            rep.model_evaluations += 1;
            let spec = spec_pie(&mut m, b, kind, &wk, key, &n);
            let text = format!("{}.{kind}-wrap.pie.{}", kver(b), lab::b64(&spec));
            match (b.pie_unwrap)(kind, &wk, &text) {
                Ok(k2) if k2 == *key => rep.nontrivial(format!("{}|pie|spec-blob", b.name)),
                other => rep.violation(&format!("c07.{}.pie.rejects-spec-blob", b.name), format!("{} unwraps a specification-conforming PIE blob to {:?}", b.name, other.map(|x| x.len())), json!({"backend": b.name, "op": "pie", "text": text, "wk": hex::encode(&wk)})),
            }
        }
    }
    // (4) derived counter blocks forced: v1 / v3 PIE wrap on the implementation (hook) vs the specification (oracle twin)
    for b in bs.iter().filter(|b| b.name == "v1" || b.name == "v3") {
        for iv in &ivs {
            let wk = g.bytes(32);
            let key = g.bytes(32);
            set_hook(Some(*iv));
            m.srv.force_iv = Some(*iv);
            crate::rng::set_mode(crate::rng::Mode::Script { prng: SplitMix64::new(g.next()), fixed: None, fail_at: None });
            let w = (b.pie_wrap)("local", &wk, &key);
            let (_, served) = crate::rng::take_log();
            rep.evaluations += 1;
            rep.model_evaluations += 1;
            if let Ok(text) = &w {
                let spec = spec_pie(&mut m, b, "local", &wk, &key, &served);
                if paserk_bytes(text).as_ref() != Some(&spec) {
                    rep.violation(&format!("c07.{}.pie.not-spec", b.name), format!("{} PIE blob differs from the specification's when the derived counter block is {}", b.name, hex::encode(iv)), json!({"backend": b.name, "op": "pie-forced-iv", "iv": hex::encode(iv), "wk": hex::encode(&wk), "key": hex::encode(&key)}));
                } else {
                    rep.nontrivial(format!("{}|pie|forced-iv|{}", b.name, hex::encode(&iv[14..])));
                }
            }
            set_hook(None);
            m.srv.force_iv = None;
        }
    }
    // (3) siblings unwrap each other's output
    for (x, y) in [("v3", "v3-aws-lc"), ("v4", "v4-sodium")] {
        let bx = bs.iter().find(|b| b.name == x).unwrap();
        let by = bs.iter().find(|b| b.name == y).unwrap();
        let keys = keys_for(bx, &mut g);
        for (p, q) in [(bx, by), (by, bx)] {
            for (kind, key, _) in keys.wrappable.iter().take(4) {
                let wk = g.bytes(32);
                rep.evaluations += 1;
                if let Ok(w) = (p.pie_wrap)(kind, &wk, key) {
                    match (q.pie_unwrap)(kind, &wk, &w) {
                        Ok(k2) if k2 == *key => rep.nontrivial(format!("sib|{}->{}|pie|{kind}", p.name, q.name)),
                        other => rep.violation(&format!("c07.siblings.{x}.pie"), format!("{} does not unwrap {}'s PIE blob: {:?}", q.name, p.name, other.map(|z| z.len())), json!({"text": w, "wk": hex::encode(&wk)})),
                    }
                }
                for pass in [b"pw".to_vec(), vec![b'k'; 64], vec![b'l'; 65], vec![b'm'; 96], vec![b'n'; 128], vec![b'o'; 129], vec![b'p'; 200]] {
                let params = crate::c05::cheap_params(p, &mut g);
                rep.evaluations += 1;
                if let Ok(w) = (p.pw_wrap)(kind, &pass, Some(&params), key) {
                    match (q.pw_unwrap)(kind, &pass, &w) {
                        Ok(k2) if k2 == *key => rep.nontrivial(format!("sib|{}->{}|pbkw|{kind}", p.name, q.name)),
                        // libsodium has one Argon2 lane: a blob with another parallelism refused with InvalidKey is the
                        // recorded finding about that backend (same class as where the specification side meets it), not
                        // a disagreement of the pair
                        Err(e) if q.name == "v4-sodium" && e == "InvalidKey" && params.len() == 16 && params[12..16] != [0, 0, 0, 1] => rep.violation("c07.v4-sodium.pbkw.parallelism", format!("v4-sodium refuses (InvalidKey) {}'s PBKW blob with parallelism {}", p.name, u32::from_be_bytes(params[12..16].try_into().unwrap())), json!({"text": w, "pass": hex::encode(&pass)})),
                        other => rep.violation(&format!("c07.siblings.{x}.pbkw"), format!("{} does not unwrap {}'s PBKW blob: {:?}", q.name, p.name, other.map(|z| z.len())), json!({"text": w, "pass": hex::encode(&pass)})),
                    }
                }
                }
            }
            // many seals across the pair: a shared secret / coordinate with a leading zero byte (1 in 256) is
            // where two implementations of one scheme part ways
            let many = if ctx.thorough() { 8000 } else if x == "v3" { 1000 } else { 2000 };
            if let Some((sk, pk, _)) = keys.recipients.first() {
                for _ in 0..many {
                    let key = g.bytes(32);
                    rep.evaluations += 1;
                    if let Ok(w) = (p.pke_seal)(pk, &key) {
                        match (q.pke_unseal)(sk, &w) {
                            Ok(k2) if k2 == key => {}
                            other => {
                                rep.violation(&format!("c07.siblings.{x}.pke"), format!("{} does not unseal {}'s sealed key: {:?}", q.name, p.name, other.map(|z| z.len())), json!({"text": w, "sk": hex::encode(sk)}));
                                break;
                            }
                        }
                    }
                }
                rep.count_n(&format!("siblings.{}->{}.pke.seals", p.name, q.name), many as u64);
            }
            for (sk, pk, _) in keys.recipients.iter().take(3) {
                let key = g.bytes(32);
                rep.evaluations += 1;
                if let Ok(w) = (p.pke_seal)(pk, &key) {
                    match (q.pke_unseal)(sk, &w) {
                        Ok(k2) if k2 == key => rep.nontrivial(format!("sib|{}->{}|pke", p.name, q.name)),
                        other => rep.violation(&format!("c07.siblings.{x}.pke"), format!("{} does not unseal {}'s sealed key: {:?}", q.name, p.name, other.map(|z| z.len())), json!({"text": w, "sk": hex::encode(sk)})),
                    }
                }
            }
        }
    }
    // (2b) v1 sealed keys built by the specification whose RSA ciphertext has a leading zero byte (1 in 256):
    //      every conforming k1.seal blob must unseal to the same key
    {
        let b1 = bs.iter().find(|b| b.name == "v1").unwrap();
        let keys = keys_for(b1, &mut g);
        if let Some((sk, pk, _)) = keys.recipients.first() {
            let mut found = 0;
            let tries = if ctx.thorough() { 4000 } else { 1200 };
            for _ in 0..tries {
                let mut r = g.bytes(512);
                r[0] = (r[0] & 0x7f) | 0x40;
                let c = crate::prims::oracle(&mut m.srv.cache, "rsa_enc", &[pk.clone(), r.clone()]);
                let lead0 = c.first().map(|c| c.len() < 512).unwrap_or(false);
                if !lead0 && rep.distinct.contains("v1|seal|spec-blob|lead0=false") {
                    continue;
                }
                let pdk = g.bytes(32);
                rep.evaluations += 1;
                rep.model_evaluations += 1;
                let spec = opt_bytes(&m.eval(&sexp::op("spec_seal", vec![sexp::s("v1"), sexp::x(pk), sexp::x(&pdk), sexp::x(&r)])));
                let spec = match spec { Some(s) => s, None => continue };
                let text = format!("k1.seal.{}", lab::b64(&spec));
                match (b1.pke_unseal)(sk, &text) {
                    Ok(k2) if k2 == pdk => rep.nontrivial(format!("v1|seal|spec-blob|lead0={lead0}")),
                    other => rep.violation("c07.v1.seal.rejects-spec-blob", format!("v1 unseals a specification-conforming k1.seal blob (RSA ciphertext leading zero byte: {lead0}) to {:?} instead of the key", other.map(|x| x.len())), json!({"backend": "v1", "op": "seal", "text": text, "sk": hex::encode(sk), "key": hex::encode(&pdk)})),
                }
                if lead0 {
                    found += 1;
                    if found >= 3 {
                        break;
                    }
                } else {
                    found = found.max(0);
                    if found == 0 {
                        found = 0;
                    }
                }
            }
            rep.count_n("v1.seal.spec-blobs-with-leading-zero-c", found as u64);
        }
    }
    // (5) Argon2 parallelism 2: defined by the specification; paseto-v4 accepts it, libsodium supports one lane only
    {
        let b4 = bs.iter().find(|b| b.name == "v4").unwrap();
        let bn = bs.iter().find(|b| b.name == "v4-sodium").unwrap();
        let key = g.bytes(32);
        let mut params = 65536u64.to_be_bytes().to_vec();
        params.extend_from_slice(&1u32.to_be_bytes());
        params.extend_from_slice(&2u32.to_be_bytes());
        let salt = g.bytes(16);
        let n = g.bytes(24);
        rep.evaluations += 1;
        rep.model_evaluations += 1;
        if let Some(spec) = spec_pw(&mut m, b4, "local", b"pw", &key, &salt, &params, &n) {
            let text = format!("k4.local-pw.{}", lab::b64(&spec));
            for b in [b4, bn] {
                match (b.pw_unwrap)("local", b"pw", &text) {
                    Ok(k2) if k2 == key => rep.nontrivial(format!("{}|pbkw|parallelism-2", b.name)),
                    other => rep.violation(&format!("c07.{}.pbkw.parallelism", b.name), format!("{} refuses a specification-conforming k4.local-pw blob with Argon2 parallelism 2: {:?}", b.name, other.map(|z| z.len())), json!({"backend": b.name, "op": "pbkw", "text": text, "pass": "7077"})),
                }
            }
        }
    }
    rep.model_prim_calls = m.prim_calls();
    rep.finish(ctx.out.as_deref());
}
