//! C08 — keys survive serialisation unchanged; secret keys derive the matching public key; wrong lengths,
//! invalid points, out-of-range scalars and wrong-size moduli are rejected.
use crate::lab::{self, Backend, SealVia};
use crate::report::Report;
use crate::rng::SplitMix64;
use crate::sexp;
use crate::tok::{self, res_bytes, M};
use crate::Ctx;
use serde_json::{json, Value};

const KINDS: [&str; 5] = ["local", "public", "secret", "pke-public", "pke-secret"];

fn p384_n() -> Vec<u8> {
    hex::decode("ffffffffffffffffffffffffffffffffffffffffffffffffc7634d81f4372ddf581a0db248b0a77aecec196accc52973").unwrap()
}

fn case(b: &Backend, kind: &str, bytes: &[u8], what: &str) -> Value {
    json!({"backend": b.name, "kind": kind, "bytes": hex::encode(bytes), "what": what})
}

/// expectation of the property for a structured input
#[derive(Clone, Copy, PartialEq, Debug)]
enum Expect {
    Accept,
    Reject,
    Any,
}

fn offer(b: &Backend, m: &mut M, rep: &mut Report, kind: &str, bytes: &[u8], what: &str, expect: Expect) -> Option<Vec<u8>> {
    rep.evaluations += 1;
    rep.count(&format!("offered.{}", what.split(':').next().unwrap_or(what)));
    let r = (b.key_roundtrip)(kind, bytes);
    let cls = format!("c08.{}.{}", b.name, kind);
    match (&r, expect) {
        (Err(e), _) if e == "panic" => rep.violation(&format!("{cls}.panic"), format!("{} panics decoding / re-encoding a {kind} key [{what}]", b.name), case(b, kind, bytes, what)),
        (Ok(_), Expect::Reject) => rep.violation(&format!("{cls}.accepts.{}", what.split(':').next().unwrap_or(what)), format!("{} accepts [{what}] as a {kind} key", b.name), case(b, kind, bytes, what)),
        (Err(e), Expect::Accept) => rep.violation(&format!("{cls}.rejects-valid"), format!("{} rejects ({e}) a valid {kind} key [{what}]", b.name), case(b, kind, bytes, what)),
        _ => {}
    }
    if let Ok(enc) = &r {
        // decode . encode is idempotent, clone is equivalent, text round-trips
        match (b.key_roundtrip)(kind, enc) {
            Ok(e2) if e2 == *enc => {}
            other => rep.violation(&format!("{cls}.not-idempotent"), format!("{} re-decoding the re-encoded {kind} key gives {:?} [{what}]", b.name, other.map(|x| x.len())), case(b, kind, bytes, what)),
        }
        match (b.key_clone)(kind, bytes) {
            Ok(c) if c == *enc => {}
            other => rep.violation(&format!("{cls}.clone"), format!("{} clone of a {kind} key encodes differently: {:?} [{what}]", b.name, other.map(|x| x.len())), case(b, kind, bytes, what)),
        }
        if b.ver != "v1" && *enc != bytes {
            rep.violation(&format!("{cls}.bytes-changed"), format!("{} accepted {kind} key re-encodes to different bytes [{what}]", b.name), case(b, kind, bytes, what));
        }
        if let Some(k3) = ["local", "public", "secret"].iter().find(|k| **k == kind) {
            if let Ok(text) = (b.key_text)(k3, bytes) {
                match (b.key_parse)(k3, &text) {
                    Ok(e3) if e3 == *enc => {}
                    other => rep.violation(&format!("{cls}.text"), format!("{} {kind} key -> PASERK text -> parse gives {:?} [{what}]", b.name, other.map(|x| x.len())), case(b, kind, bytes, what)),
                }
            }
        }
        rep.nontrivial(format!("{}|{kind}|accept|{}", b.name, what.split(':').next().unwrap_or(what)));
    } else {
        rep.nontrivial(format!("{}|{kind}|reject|{}", b.name, what.split(':').next().unwrap_or(what)));
    }
    // model
    rep.model_evaluations += 1;
    let mr = res_bytes(&m.eval(&sexp::op("key_roundtrip", vec![sexp::s(b.name), sexp::s(kind), sexp::x(bytes)])));
    let same = match (&r, &mr) {
        (Ok(a), Ok(c)) => a == c,
        (Err(a), Err(c)) => a == c,
        _ => false,
    };
    if !same {
        rep.disagreement(&format!("{cls}.model"), format!("[{what}] implementation {:?}, model {:?}", r.as_ref().map(|x| x.len()), mr.as_ref().map(|x| x.len())), case(b, kind, bytes, what));
    }
    r.ok()
}

fn sign_and_verify(b: &Backend, rep: &mut Report, sk: &[u8], what: &str) {
    rep.evaluations += 1;
    let pk = match (b.public_of_secret)(sk) {
        Ok(pk) => pk,
        Err(e) => return rep.violation(&format!("c08.{}.public_key", b.name), format!("{} public_key() of an accepted secret key fails: {e} [{what}]", b.name), case(b, "secret", sk, what)),
    };
    // the derived public key is itself a valid public key and equals the public half where there is one
    match (b.key_roundtrip)("public", &pk) {
        Ok(p2) if p2 == pk => {}
        other => rep.violation(&format!("c08.{}.derived-public-invalid", b.name), format!("{} derived public key does not round-trip: {:?} [{what}]", b.name, other.map(|x| x.len())), case(b, "secret", sk, what)),
    }
    if (b.ver == "v2" || b.ver == "v4") && sk.len() == 64 && sk[32..] != pk[..] {
        rep.violation(&format!("c08.{}.public-half", b.name), format!("{} public_key() differs from the public half of the serialised secret key [{what}]", b.name), case(b, "secret", sk, what));
    }
    let a: &[u8] = if b.aad { b"ia" } else { b"" };
    match (b.public_sign)(sk, b"claims", b"f", a, SealVia::Seal) {
        Ok(t) => match (b.public_verify)(&pk, &t, a, false) {
            Ok((c, _)) if c == b"claims" => {}
            other => rep.violation(&format!("c08.{}.own-public-key-rejects", b.name), format!("{} a token signed with an accepted secret key does not verify under that key's public_key(): {:?} [{what}]", b.name, other.map(|x| x.0.len())), case(b, "secret", sk, what)),
        },
        Err(e) => rep.violation(&format!("c08.{}.sign", b.name), format!("{} sign with an accepted secret key fails: {e} [{what}]", b.name), case(b, "secret", sk, what)),
    }
}

pub fn run(ctx: &Ctx) {
    let mut rep = Report::new("C08", &ctx.tier, ctx.seed);
    rep.rule = "for every backend x {local, public, secret, PKE public, PKE secret}: generated keys (random()), parsed keys, and structured byte strings offered as keys — every length 0..128 (zero / ff / random / prefix of a valid key), valid keys with one bit flipped, P-384 boundary scalars 0, 1, n-1, n, 2^384-1 and SEC1 forms (compressed, uncompressed, hybrid, infinity, wrong prefix, x not on the curve), Ed25519 identity encodings, small-order and off-curve points, seed || foreign public key, RSA keys as DER and PEM and of the wrong modulus size; accepted keys must re-encode identically, clone and text round-trip, derive a public key that verifies their signatures; the property's rejection classes must be rejected; the extracted model must agree on every input; distinct = (backend, kind, accept/reject, input class)".into();
    let bs = lab::backends();
    let mut m = M::new(&ctx.model);
    if let Some(path) = &ctx.replay {
        let v: Value = serde_json::from_str(&std::fs::read_to_string(path).expect("replay file")).expect("json");
        let r = &v["replay"];
        let b = bs.iter().find(|b| b.name == r["backend"].as_str().unwrap_or("")).expect("backend");
        let bytes = hex::decode(r["bytes"].as_str().unwrap_or("")).unwrap_or_default();
        let kind = KINDS.iter().find(|k| **k == r["kind"].as_str().unwrap_or("")).copied().unwrap_or("local");
        if offer(b, &mut m, &mut rep, kind, &bytes, r["what"].as_str().unwrap_or("replay"), Expect::Any).is_some() && kind == "secret" {
            sign_and_verify(b, &mut rep, &bytes, "replay");
        }
        rep.model_prim_calls = m.prim_calls();
        rep.finish(ctx.out.as_deref());
        return;
    }
    let mut g = SplitMix64::new(ctx.seed ^ 0xC08);
    let thorough = ctx.thorough();
    for b in &bs {
        let mut kps = tok::keypairs(b, &mut g, if thorough { 4 } else { 2 });
        // valid keys whose encodings begin / end with white space, NUL or 0xff
        kps.extend(tok::edge_keypairs(b, &mut g));
        for t in tok::EDGE_BYTES {
            let mut k = g.bytes(32);
            k[0] = t;
            k[31] = t;
            offer(b, &mut m, &mut rep, "local", &k, "valid:edge-bytes", Expect::Accept);
        }
        // ---- valid keys of every kind
        for _ in 0..3 {
            let k = (b.local_random)().unwrap_or_default();
            offer(b, &mut m, &mut rep, "local", &k, "generated", Expect::Accept);
        }
        for kp in &kps {
            offer(b, &mut m, &mut rep, "secret", &kp.sk, &format!("valid:{}", kp.source), Expect::Accept);
            offer(b, &mut m, &mut rep, "public", &kp.pk, &format!("valid:{}", kp.source), Expect::Accept);
            if b.ver != "v1" {
                offer(b, &mut m, &mut rep, "pke-secret", &kp.sk, &format!("valid:{}", kp.source), Expect::Accept);
                offer(b, &mut m, &mut rep, "pke-public", &kp.pk, &format!("valid:{}", kp.source), Expect::Accept);
            }
            sign_and_verify(b, &mut rep, &kp.sk, kp.source);
        }
        if rep.samples.len() < 6 {
            if let Some(kp) = kps.first() {
                rep.sample(json!({"backend": b.name, "kind": "secret", "bytes_len": kp.sk.len(), "source": kp.source}));
            }
        }
        // ---- every length 0..128 for the fixed-length kinds
        if b.ver != "v1" {
            for kind in KINDS {
                let legal: usize = match (b.ver, kind) {
                    (_, "local") => 32,
                    ("v3", "public" | "pke-public") => 49,
                    ("v3", _) => 48,
                    (_, "public" | "pke-public") => 32,
                    _ => 64,
                };
                let valid: Vec<u8> = match kind {
                    "local" => g.bytes(32),
                    "public" | "pke-public" => kps[0].pk.clone(),
                    _ => kps[0].sk.clone(),
                };
                for len in 0..=128usize {
                    if len == legal {
                        continue;
                    }
                    let mut prefix = valid.clone();
                    prefix.extend_from_slice(&g.bytes(128));
                    for (what, bytes) in [("wrong-length:zeros", vec![0u8; len]), ("wrong-length:ff", vec![0xffu8; len]), ("wrong-length:random", g.bytes(len)), ("wrong-length:valid-prefix", prefix[..len].to_vec())] {
                        offer(b, &mut m, &mut rep, kind, &bytes, what, Expect::Reject);
                    }
                }
                // right length: one bit flipped in a valid key (may or may not be a key; whatever is accepted must be sound)
                for _ in 0..(if thorough { 64 } else { 12 }) {
                    let mut x = valid.clone();
                    let i = g.below(x.len() as u64 * 8) as usize;
                    x[i / 8] ^= 1 << (i % 8);
                    let got = offer(b, &mut m, &mut rep, kind, &x, "bitflip", if kind == "local" { Expect::Accept } else { Expect::Any });
                    if kind == "secret" && got.is_some() {
                        sign_and_verify(b, &mut rep, &x, "bitflip");
                    }
                }
            }
        }
        // ---- curve-specific structure
        match b.ver {
            "v3" => {
                let n = p384_n();
                let mut one = vec![0u8; 48];
                one[47] = 1;
                let mut nm1 = n.clone();
                nm1[47] -= 1;
                for (what, sk, e) in [("scalar:0", vec![0u8; 48], Expect::Reject), ("scalar:n", n.clone(), Expect::Reject), ("scalar:2^384-1", vec![0xffu8; 48], Expect::Reject),
                                      ("scalar:1", one.clone(), Expect::Accept), ("scalar:n-1", nm1.clone(), Expect::Accept)] {
                    for kind in ["secret", "pke-secret"] {
                        offer(b, &mut m, &mut rep, kind, &sk, what, e);
                    }
                    if e == Expect::Accept {
                        sign_and_verify(b, &mut rep, &sk, what);
                    }
                }
                use p384::elliptic_curve::sec1::ToEncodedPoint;
                let pk = p384::PublicKey::from_sec1_bytes(&kps[0].pk).unwrap();
                let unc = pk.to_encoded_point(false).as_bytes().to_vec();
                let mut hybrid = unc.clone();
                hybrid[0] = 0x06 | (kps[0].pk[0] & 1);
                let mut other_y = kps[0].pk.clone();
                other_y[0] ^= 1;
                let mut wrong_prefix = kps[0].pk.clone();
                wrong_prefix[0] = 0x04;
                let mut compact = kps[0].pk.clone();
                compact[0] = 0x05;
                // an x coordinate that is not on the curve: search by incrementing
                let mut off = kps[0].pk.clone();
                loop {
                    off[48] = off[48].wrapping_add(1);
                    if p384::PublicKey::from_sec1_bytes(&off).is_err() {
                        break;
                    }
                }
                let mut x_ge_p = vec![0x02u8];
                x_ge_p.extend_from_slice(&[0xffu8; 48]);
                for (what, bytes, e) in [("point:infinity", vec![0u8], Expect::Reject), ("point:uncompressed", unc.clone(), Expect::Reject), ("point:hybrid", hybrid, Expect::Reject),
                                         ("point:other-y", other_y, Expect::Accept), ("point:prefix-04-49-bytes", wrong_prefix, Expect::Reject), ("point:prefix-05", compact, Expect::Reject),
                                         ("point:off-curve", off, Expect::Reject), ("point:x>=p", x_ge_p, Expect::Reject), ("point:zeros-49", vec![0u8; 49], Expect::Reject)] {
                    for kind in ["public", "pke-public"] {
                        offer(b, &mut m, &mut rep, kind, &bytes, what, e);
                    }
                }
            }
            "v2" | "v4" => {
                let one = { let mut x = vec![0u8; 32]; x[0] = 1; x };
                let one_neg = { let mut x = one.clone(); x[31] = 0x80; x };
                let pp1 = { let mut x = vec![0xffu8; 32]; x[0] = 0xee; x[31] = 0x7f; x };
                let pp1_neg = { let mut x = pp1.clone(); x[31] = 0xff; x };
                for (what, bytes) in [("identity:canonical", one), ("identity:sign-bit", one_neg), ("identity:y=p+1", pp1), ("identity:y=p+1,sign", pp1_neg)] {
                    for kind in ["public", "pke-public"] {
                        offer(b, &mut m, &mut rep, kind, &bytes, what, Expect::Reject);
                    }
                }
                // off-curve: y values that do not decompress (search from a valid key)
                let mut off = kps[0].pk.clone();
                loop {
                    off[0] = off[0].wrapping_add(1);
                    let arr: [u8; 32] = off.clone().try_into().unwrap();
                    if curve25519_dalek::edwards::CompressedEdwardsY(arr).decompress().is_none() {
                        break;
                    }
                }
                for kind in ["public", "pke-public"] {
                    offer(b, &mut m, &mut rep, kind, &off, "off-curve", Expect::Reject);
                }
                // the small-order key of the official vectors (all zero) is a valid PASERK public key
                offer(b, &mut m, &mut rep, "public", &[0u8; 32], "small-order:zeros", Expect::Accept);
                // seed || public key of ANOTHER seed
                let seed = g.bytes(32);
                let other = ed25519_dalek::SigningKey::from_bytes(&g.bytes(32).try_into().unwrap()).verifying_key().to_bytes();
                let mut bad = seed.clone();
                bad.extend_from_slice(&other);
                for kind in ["secret", "pke-secret"] {
                    if offer(b, &mut m, &mut rep, kind, &bad, "secret:foreign-public-half", Expect::Reject).is_some() && kind == "secret" {
                        sign_and_verify(b, &mut rep, &bad, "secret:foreign-public-half");
                    }
                }
                let mut bad2 = seed.clone();
                bad2.extend_from_slice(&off);
                offer(b, &mut m, &mut rep, "secret", &bad2, "secret:off-curve-public-half", Expect::Reject);
            }
            _ => {
                // v1: DER and PEM of the same key decode to the same key; wrong modulus sizes are rejected
                use rsa::pkcs1::{DecodeRsaPrivateKey, EncodeRsaPrivateKey};
                use rsa::pkcs8::spki::EncodePublicKey;
                let k2048 = tok::corpus_rsa_keys(2048);
                let k4096 = tok::corpus_rsa_keys(4096);
                for der in k2048.iter().take(2) {
                    let k = rsa::RsaPrivateKey::from_pkcs1_der(der).unwrap();
                    let pem = k.to_pkcs1_pem(rsa::pkcs8::LineEnding::LF).unwrap().as_bytes().to_vec();
                    let pub_der = k.to_public_key().to_public_key_der().unwrap().into_vec();
                    let pub_pem = k.to_public_key().to_public_key_pem(rsa::pkcs8::LineEnding::LF).unwrap().into_bytes();
                    let a = offer(b, &mut m, &mut rep, "secret", der, "rsa:der", Expect::Accept);
                    let c = offer(b, &mut m, &mut rep, "secret", &pem, "rsa:pem", Expect::Accept);
                    if a != c {
                        rep.violation("c08.v1.secret.pem-der", "the PEM and DER forms of one RSA key decode to different keys".into(), case(b, "secret", der, "rsa:pem-vs-der"));
                    }
                    offer(b, &mut m, &mut rep, "public", &pub_der, "rsa:der", Expect::Accept);
                    offer(b, &mut m, &mut rep, "public", &pub_pem, "rsa:pem", Expect::Accept);
                    offer(b, &mut m, &mut rep, "pke-secret", der, "rsa:wrong-modulus-2048", Expect::Reject);
                    offer(b, &mut m, &mut rep, "pke-public", &pub_der, "rsa:wrong-modulus-2048", Expect::Reject);
                    let mut trunc = der.clone();
                    trunc.truncate(der.len() - 7);
                    offer(b, &mut m, &mut rep, "secret", &trunc, "rsa:truncated-der", Expect::Reject);
                    let mut flipped = der.clone();
                    flipped[1] ^= 0x40;
                    offer(b, &mut m, &mut rep, "secret", &flipped, "rsa:bad-der-length", Expect::Any);
                }
                for der in k4096.iter().take(1) {
                    let k = rsa::RsaPrivateKey::from_pkcs1_der(der).unwrap();
                    let pub_der = k.to_public_key().to_public_key_der().unwrap().into_vec();
                    offer(b, &mut m, &mut rep, "pke-secret", der, "rsa:der-4096", Expect::Accept);
                    offer(b, &mut m, &mut rep, "pke-public", &pub_der, "rsa:der-4096", Expect::Accept);
                    offer(b, &mut m, &mut rep, "secret", der, "rsa:wrong-modulus-4096", Expect::Reject);
                    offer(b, &mut m, &mut rep, "public", &pub_der, "rsa:wrong-modulus-4096", Expect::Reject);
                }
                // moduli that are nearly, but not exactly, 2048 / 4096 bits (same byte length or one byte off)
                for bits in [1024usize, 2040, 2047, 2049, 2050, 2056, 3072, 4088, 4094, 4095] {
                    for der in tok::corpus_rsa_keys_named(bits, "x") {
                        let k = rsa::RsaPrivateKey::from_pkcs1_der(&der).unwrap();
                        assert_eq!(rsa::traits::PublicKeyParts::n(&k).bits(), bits, "corpus key rsa{bits}_x.der");
                        let pem = k.to_pkcs1_pem(rsa::pkcs8::LineEnding::LF).unwrap().as_bytes().to_vec();
                        let pub_der = k.to_public_key().to_public_key_der().unwrap().into_vec();
                        let what = format!("rsa:wrong-modulus-{bits}");
                        offer(b, &mut m, &mut rep, "secret", &der, &what, Expect::Reject);
                        offer(b, &mut m, &mut rep, "secret", &pem, &what, Expect::Reject);
                        offer(b, &mut m, &mut rep, "public", &pub_der, &what, Expect::Reject);
                        offer(b, &mut m, &mut rep, "pke-secret", &der, &what, Expect::Reject);
                        offer(b, &mut m, &mut rep, "pke-public", &pub_der, &what, Expect::Reject);
                    }
                }
                for len in [0usize, 1, 32, 64, 270, 1190] {
                    offer(b, &mut m, &mut rep, "secret", &g.bytes(len), "rsa:random-bytes", Expect::Reject);
                    offer(b, &mut m, &mut rep, "public", &g.bytes(len), "rsa:random-bytes", Expect::Reject);
                }
                offer(b, &mut m, &mut rep, "local", &g.bytes(32), "generated", Expect::Accept);
                for len in [0usize, 31, 33, 64] {
                    offer(b, &mut m, &mut rep, "local", &g.bytes(len), "wrong-length:random", Expect::Reject);
                }
            }
        }
    }
    // ---- siblings agree on keys both must accept or both must reject (honest keys and the property's classes)
    for (x, y) in [("v3", "v3-aws-lc"), ("v4", "v4-sodium")] {
        let bx = bs.iter().find(|b| b.name == x).unwrap();
        let by = bs.iter().find(|b| b.name == y).unwrap();
        let mut kps = tok::keypairs(bx, &mut g, 3);
        kps.extend(tok::edge_keypairs(bx, &mut g));
        // small scalars / many seeds: value-dependent serialisation (a coordinate with leading zero bytes, 1 key in 256)
        // needs hundreds of keys, and the two backends must derive the same public key from each
        let sweep = if thorough { 3000u32 } else { 700 };
        for i in 1..=sweep {
            let sk: Vec<u8> = if bx.ver == "v3" {
                let mut v = vec![0u8; 48];
                v[44..].copy_from_slice(&i.to_be_bytes());
                v
            } else {
                let mut seed = [0u8; 32];
                seed[..4].copy_from_slice(&i.to_le_bytes());
                let pk = ed25519_dalek::SigningKey::from_bytes(&seed).verifying_key().to_bytes();
                let mut v = seed.to_vec();
                v.extend_from_slice(&pk);
                v
            };
            rep.evaluations += 1;
            let a = (bx.public_of_secret)(&sk);
            let c = (by.public_of_secret)(&sk);
            let idp = a.as_ref().ok().map(|pk| ((bx.key_id)("public", pk), (by.key_id)("public", pk), (bx.key_text)("public", pk), (by.key_text)("public", pk)));
            let ok = a.is_ok() && a == c && matches!(&idp, Some((i1, i2, t1, t2)) if i1.is_ok() && i1 == i2 && t1.is_ok() && t1 == t2);
            if !ok {
                rep.violation(&format!("c08.siblings.{x}.sweep"), format!("{x} and {y} disagree on the public key, its text or its id for the secret key number {i} of the sweep: {:?} vs {:?}", a.map(hex::encode), c.map(hex::encode)), json!({"backend": x, "kind": "secret", "bytes": hex::encode(&sk), "what": "siblings"}));
                break;
            }
        }
        rep.count_n(&format!("siblings.{x}.key-sweep"), sweep as u64);
        for kp in &kps {
            rep.evaluations += 1;
            let a = (bx.public_of_secret)(&kp.sk);
            let c = (by.public_of_secret)(&kp.sk);
            if a != c || a.is_err() {
                rep.violation(&format!("c08.siblings.{x}.public_key"), format!("{x} and {y} derive different public keys from one secret key: {:?} vs {:?}", a.map(hex::encode), c.map(hex::encode)), json!({"backend": x, "kind": "secret", "bytes": hex::encode(&kp.sk), "what": "siblings"}));
            }
            for kind in ["secret", "public"] {
                let bytes = if kind == "secret" { &kp.sk } else { &kp.pk };
                if (bx.key_roundtrip)(kind, bytes) != (by.key_roundtrip)(kind, bytes) {
                    rep.violation(&format!("c08.siblings.{x}.{kind}"), format!("{x} and {y} disagree on a valid {kind} key"), json!({"backend": x, "kind": kind, "bytes": hex::encode(bytes), "what": "siblings"}));
                }
            }
            rep.nontrivial(format!("sib|{x}|{}", kp.source));
        }
    }
    rep.model_prim_calls = m.prim_calls();
    rep.finish(ctx.out.as_deref());
}
