//! What a harness run hands back to ./check (which turns it into evidence + VIOLATION lines).
use serde::Serialize;
use serde_json::Value;
use std::collections::{BTreeMap, BTreeSet};

/// Calls on which the model left the domain of a primitive whose `laws` field (Oracle.v) is stated for a
/// total extension (filled by prims.rs).  `Report::finish` turns a non-empty list into a broken
/// correspondence, so a model that leaves the domain is never silent.
pub static LEFT_DOMAIN: std::sync::Mutex<Vec<String>> = std::sync::Mutex::new(Vec::new());

#[derive(Serialize, Default)]
pub struct Finding {
    /// short machine-matchable class, e.g. "v2.local.encrypt-roundtrip"
    pub class: String,
    pub what: String,
    /// everything needed to replay (op, inputs as hex, seed)
    pub replay: Value,
}

#[derive(Serialize, Default)]
pub struct Report {
    pub property: String,
    pub tier: String,
    pub seed: u64,
    pub evaluations: u64,
    pub model_evaluations: u64,
    pub model_prim_calls: u64,
    pub distinct_nontrivial: u64,
    pub rule: String,
    pub exhaustive: bool,
    pub samples: Vec<Value>,
    pub distribution: BTreeMap<String, u64>,
    /// P(I) false: the property fails on the implementation for this input
    pub violations: Vec<Finding>,
    /// I != M: model and implementation disagree (broken correspondence)
    pub disagreements: Vec<Finding>,
    /// cases to be re-evaluated inside the kernel (cases.v): (model case text, expected result text)
    pub kernel_cases: Vec<(String, String)>,
    pub notes: Vec<String>,
    #[serde(skip)]
    pub distinct: BTreeSet<String>,
}

impl Report {
    pub fn new(property: &str, tier: &str, seed: u64) -> Report {
        Report { property: property.into(), tier: tier.into(), seed, ..Default::default() }
    }
    pub fn count(&mut self, key: &str) {
        *self.distribution.entry(key.to_string()).or_insert(0) += 1;
    }
    pub fn count_n(&mut self, key: &str, n: u64) {
        *self.distribution.entry(key.to_string()).or_insert(0) += n;
    }
    pub fn nontrivial(&mut self, key: String) {
        self.distinct.insert(key);
    }
    pub fn sample(&mut self, v: Value) {
        if self.samples.len() < 12 {
            self.samples.push(v);
        }
    }
    pub fn violation(&mut self, class: &str, what: String, replay: Value) {
        if self.violations.len() < 50 {
            self.violations.push(Finding { class: class.into(), what, replay });
        }
        self.count(&format!("violation:{class}"));
    }
    pub fn disagreement(&mut self, class: &str, what: String, replay: Value) {
        if self.disagreements.len() < 50 {
            self.disagreements.push(Finding { class: class.into(), what, replay });
        }
        self.count(&format!("disagreement:{class}"));
    }
    pub fn merge(&mut self, mut o: Report) {
        self.evaluations += o.evaluations;
        self.model_evaluations += o.model_evaluations;
        self.model_prim_calls += o.model_prim_calls;
        for (k, v) in o.distribution {
            *self.distribution.entry(k).or_insert(0) += v;
        }
        for sm in o.samples {
            self.sample(sm);
        }
        self.violations.append(&mut o.violations);
        self.disagreements.append(&mut o.disagreements);
        self.kernel_cases.append(&mut o.kernel_cases);
        self.notes.append(&mut o.notes);
        self.distinct.append(&mut o.distinct);
    }
    pub fn finish(mut self, out: Option<&str>) {
        self.distinct_nontrivial = self.distinct.len() as u64;
        let left = LEFT_DOMAIN.lock().unwrap_or_else(|e| e.into_inner()).clone();
        if !left.is_empty() {
            self.disagreement(
                "oracle.left-domain",
                "the model called a primitive outside its domain (Oracle.v: laws are stated for a total extension)".into(),
                serde_json::json!({ "calls": left }),
            );
        }
        self.violations.truncate(50);
        self.disagreements.truncate(50);
        let text = serde_json::to_string_pretty(&self).unwrap();
        match out {
            Some(p) => std::fs::write(p, text).expect("write report"),
            None => println!("{text}"),
        }
    }
}
