//! Input generators for C14: RegisteredClaims values and JSON documents (as generator trees).
use crate::json::{G, GK};
use crate::SplitMix64;

pub const KEYS: [&str; 7] = ["iss", "sub", "aud", "exp", "nbf", "iat", "jti"];
pub fn is_time_key(k: &str) -> bool {
    matches!(k, "exp" | "nbf" | "iat")
}

pub fn ts_min() -> i128 {
    jiff::Timestamp::MIN.as_nanosecond()
}
pub fn ts_max() -> i128 {
    jiff::Timestamp::MAX.as_nanosecond()
}

fn rand_scalar(g: &mut SplitMix64) -> char {
    loop {
        let cp = match g.below(8) {
            0 => g.below(0x20) as u32,                 // control
            1 | 2 => 0x20 + g.below(0x5f) as u32,      // printable ASCII
            3 => 0x7f + g.below(0x781) as u32,         // 2-byte
            4 => 0x800 + g.below(0xF800) as u32,       // 3-byte (surrogates filtered below)
            5 => 0x10000 + g.below(0x100000) as u32,   // astral
            6 => *g.pick(&[0x22, 0x5c, 0x2f, 0x00, 0x7f, 0xD7FF, 0xE000, 0xFFFD, 0xFFFE, 0xFFFF, 0x10000, 0x10FFFF, 0x2028, 0x2029, 0xFEFF]),
            _ => 0x61 + g.below(26) as u32,
        };
        if let Some(c) = char::from_u32(cp) {
            return c;
        }
    }
}

pub fn rand_string(g: &mut SplitMix64, max_len: usize) -> String {
    let n = g.below(max_len as u64 + 1) as usize;
    (0..n).map(|_| rand_scalar(g)).collect()
}

/// fixed pool of awkward strings
pub fn string_pool() -> Vec<String> {
    let mut v: Vec<String> = vec![
        "", "a", "issuer", "a\"b\\c", "\0", "\0\0x\0", "\u{1}\u{1f}\u{7f}", "\n\t\r\u{8}\u{c}", "/", "\\u0041", "\\", "\"", "\"\"",
        "é", "日本語", "😀𝄞", "\u{FFFF}", "\u{10FFFF}", "\u{D7FF}\u{E000}", "\u{2028}\u{2029}", "\u{FEFF}bom", "null", "true", "1", "{}", "[\"iss\"]",
        "2024-01-01T00:00:00Z", " leading and trailing ", "iss", "exp",
    ]
    .into_iter()
    .map(String::from)
    .collect();
    v.push("a".repeat(10_000));
    v.push("\"\\\u{0}\u{1F600}é".repeat(2_000));
    v
}

pub fn rand_claim_string(g: &mut SplitMix64, pool: &[String], long_ok: bool) -> String {
    match g.below(10) {
        0..=3 => {
            let s = g.pick(pool).clone();
            if !long_ok && s.len() > 200 { "short".into() } else { s }
        }
        4..=7 => rand_string(g, 12),
        8 => rand_string(g, 200),
        _ => {
            if long_ok && g.chance(1, 8) {
                rand_string(g, 20_000)
            } else {
                rand_string(g, 40)
            }
        }
    }
}

/// fixed pool of boundary instants (nanoseconds)
pub fn ts_pool() -> Vec<i128> {
    let (mn, mx) = (ts_min(), ts_max());
    let s: i128 = 1_000_000_000;
    let mut v = vec![mn, mn + 1, mn + s, mn + s - 1, mx, mx - 1, mx - 999_999_999, mx - s, 0, 1, -1, s, s + 1, s + 999_999_999, -s, -s - 1, -s + 1, -999_999_999,
        1_700_000_000 * s, 1_700_000_000 * s + 123_456_789, 1_700_000_000 * s + 500_000_000, 1_700_000_000 * s + 120_000_000, 1_700_000_000 * s + 1_000, 1_700_000_000 * s + 1_000_000,
        i32::MAX as i128 * s, (i32::MAX as i128 + 1) * s, i32::MIN as i128 * s, (i32::MIN as i128) * s - 1];
    // year boundaries: first and last nanosecond of a year, incl. year 0, negative years, 9999
    for text in ["0000-01-01T00:00:00Z", "0001-01-01T00:00:00Z", "-000001-01-01T00:00:00Z", "-000001-12-31T23:59:59.999999999Z", "0000-12-31T23:59:59.999999999Z",
        "1000-01-01T00:00:00Z", "1969-12-31T23:59:59.999999999Z", "1970-01-01T00:00:00.000000001Z", "1999-12-31T23:59:59.999999999Z", "2000-01-01T00:00:00Z", "2000-02-29T12:00:00.5Z",
        "2024-12-31T23:59:59.999999999Z", "2025-01-01T00:00:00Z", "9999-01-01T00:00:00Z", "9998-12-31T23:59:59.999999999Z", "-009998-01-01T00:00:00Z", "-009999-12-31T23:59:59.999999999Z",
        "-001000-06-15T00:00:00.000000001Z", "0099-12-31T23:59:59Z", "0100-01-01T00:00:00Z"] {
        if let Ok(t) = text.parse::<jiff::Timestamp>() {
            v.push(t.as_nanosecond());
        }
    }
    v
}

pub fn rand_ts(g: &mut SplitMix64, pool: &[i128]) -> i128 {
    let (mn, mx) = (ts_min(), ts_max());
    let s: i128 = 1_000_000_000;
    let span = (mx - mn + 1) as u128;
    let uni = |g: &mut SplitMix64| -> i128 {
        let r = ((g.next() as u128) << 64 | g.next() as u128) % span;
        mn + r as i128
    };
    let t = match g.below(6) {
        0 | 1 => *g.pick(pool),
        2 => uni(g),
        3 => {
            // whole second with a chosen fraction (exercises trailing-zero trimming)
            let sec = uni(g).div_euclid(s);
            let frac = *g.pick(&[0i128, 1, 999_999_999, 500_000_000, 123_000_000, 100, 1_000, 1_000_000, 10, 999_999_990, 100_000_000]);
            sec * s + frac
        }
        4 => 1_600_000_000 * s + (g.below(400_000_000) as i128) * s + g.below(1_000_000_000) as i128,
        _ => *g.pick(pool) + g.below(3) as i128 - 1,
    };
    t.clamp(mn, mx)
}

pub fn fmt_ts(ns: i128) -> String {
    jiff::Timestamp::from_nanosecond(ns).expect("in range").to_string()
}

/// strings offered as time claims: what jiff prints, plus variants jiff may or may not accept
pub fn time_text(g: &mut SplitMix64, pool: &[i128]) -> String {
    let t = rand_ts(g, pool);
    let canon = fmt_ts(t);
    match g.below(24) {
        0..=7 => canon,
        8 => canon.replace('T', "t"),
        9 => canon.replace('Z', "z"),
        10 => canon.replace('T', " "),
        11 => canon.replace('Z', "+00:00"),
        12 => canon.replace('Z', "-00:00"),
        13 => canon.replace('Z', "+02:00"),
        14 => canon.replace('Z', "-0830"),
        15 => canon.replace('Z', ""),
        16 => canon.replace('.', ","),
        17 => canon[..canon.len().min(10)].to_string(),
        18 => format!("{canon}[UTC]"),
        19 => g.pick(&["", " ", "soon", "1700000000", "1700000000.5", "2024-13-01T00:00:00Z", "2024-02-30T00:00:00Z", "2023-02-29T00:00:00Z", "2024-01-01T24:00:00Z", "2024-01-01T23:59:60Z",
            "2016-12-31T23:59:60Z", "+010000-01-01T00:00:00Z", "10000-01-01T00:00:00Z", "-009999-01-01T00:00:00Z", "-010000-01-01T00:00:00Z", "9999-12-31T23:59:59.999999999Z", "9999-12-30T22:00:00.999999999Z",
            "9999-12-30T22:00:01Z", "-009999-01-02T01:59:59Z", "-009999-01-02T01:59:58.999999999Z", "2024-01-01T00:00:00.0000000001Z", "2024-01-01T00:00:00.Z", "2024-01-01T00:00Z", "2024-01-01T00Z", "20240101T000000Z",
            "2024-001T00:00:00Z", "2024-W01-1T00:00:00Z", "2024-01-01T00:00:00+25:00", "2024-01-01T00:00:00Z ", " 2024-01-01T00:00:00Z", "2024-01-01T00:00:00Z\0", "٢٠٢٤-01-01T00:00:00Z", "−2024-01-01T00:00:00Z",
            "2024-01-01T00:00:00+00:00[Europe/Paris]", "2024-01-01T00:00:00[UTC]", "Mon, 01 Jan 2024 00:00:00 GMT", "-000000-01-01T00:00:00Z", "+002024-01-01T00:00:00Z", "02024-01-01T00:00:00Z"]).to_string(),
        20 => format!("{canon} "),
        21 => canon.to_lowercase(),
        22 => {
            // drop or add fractional digits
            if let Some(p) = canon.find('.') { format!("{}Z", &canon[..p]) } else { canon.replace('Z', ".000Z") }
        }
        _ => canon.replace('Z', "+00"),
    }
}

/// any JSON value, for unknown members; may nest registered names, duplicates, non-Unicode strings, huge numbers
pub fn rand_unknown_value(g: &mut SplitMix64, depth: usize) -> G {
    let leaf = depth == 0 || g.chance(3, 5);
    if leaf {
        return match g.below(12) {
            0 => G::Null,
            1 => G::Bool(g.chance(1, 2)),
            2 => G::Num(g.pick(&["0", "-0", "1", "-1", "1.5", "1e5", "1E-5", "-0.0e+0", "123456789012345678901234567890", "1e999", "-1e999", "1e-999", "0.1", "18446744073709551616", "-9223372036854775809", "1.7976931348623157e308"]).to_string()),
            3 | 4 => G::Str(rand_string(g, 10)),
            5 => G::Str(g.pick(&["iss", "exp", "2024-01-01T00:00:00Z", ""]).to_string()),
            6 => G::Raw(g.pick(&[&b"\\ud800"[..], b"\\udc00", b"\\ud800\\u0041", b"\\udc00\\ud800", b"x\\uDBFFy", b"\xff", b"\xc0\x80", b"\xed\xa0\x80", b"\xf8\x88\x80\x80\x80", b"ok\\ud83d"]).to_vec()),
            7 => G::Arr(vec![]),
            8 => G::Obj(vec![]),
            _ => G::Num(format!("{}", g.next() as i64)),
        };
    }
    if g.chance(1, 2) {
        let n = g.below(4) as usize;
        G::Arr((0..n).map(|_| rand_unknown_value(g, depth - 1)).collect())
    } else {
        let n = g.below(4) as usize;
        G::Obj((0..n)
            .map(|_| {
                let k = match g.below(6) {
                    0 => GK::S(g.pick(&KEYS).to_string()),
                    1 => GK::Raw(b"\\ud800".to_vec()),
                    2 => GK::S("dup".into()),
                    _ => GK::S(rand_string(g, 6)),
                };
                (k, rand_unknown_value(g, depth - 1))
            })
            .collect())
    }
}

pub fn deep_value(depth: usize, arrays: bool) -> G {
    let mut v = G::Num("1".into());
    for i in 0..depth {
        v = if arrays || i % 2 == 0 { G::Arr(vec![v]) } else { G::Obj(vec![(GK::S("k".into()), v)]) };
    }
    v
}

/// names that are not registered (near misses included)
pub fn unknown_key(g: &mut SplitMix64) -> String {
    match g.below(4) {
        0 => g.pick(&["ISS", "Iss", "iss ", " iss", "is", "isss", "iss\0", "", "ex", "expp", "ext", "jt", "jtii", "nbff", "aud\u{0}", "sub.", "iat\n", "issuer", "expiration", "ıss", "іss", "kid", "wpk", "data", "\u{FEFF}iss"]).to_string(),
        1 => {
            let k = g.pick(&KEYS);
            format!("{k}{}", rand_scalar(g))
        }
        _ => {
            let s = rand_string(g, 8);
            if KEYS.contains(&s.as_str()) { format!("{s}_") } else { s }
        }
    }
}

pub fn good_value(g: &mut SplitMix64, key: &str, spool: &[String], tpool: &[i128]) -> G {
    if is_time_key(key) { G::Str(fmt_ts(rand_ts(g, tpool))) } else { G::Str(rand_claim_string(g, spool, false)) }
}

pub fn wrong_typed(g: &mut SplitMix64) -> (G, &'static str) {
    match g.below(8) {
        0 => (G::Num(g.pick(&["0", "1700000000", "-1", "1.5", "1e999"]).to_string()), "number"),
        1 => (G::Bool(g.chance(1, 2)), "bool"),
        2 => (G::Arr(vec![G::Str("a".into())]), "array"),
        3 => (G::Arr(vec![]), "array"),
        4 => (G::Obj(vec![(GK::S("iss".into()), G::Str("a".into()))]), "object"),
        5 => (G::Obj(vec![]), "object"),
        6 => (G::Raw(g.pick(&[&b"\\ud800"[..], b"a\\udc00", b"\xff", b"\\ud83d\\u0041"]).to_vec()), "non-unicode-string"),
        _ => (G::Num("1e5".into()), "number"),
    }
}
