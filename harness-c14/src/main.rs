//! harness-c14 — correspondence harness for C14 (RegisteredClaims / Json<T> wire round trip).
//!   harness-c14 --tier quick|thorough --seed N --model PATH --out FILE [--replay FILE]
//! Three parties on every case: the implementation (paseto-json), the extracted Gallina model
//! (Claims.v via ocaml/modelrun) and the direct predicate P(I) (the property text evaluated on the
//! implementation alone: round trip, wire form, agreement with a generic last-wins JSON reader,
//! insensitivity to unknown members and member order).
#![allow(clippy::all)]
#![allow(dead_code)]
#[path = "../../harness/src/sexp.rs"]
mod sexp;
#[path = "../../harness/src/model.rs"]
mod model;
#[path = "../../harness/src/report.rs"]
mod report;
mod docs;
mod gens;
mod json;

use json::{JV, G, GK};
use model::Model;
use paseto_core::encodings::{Footer, Payload};
use paseto_json::{Json, RegisteredClaims};
use report::Report;
use serde_json::json;
use sexp::Sexp;

type RC = RegisteredClaims;

#[derive(Clone)]
pub struct SplitMix64(pub u64);
impl SplitMix64 {
    pub fn next(&mut self) -> u64 {
        self.0 = self.0.wrapping_add(0x9E3779B97F4A7C15);
        let mut z = self.0;
        z = (z ^ (z >> 30)).wrapping_mul(0xBF58476D1CE4E5B9);
        z = (z ^ (z >> 27)).wrapping_mul(0x94D049BB133111EB);
        z ^ (z >> 31)
    }
    pub fn below(&mut self, n: u64) -> u64 {
        if n == 0 { 0 } else { self.next() % n }
    }
    pub fn pick<'a, T>(&mut self, v: &'a [T]) -> &'a T {
        &v[self.below(v.len() as u64) as usize]
    }
    pub fn chance(&mut self, num: u64, den: u64) -> bool {
        self.below(den) < num
    }
}

// ---------------------------------------------------------------- claims as plain data

#[derive(Clone, PartialEq, Debug, Default)]
struct Fields {
    iss: Option<Vec<u8>>,
    sub: Option<Vec<u8>>,
    aud: Option<Vec<u8>>,
    exp: Option<i128>,
    nbf: Option<i128>,
    iat: Option<i128>,
    jti: Option<Vec<u8>>,
}

impl Fields {
    fn of(c: &RC) -> Fields {
        let b = |o: &Option<String>| o.as_ref().map(|s| s.as_bytes().to_vec());
        let t = |o: &Option<jiff::Timestamp>| o.map(|t| t.as_nanosecond());
        Fields { iss: b(&c.iss), sub: b(&c.sub), aud: b(&c.aud), exp: t(&c.exp), nbf: t(&c.nbf), iat: t(&c.iat), jti: b(&c.jti) }
    }
    fn to_rc(&self) -> RC {
        let b = |o: &Option<Vec<u8>>| o.as_ref().map(|s| String::from_utf8(s.clone()).expect("utf8"));
        let t = |o: &Option<i128>| o.map(|n| jiff::Timestamp::from_nanosecond(n).expect("in range"));
        RC { iss: b(&self.iss), sub: b(&self.sub), aud: b(&self.aud), exp: t(&self.exp), nbf: t(&self.nbf), iat: t(&self.iat), jti: b(&self.jti) }
    }
    fn strs(&self) -> [(&'static str, &Option<Vec<u8>>); 4] {
        [("iss", &self.iss), ("sub", &self.sub), ("aud", &self.aud), ("jti", &self.jti)]
    }
    fn times(&self) -> [(&'static str, &Option<i128>); 3] {
        [("exp", &self.exp), ("nbf", &self.nbf), ("iat", &self.iat)]
    }
    fn mask(&self) -> u32 {
        [self.iss.is_some(), self.sub.is_some(), self.aud.is_some(), self.exp.is_some(), self.nbf.is_some(), self.iat.is_some(), self.jti.is_some()].iter().enumerate().map(|(i, p)| (*p as u32) << i).sum()
    }
    fn sexp(&self) -> Sexp {
        let ob = |o: &Option<Vec<u8>>| match o {
            Some(s) => sexp::l(vec![sexp::s("some"), sexp::x(s)]),
            None => sexp::s("none"),
        };
        let ot = |o: &Option<i128>| match o {
            Some(t) => sexp::l(vec![sexp::s("some"), sexp::n(t)]),
            None => sexp::s("none"),
        };
        sexp::l(vec![ob(&self.iss), ob(&self.sub), ob(&self.aud), ot(&self.exp), ot(&self.nbf), ot(&self.iat), ob(&self.jti)])
    }
    fn from_sexp(s: &Sexp) -> Fields {
        let it = s.list();
        let ob = |x: &Sexp| if x.is_sym("none") { None } else { Some(x.list()[1].bytes().to_vec()) };
        let ot = |x: &Sexp| if x.is_sym("none") { None } else { Some(x.list()[1].num().parse::<i128>().unwrap()) };
        Fields { iss: ob(&it[0]), sub: ob(&it[1]), aud: ob(&it[2]), exp: ot(&it[3]), nbf: ot(&it[4]), iat: ot(&it[5]), jti: ob(&it[6]) }
    }
    fn gallina(&self) -> String {
        let ob = |o: &Option<Vec<u8>>| match o {
            Some(s) => format!("Some (hex \"{}\")", hex::encode(s)),
            None => "None".to_string(),
        };
        let ot = |o: &Option<i128>| match o {
            Some(t) => format!("Some ({t})%Z"),
            None => "None".to_string(),
        };
        format!("{{| iss := {}; sub := {}; aud := {}; exp := {}; nbf := {}; iat := {}; jti := {} |}}", ob(&self.iss), ob(&self.sub), ob(&self.aud), ot(&self.exp), ot(&self.nbf), ot(&self.iat), ob(&self.jti))
    }
    fn brief(&self) -> String {
        let t = self.sexp().to_text();
        if t.len() > 400 { format!("{}…({} chars)", &t[..400], t.len()) } else { t }
    }
}

fn brief_bytes(b: &[u8]) -> String {
    let s = String::from_utf8_lossy(&b[..b.len().min(300)]).to_string();
    if b.len() > 300 { format!("{s}…({} bytes)", b.len()) } else { s }
}

// ---------------------------------------------------------------- the implementation under test

fn impl_encode(c: &RC) -> Result<Vec<u8>, String> {
    let c = c.clone();
    match std::panic::catch_unwind(move || {
        let mut out: Vec<u8> = vec![];
        <RC as Payload>::encode(c, &mut out).map(|_| out).map_err(|e| e.to_string())
    }) {
        Ok(r) => r,
        Err(_) => Err("panic".into()),
    }
}

fn impl_decode(b: &[u8]) -> Result<Fields, String> {
    match std::panic::catch_unwind(|| <RC as Payload>::decode(b).map(|c| Fields::of(&c)).map_err(|e| e.to_string())) {
        Ok(r) => r,
        Err(_) => Err("panic".into()),
    }
}

fn err_kind(e: &str) -> &'static str {
    for (pat, k) in [("panic", "panic"), ("failed to parse", "jiff-parse"), ("duplicate field", "duplicate-field"), ("invalid type", "invalid-type"), ("trailing characters", "trailing-characters"), ("EOF", "eof"), ("lone", "lone-surrogate"),
        ("unexpected end of hex escape", "lone-surrogate"), ("invalid unicode code point", "invalid-unicode"), ("control character", "control-character"), ("invalid escape", "invalid-escape"),
        ("key must be a string", "key-not-string"), ("recursion limit", "recursion-limit"), ("number out of range", "number-out-of-range"), ("invalid number", "invalid-number"), ("expected", "syntax"),
        ("trailing comma", "syntax"), ("failed to parse", "jiff-parse"), ("parse", "jiff-parse")] {
        if e.contains(pat) {
            return k;
        }
    }
    "other(jiff-or-serde)"
}

// ---------------------------------------------------------------- the model side (jiff answers the text-layer calls)

#[derive(Default)]
struct Tables {
    parse: Vec<(Vec<u8>, Option<i128>)>,
    fmt: Vec<(i128, Vec<u8>)>,
}

impl Tables {
    fn gallina_parse(&self) -> String {
        format!("[{}]", self.parse.iter().map(|(s, r)| format!("(hex \"{}\", {})", hex::encode(s), match r { Some(t) => format!("Some ({t})%Z"), None => "None".into() })).collect::<Vec<_>>().join("; "))
    }
    fn gallina_fmt(&self) -> String {
        format!("[{}]", self.fmt.iter().map(|(t, s)| format!("(({t})%Z, hex \"{}\")", hex::encode(s))).collect::<Vec<_>>().join("; "))
    }
}

fn jiff_parse(s: &[u8]) -> Option<i128> {
    std::str::from_utf8(s).ok().and_then(|s| s.parse::<jiff::Timestamp>().ok()).map(|t| t.as_nanosecond())
}

fn model_eval(model: &mut Model, case: &Sexp, tb: &mut Tables) -> Sexp {
    model.eval(case, &mut |name, args| match name {
        "parse_ts" => {
            let s = args[0].bytes().to_vec();
            let r = jiff_parse(&s);
            if !tb.parse.iter().any(|(k, _)| *k == s) {
                tb.parse.push((s, r));
            }
            match r {
                Some(t) => sexp::l(vec![sexp::s("some"), sexp::n(t)]),
                None => sexp::s("none"),
            }
        }
        "fmt_ts" => {
            let t: i128 = args[0].num().parse().unwrap();
            let s = gens::fmt_ts(t).into_bytes();
            if !tb.fmt.iter().any(|(k, _)| *k == t) {
                tb.fmt.push((t, s.clone()));
            }
            sexp::x(&s)
        }
        other => panic!("model asked for unknown primitive {other}"),
    })
}

fn model_result(r: &Sexp) -> Result<Fields, String> {
    let it = r.list();
    match it[0].sym() {
        "ok" => Ok(Fields::from_sexp(&it[1])),
        "err" => Err(it[1].sym().to_string()),
        "panic" => Err("panic".into()),
        _ => Err(format!("driver:{}", r.to_text())),
    }
}

fn same_outcome(i: &Result<Fields, String>, m: &Result<Fields, String>) -> bool {
    match (i, m) {
        (Ok(a), Ok(b)) => a == b,
        (Err(e), Err(k)) => e != "panic" && k == "PayloadError",
        _ => false,
    }
}

struct Run {
    rep: Report,
    model: Model,
    thorough: bool,
    n: u64,
    kc_by_class: std::collections::HashMap<String, u32>,
}

const MODEL_CAP: usize = 64 * 1024;

// ---------------------------------------------------------------- flow A: encode, then decode

fn looks_rfc3339_utc(s: &[u8]) -> bool {
    // [-]YYYY[YY]-MM-DDTHH:MM:SS[.f{1,9}]Z
    let mut i = 0;
    if s.first() == Some(&b'-') {
        i += 1;
    }
    let d = |s: &[u8], i: &mut usize, min: usize, max: usize| {
        let st = *i;
        while *i < s.len() && s[*i].is_ascii_digit() && *i - st < max {
            *i += 1;
        }
        *i - st >= min
    };
    let lit = |s: &[u8], i: &mut usize, c: u8| {
        if s.get(*i) == Some(&c) { *i += 1; true } else { false }
    };
    if !(d(s, &mut i, 4, 6) && lit(s, &mut i, b'-') && d(s, &mut i, 2, 2) && lit(s, &mut i, b'-') && d(s, &mut i, 2, 2) && lit(s, &mut i, b'T') && d(s, &mut i, 2, 2) && lit(s, &mut i, b':') && d(s, &mut i, 2, 2) && lit(s, &mut i, b':') && d(s, &mut i, 2, 2)) {
        return false;
    }
    if lit(s, &mut i, b'.') && !d(s, &mut i, 1, 9) {
        return false;
    }
    lit(s, &mut i, b'Z') && i == s.len()
}

fn check_roundtrip(run: &mut Run, c: &Fields, origin: &str) {
    run.n += 1;
    run.rep.evaluations += 1;
    run.rep.count(&format!("roundtrip:{origin}"));
    run.rep.count(&format!("roundtrip:present={}", c.mask().count_ones()));
    run.rep.nontrivial(format!("{:07b}|roundtrip", c.mask()));
    let replay = json!({"op":"roundtrip","claims":c.sexp().to_text()});
    let enc = match impl_encode(&c.to_rc()) {
        Ok(b) => b,
        Err(e) => {
            run.rep.violation("roundtrip.encode-fails", format!("encoding {} fails: {e}", c.brief()), replay);
            return;
        }
    };
    // P(I): decode(encode(c)) == c, field by field
    let dec = impl_decode(&enc);
    match &dec {
        Ok(d) if d == c => {}
        Ok(d) => {
            let mut diff = vec![];
            for ((k, a), (_, b)) in c.strs().iter().zip(d.strs().iter()) {
                if a != b {
                    diff.push(*k);
                }
            }
            for ((k, a), (_, b)) in c.times().iter().zip(d.times().iter()) {
                if a != b {
                    diff.push(*k);
                }
            }
            run.rep.violation("roundtrip.decode-differs", format!("decode(encode(c)) differs from c in {:?}: c = {}, wire = {}, decoded = {}", diff, c.brief(), brief_bytes(&enc), d.brief()), replay.clone());
        }
        Err(e) => run.rep.violation("roundtrip.decode-fails", format!("decode(encode(c)) fails ({e}): c = {}, wire = {}", c.brief(), brief_bytes(&enc)), replay.clone()),
    }
    // P(I): the wire form is a JSON object holding exactly the present claims, in order, as strings; times as RFC 3339
    let mut wire_members: Option<Vec<(Vec<u8>, JV)>> = None;
    match json::parse(&enc) {
        Ok(p) => match p.root {
            JV::Obj(ms) => {
                let mut want: Vec<(&str, JV, Option<i128>)> = vec![];
                let s = |k: &'static str, o: &Option<Vec<u8>>, w: &mut Vec<(&str, JV, Option<i128>)>| {
                    if let Some(b) = o {
                        w.push((k, JV::Str(b.clone()), None));
                    }
                };
                let t = |k: &'static str, o: &Option<i128>, w: &mut Vec<(&str, JV, Option<i128>)>| {
                    if let Some(n) = o {
                        w.push((k, JV::Null, Some(*n)));
                    }
                };
                s("iss", &c.iss, &mut want);
                s("sub", &c.sub, &mut want);
                s("aud", &c.aud, &mut want);
                t("exp", &c.exp, &mut want);
                t("nbf", &c.nbf, &mut want);
                t("iat", &c.iat, &mut want);
                s("jti", &c.jti, &mut want);
                let keys: Vec<String> = ms.iter().map(|(k, _)| String::from_utf8_lossy(k).to_string()).collect();
                let wkeys: Vec<&str> = want.iter().map(|w| w.0).collect();
                if keys.iter().map(|s| s.as_str()).collect::<Vec<_>>() != wkeys {
                    run.rep.violation("wire-form.members", format!("wire form has members {keys:?}, the present claims are {wkeys:?} (absent claims must be omitted, order iss sub aud exp nbf iat jti): c = {}, wire = {}", c.brief(), brief_bytes(&enc)), replay.clone());
                } else {
                    for ((k, v), (_, wv, wt)) in ms.iter().zip(want.iter()) {
                        let name = String::from_utf8_lossy(k).to_string();
                        match (v, wt) {
                            (JV::Str(b), None) => {
                                if JV::Str(b.clone()) != *wv {
                                    run.rep.violation("wire-form.string", format!("member {name} does not hold the claim's string byte for byte: wire = {}", brief_bytes(&enc)), replay.clone());
                                }
                            }
                            (JV::Str(b), Some(n)) => {
                                if !looks_rfc3339_utc(b) {
                                    run.rep.violation("wire-form.rfc3339", format!("member {name} = {:?} is not an RFC 3339 UTC timestamp", String::from_utf8_lossy(b)), replay.clone());
                                }
                                if jiff_parse(b) != Some(*n) {
                                    run.rep.violation("wire-form.instant", format!("member {name} = {:?} does not denote the claim's instant {n} ns", String::from_utf8_lossy(b)), replay.clone());
                                }
                            }
                            _ => run.rep.violation("wire-form.type", format!("member {name} is not a JSON string: wire = {}", brief_bytes(&enc)), replay.clone()),
                        }
                    }
                }
                wire_members = Some(ms);
            }
            _ => run.rep.violation("wire-form.not-an-object", format!("wire form is not a JSON object: {}", brief_bytes(&enc)), replay.clone()),
        },
        Err(e) => run.rep.violation("wire-form.not-json", format!("wire form is not JSON ({e:?}): {}", brief_bytes(&enc)), replay.clone()),
    }
    // ... and serde_json's own generic reader sees the same object
    match serde_json::from_slice::<serde_json::Value>(&enc) {
        Ok(serde_json::Value::Object(m)) => {
            if m.len() != c.mask().count_ones() as usize || m.values().any(|v| !v.is_string()) {
                run.rep.violation("wire-form.generic-reader", format!("serde_json::Value reads {} members / non-string values from {}", m.len(), brief_bytes(&enc)), replay.clone());
            }
        }
        _ => run.rep.violation("wire-form.generic-reader", format!("serde_json::Value does not read an object from {}", brief_bytes(&enc)), replay.clone()),
    }
    // model: members_of and visit
    if enc.len() > MODEL_CAP {
        run.rep.count("model-skipped:wire-form>64KiB");
        return;
    }
    let mut tb = Tables::default();
    let mm = model_eval(&mut run.model, &sexp::op("claims_members", vec![c.sexp()]), &mut tb);
    run.rep.model_evaluations += 1;
    let model_members: Vec<(Vec<u8>, JV)> = mm.list().iter().map(|m| (m.list()[0].bytes().to_vec(), json::sexp_jv(&m.list()[1]))).collect();
    if let Some(w) = &wire_members {
        if *w != model_members {
            run.rep.disagreement("encode.model-vs-impl", format!("members_of gives {} but the implementation wrote {}", json::members_sexp(&model_members).brief(), brief_bytes(&enc)), replay.clone());
        }
    }
    let mr = model_eval(&mut run.model, &sexp::op("claims_visit", vec![json::members_sexp(&model_members)]), &mut tb);
    run.rep.model_evaluations += 1;
    let mres = model_result(&mr);
    if !same_outcome(&dec, &mres) {
        run.rep.disagreement("roundtrip.model-vs-impl", format!("decode of {}: impl {:?} model {:?}", brief_bytes(&enc), dec.as_ref().map(|f| f.brief()), mres.as_ref().map(|f| f.brief())), replay.clone());
    }
    if enc.len() < 400 && run.n % 23 == 0 && run.rep.kernel_cases.iter().filter(|(l, _)| l.starts_with("members_of")).count() < 25 {
        run.rep.kernel_cases.push((format!("members_of (tbl_fmt {}) {}", tb.gallina_fmt(), c.gallina()), json::members_gallina(&model_members)));
        if let Ok(f) = &mres {
            run.rep.kernel_cases.push((format!("visit (tbl_parse {}) {}", tb.gallina_parse(), json::members_gallina(&model_members)), format!("Ok {}", f.gallina())));
        }
    }
    if run.n % 997 == 0 {
        run.rep.sample(json!({"flow":"encode-decode","claims":c.brief(),"wire":brief_bytes(&enc),"decoded_equal":dec.as_ref().ok() == Some(c)}));
    }
}

// ---------------------------------------------------------------- flow B: decode arbitrary documents

/// P(I): the registered claims as a generic last-wins reader (serde_json::Value) reads them
fn generic_read_value(v: &serde_json::Value) -> Result<Fields, String> {
    let serde_json::Value::Object(m) = v else { return Err("root is not an object".into()) };
    let rs = |k: &str| -> Result<Option<Vec<u8>>, String> {
        match m.get(k) {
            None | Some(serde_json::Value::Null) => Ok(None),
            Some(serde_json::Value::String(s)) => Ok(Some(s.as_bytes().to_vec())),
            Some(o) => Err(format!("member {k} is {o}, not a string")),
        }
    };
    let rt = |k: &str| -> Result<Option<i128>, String> {
        match rs(k)? {
            None => Ok(None),
            Some(s) => jiff_parse(&s).map(Some).ok_or(format!("member {k} = {:?} is not a timestamp jiff reads", String::from_utf8_lossy(&s))),
        }
    };
    Ok(Fields { iss: rs("iss")?, sub: rs("sub")?, aud: rs("aud")?, exp: rt("exp")?, nbf: rt("nbf")?, iat: rt("iat")?, jti: rs("jti")? })
}

/// the same reading on the strict reader's tree (used when serde_json::Value refuses the document
/// for a reason confined to unknown members: non-Unicode string, number beyond f64, depth > 127)
fn generic_read_tree(root: &JV) -> Result<Fields, String> {
    let JV::Obj(ms) = root else { return Err("root is not an object".into()) };
    let rs = |k: &str| -> Result<Option<Vec<u8>>, String> {
        match json::last_value(ms, k.as_bytes()) {
            None | Some(JV::Null) => Ok(None),
            Some(JV::Str(s)) => Ok(Some(s.clone())),
            Some(o) => Err(format!("member {k} is {}, not a string", json::jv_sexp(o).brief())),
        }
    };
    let rt = |k: &str| -> Result<Option<i128>, String> {
        match rs(k)? {
            None => Ok(None),
            Some(s) => jiff_parse(&s).map(Some).ok_or(format!("member {k} is not a timestamp jiff reads")),
        }
    };
    Ok(Fields { iss: rs("iss")?, sub: rs("sub")?, aud: rs("aud")?, exp: rt("exp")?, nbf: rt("nbf")?, iat: rt("iat")?, jti: rs("jti")? })
}

fn check_decode(run: &mut Run, doc: &docs::Doc, g: &mut SplitMix64) {
    run.n += 1;
    run.rep.evaluations += 1;
    run.rep.count(&format!("shape:{}", doc.class));
    let text = &doc.text;
    let replay = json!({"op":"decode","text_hex":hex::encode(text),"class":doc.class});
    let ires = impl_decode(text);
    match &ires {
        Ok(f) => {
            run.rep.count("impl:ok");
            run.rep.nontrivial(format!("{:07b}|{}", f.mask(), doc.class));
        }
        Err(e) => {
            run.rep.count(&format!("impl:err:{}", err_kind(e)));
            run.rep.nontrivial(format!("err:{}|{}", err_kind(e), doc.class));
            if e == "panic" {
                run.rep.violation("decode.panics", format!("decode panics on {}", brief_bytes(text)), replay.clone());
            }
        }
    }
    let hand = json::parse(text);
    let ov = serde_json::from_slice::<json::OV>(text);
    let val = serde_json::from_slice::<serde_json::Value>(text);
    // self-check of the text-layer premise: the strict reader and serde_json agree wherever both apply
    match (&hand, &ov) {
        (Ok(p), Ok(o)) => {
            if !json::ov_matches(o, &p.root) {
                run.rep.disagreement("text-layer.strict-reader-vs-serde_json", format!("the two readers build different trees from {}", brief_bytes(text)), replay.clone());
            }
        }
        (Ok(p), Err(e)) => {
            let reason = if p.bad_strings > 0 { "non-unicode-string" } else if p.huge_numbers > 0 { "number-beyond-f64" } else if p.max_depth >= 127 { "depth>127" } else { "" };
            if reason.is_empty() {
                run.rep.disagreement("text-layer.strict-reader-accepts", format!("serde_json rejects ({e}) a document the strict reader accepts: {}", brief_bytes(text)), replay.clone());
            } else {
                run.rep.count(&format!("serde_json-typed-readers-reject:{reason}"));
            }
        }
        (Err(json::PErr::BadTopKey(_)), Err(_)) | (Err(json::PErr::Syntax(..)), Err(_)) => {}
        (Err(pe), Ok(_)) => run.rep.disagreement("text-layer.strict-reader-rejects", format!("serde_json accepts a document the strict reader rejects ({pe:?}): {}", brief_bytes(text)), replay.clone()),
    }
    // model vs implementation
    let mut tb = Tables::default();
    let mut kernel: Option<(String, String)> = None;
    match &hand {
        Err(pe) => {
            run.rep.count(match pe { json::PErr::BadTopKey(_) => "text:non-unicode-top-level-name", _ => "text:not-json" });
            if let Ok(f) = &ires {
                run.rep.disagreement("text-layer.impl-accepts-rejected-text", format!("decode succeeds ({}) on text the strict reader rejects ({pe:?}): {}", f.brief(), brief_bytes(text)), replay.clone());
                run.rep.violation("decode.accepts-malformed-json", format!("decode succeeds ({}) on text that is not JSON ({pe:?}): {}", f.brief(), brief_bytes(text)), replay.clone());
            }
        }
        Ok(p) => {
            if text.len() <= MODEL_CAP {
                let vs = json::jv_sexp(&p.root);
                let mr = model_eval(&mut run.model, &sexp::op("claims_decode_value", vec![vs.clone()]), &mut tb);
                run.rep.model_evaluations += 1;
                let mres = model_result(&mr);
                if !same_outcome(&ires, &mres) {
                    run.rep.disagreement("decode.model-vs-impl", format!("{}: impl {:?} model {:?}", brief_bytes(text), ires.as_ref().map(|f| f.brief()), mres.as_ref().map(|f| f.brief())), replay.clone());
                }
                // the model's own generic reader must agree with the model's visit (theorem (e), re-run on data)
                if let (Ok(f), JV::Obj(ms)) = (&mres, &p.root) {
                    let gr = model_eval(&mut run.model, &sexp::op("claims_generic_read", vec![json::members_sexp(ms)]), &mut tb);
                    run.rep.model_evaluations += 1;
                    if Fields::from_sexp(&gr) != *f {
                        run.rep.disagreement("model.generic-read", format!("model visit and model last_value reading differ on {}", brief_bytes(text)), replay.clone());
                    }
                }
                if vs.to_text().len() < 1200 {
                    let rhs = match &mres {
                        Ok(f) => format!("Ok {}", f.gallina()),
                        Err(k) if k == "PayloadError" => "Err PayloadError".to_string(),
                        Err(_) => String::new(),
                    };
                    if !rhs.is_empty() {
                        kernel = Some((format!("decode_value (tbl_parse {}) {}", tb.gallina_parse(), json::jv_gallina(&p.root)), rhs));
                    }
                }
            } else {
                run.rep.count("model-skipped:text>64KiB");
            }
        }
    }
    if let Some(k) = kernel {
        // at most two per shape class, so that every scenario (errors included) reaches the kernel
        let seen = run.kc_by_class.entry(doc.class.clone()).or_insert(0);
        if *seen < 2 && run.n % 7 == 0 && run.rep.kernel_cases.len() < 220 {
            *seen += 1;
            run.rep.kernel_cases.push(k);
        }
    }
    // P(I): whenever decode succeeds, each claim is what a generic reader reads for that member
    if let Ok(f) = &ires {
        let generic = match (&val, &hand) {
            (Ok(v), _) => {
                run.rep.count("generic-reader:serde_json::Value");
                Some(generic_read_value(v))
            }
            (Err(_), Ok(p)) => {
                run.rep.count("generic-reader:strict-reader-tree(serde_json::Value refuses)");
                Some(generic_read_tree(&p.root))
            }
            _ => None,
        };
        match generic {
            Some(Ok(gf)) => {
                if gf != *f {
                    run.rep.violation("decode.differs-from-generic-reader", format!("decode gives {} but a generic last-wins reader gives {} for {}", f.brief(), gf.brief(), brief_bytes(text)), replay.clone());
                }
            }
            Some(Err(why)) => run.rep.violation("decode.succeeds-on-ill-typed-member", format!("decode succeeds ({}) although for a generic reader {why}: {}", f.brief(), brief_bytes(text)), replay.clone()),
            None => {}
        }
    }
    // P(I): unknown members and member order do not matter (on the implementation alone)
    if let Some(G::Obj(ms)) = &doc.g {
        // (1) insert an unknown member at a random position
        let mut v = ms.clone();
        let p = g.below(v.len() as u64 + 1) as usize;
        v.insert(p, (GK::S(gens::unknown_key(g)), gens::rand_unknown_value(g, 2)));
        let vt = json::render_doc(&G::Obj(v), &json::Style::random(g), g);
        let r2 = impl_decode(&vt);
        run.rep.evaluations += 1;
        run.rep.count("variant:unknown-member-inserted");
        if ires.as_ref().ok() != r2.as_ref().ok() || ires.is_ok() != r2.is_ok() {
            run.rep.violation("decode.unknown-member-changes-result", format!("inserting an unknown member changes the result: {} -> {:?}; {} -> {:?}", brief_bytes(text), ires.as_ref().map(|f| f.brief()), brief_bytes(&vt), r2.as_ref().map(|f| f.brief())),
                json!({"op":"variant","text_hex":hex::encode(text),"variant_hex":hex::encode(&vt),"class":doc.class}));
        }
        // (2) permute the members, when no registered name is repeated (names compared after unescaping)
        let names: Vec<Option<String>> = ms.iter().map(|(k, _)| match k {
            GK::S(s) => Some(s.clone()),
            GK::Raw(b) => {
                let mut lit = vec![b'"'];
                lit.extend_from_slice(b);
                lit.push(b'"');
                match json::parse(&lit) { Ok(json::Parsed { root: JV::Str(s), .. }) => String::from_utf8(s).ok(), _ => None }
            }
        }).collect();
        let all_known = names.iter().all(|n| n.is_some());
        let mut reg: Vec<&str> = names.iter().flatten().map(|s| s.as_str()).filter(|s| gens::KEYS.contains(s)).collect();
        reg.sort();
        let dupfree = reg.windows(2).all(|w| w[0] != w[1]);
        if all_known && dupfree && ms.len() > 1 {
            let mut v = ms.clone();
            for i in (1..v.len()).rev() {
                let j = g.below(i as u64 + 1) as usize;
                v.swap(i, j);
            }
            let vt = json::render_doc(&G::Obj(v), &json::Style::random(g), g);
            let r3 = impl_decode(&vt);
            run.rep.evaluations += 1;
            run.rep.count("variant:members-permuted");
            if ires.as_ref().ok() != r3.as_ref().ok() || ires.is_ok() != r3.is_ok() {
                run.rep.violation("decode.order-changes-result", format!("reordering members changes the result: {} -> {:?}; {} -> {:?}", brief_bytes(text), ires.as_ref().map(|f| f.brief()), brief_bytes(&vt), r3.as_ref().map(|f| f.brief())),
                    json!({"op":"variant","text_hex":hex::encode(text),"variant_hex":hex::encode(&vt),"class":doc.class}));
            }
        }
    }
    if run.n % 1201 == 0 {
        run.rep.sample(json!({"flow":"decode","class":doc.class,"text":brief_bytes(text),"impl":format!("{:?}", ires.as_ref().map(|f| f.brief()))}));
    }
    // Json<T> is serde_json: same verdict and value on every document
    check_json_on_text(run, text, &replay);
}

// ---------------------------------------------------------------- flow C: Json<T> payload / footer

#[derive(serde::Serialize, serde::Deserialize, PartialEq, Debug, Clone)]
struct Demo {
    name: String,
    n: i64,
    tags: Vec<String>,
    opt: Option<bool>,
    #[serde(default)]
    nested: Option<Box<Demo>>,
}

/// numeric member types a generic JSON value cannot hold exactly (f32 is widened, 128-bit integers overflow), fields not
/// in alphabetical order, a map with insertion order: Json<T> must write exactly what serde_json::to_vec writes
#[derive(serde::Serialize, serde::Deserialize, PartialEq, Debug, Clone)]
struct Numeric {
    zeta: f32,
    alpha: u128,
    mid: i128,
    ratio: f64,
    small: u8,
    #[serde(rename = "Beta")]
    beta: Vec<(String, i16)>,
}

fn rand_numeric(g: &mut SplitMix64) -> Numeric {
    Numeric {
        zeta: [21.1f32, 0.1, 1.0e-7, 3.4028235e38, -0.0, 16777217.0][g.below(6) as usize],
        alpha: [0u128, u64::MAX as u128, u64::MAX as u128 + 1, u128::MAX][g.below(4) as usize],
        mid: [0i128, i64::MIN as i128, i64::MIN as i128 - 1, i128::MIN, i128::MAX][g.below(5) as usize],
        ratio: [0.1f64, 1.0e300, 5e-324, 123456789.125][g.below(4) as usize],
        small: g.next() as u8,
        beta: (0..g.below(3)).map(|_| (gens::rand_string(g, 4), g.next() as i16)).collect(),
    }
}

fn enc_payload<T: serde::Serialize + serde::de::DeserializeOwned>(v: T) -> Result<Vec<u8>, String> {
    let mut out: Vec<u8> = vec![];
    <Json<T> as Payload>::encode(Json(v), &mut out).map(|_| out).map_err(|e| e.to_string())
}
fn enc_footer<T: serde::Serialize + serde::de::DeserializeOwned>(v: &Json<T>) -> Result<Vec<u8>, String> {
    let mut out: Vec<u8> = vec![];
    <Json<T> as Footer>::encode(v, &mut out).map(|_| out).map_err(|e| e.to_string())
}

fn check_json_value<T: serde::Serialize + serde::de::DeserializeOwned + PartialEq + std::fmt::Debug + Clone>(run: &mut Run, v: &T, what: &str) {
    run.rep.evaluations += 1;
    run.rep.count(&format!("json-wrapper:{what}"));
    let reference = serde_json::to_vec(v).expect("to_vec");
    let replay = json!({"op":"json","type":what,"reference_hex":hex::encode(&reference)});
    let p = enc_payload(v.clone());
    let f = enc_footer(&Json(v.clone()));
    if p.as_ref().ok() != Some(&reference) || f.as_ref().ok() != Some(&reference) {
        run.rep.violation("json.encode-not-serde_json", format!("Json<{what}> encodes {:?} / {:?}, serde_json::to_vec gives {}", p.map(|b| brief_bytes(&b)), f.map(|b| brief_bytes(&b)), brief_bytes(&reference)), replay.clone());
    }
    let want: Option<T> = serde_json::from_slice(&reference).ok();
    let dp = <Json<T> as Payload>::decode(&reference).ok().map(|j| j.0);
    let df = <Json<T> as Footer>::decode(&reference).ok().map(|j| j.0);
    if dp != want || df != want || want.as_ref() != Some(v) {
        run.rep.violation("json.roundtrip", format!("Json<{what}> does not round-trip {}: payload {:?}, footer {:?}, serde_json {:?}", brief_bytes(&reference), dp, df, want), replay);
    }
}

fn check_json_on_text(run: &mut Run, text: &[u8], replay: &serde_json::Value) {
    let want = serde_json::from_slice::<serde_json::Value>(text).ok();
    let dp = <Json<serde_json::Value> as Payload>::decode(text).ok().map(|j| j.0);
    let df = <Json<serde_json::Value> as Footer>::decode(text).ok().map(|j| j.0);
    run.rep.count("json-wrapper:decode-any-text");
    if dp != want {
        run.rep.violation("json.payload-decode-not-serde_json", format!("Json<Value> payload decode and serde_json::from_slice differ on {}", brief_bytes(text)), replay.clone());
    }
    let want_footer = if text.is_empty() { None } else { want.clone() };
    if df != want_footer {
        run.rep.violation("json.footer-decode-not-serde_json", format!("Json<Value> footer decode and serde_json::from_slice differ on {}", brief_bytes(text)), replay.clone());
    }
    let wd = serde_json::from_slice::<Demo>(text).ok();
    let dd = <Json<Demo> as Payload>::decode(text).ok().map(|j| j.0);
    if wd != dd {
        run.rep.violation("json.payload-decode-not-serde_json", format!("Json<Demo> payload decode and serde_json::from_slice differ on {}", brief_bytes(text)), replay.clone());
    }
}

fn rand_demo(g: &mut SplitMix64, depth: usize) -> Demo {
    Demo {
        name: gens::rand_string(g, 12),
        n: g.next() as i64,
        tags: (0..g.below(4)).map(|_| gens::rand_string(g, 6)).collect(),
        opt: match g.below(3) { 0 => None, 1 => Some(true), _ => Some(false) },
        nested: if depth > 0 && g.chance(1, 2) { Some(Box::new(rand_demo(g, depth - 1))) } else { None },
    }
}

/// values whose serialisation FAILS partway (serde_json: map keys must be strings; a Serialize impl that errors after
/// it has written something)
#[derive(Clone)]
struct FailsMidway;
impl serde::Serialize for FailsMidway {
    fn serialize<S: serde::Serializer>(&self, s: S) -> Result<S::Ok, S::Error> {
        use serde::ser::SerializeMap;
        let mut m = s.serialize_map(None)?;
        m.serialize_entry("user", "alice")?;
        m.serialize_entry("started", &true)?;
        Err(serde::ser::Error::custom("midway"))
    }
}
impl<'de> serde::Deserialize<'de> for FailsMidway {
    fn deserialize<D: serde::Deserializer<'de>>(_: D) -> Result<Self, D::Error> {
        Err(serde::de::Error::custom("never"))
    }
}

/// an encode that fails must leave nothing behind: the next encodes on the same thread (claims payload, Json payload,
/// Json footer) give exactly what they give on a fresh thread
fn encode_after_failure(run: &mut Run, g: &mut SplitMix64) {
    let spool = gens::string_pool();
    let tpool = gens::ts_pool();
    for round in 0..40 {
        run.rep.evaluations += 1;
        run.rep.count("encode-after-failure");
        // 1. failing encodes through each of the three encoders
        let mut bad_map = std::collections::BTreeMap::new();
        bad_map.insert((1i32, 2i32), 3i32);
        let fails = [
            enc_payload(FailsMidway).is_err(),
            enc_footer(&Json(FailsMidway)).is_err(),
            { let mut out: Vec<u8> = vec![]; <Json<std::collections::BTreeMap<(i32, i32), i32>> as Payload>::encode(Json(bad_map.clone()), &mut out).is_err() },
        ];
        if !fails.iter().all(|x| *x) {
            run.rep.violation("json.failing-encode-succeeded", format!("an encode that must fail succeeded: {:?}", fails), json!({"op":"json","type":"encode-after-failure"}));
        }
        // 2. valid encodes afterwards, compared with the reference
        let c = rand_fields(g, (round as u32 * 37 + 5) % 128, &spool, &tpool, false);
        let rc = c.to_rc();
        if let (Ok(after), Some(reference)) = (impl_encode(&rc), std::thread::spawn({ let rc = rc.clone(); move || impl_encode(&rc).ok() }).join().ok().flatten()) {
            if after != reference {
                run.rep.violation("roundtrip.encode-after-failure", format!("after a failed encode on the same thread the claims encode to {} instead of {}", brief_bytes(&after), brief_bytes(&reference)), json!({"op":"json","type":"encode-after-failure"}));
            }
        }
        let d = rand_demo(g, 2);
        let reference = serde_json::to_vec(&d).expect("to_vec");
        let p = enc_payload(d.clone());
        let f = enc_footer(&Json(d.clone()));
        if p.as_ref().ok() != Some(&reference) || f.as_ref().ok() != Some(&reference) {
            run.rep.violation("json.encode-after-failure", format!("after a failed encode on the same thread Json<Demo> encodes {:?} / {:?}, serde_json::to_vec gives {}", p.map(|b| brief_bytes(&b)), f.map(|b| brief_bytes(&b)), brief_bytes(&reference)), json!({"op":"json","type":"encode-after-failure"}));
        }
    }
}

fn json_wrappers(run: &mut Run, g: &mut SplitMix64, n: usize) {
    encode_after_failure(run, g);
    // empty footer is an error ("missing footer"); an empty payload is whatever serde_json says (an error)
    run.rep.evaluations += 1;
    if <Json<serde_json::Value> as Footer>::decode(b"").is_ok() || <Json<Demo> as Footer>::decode(b"").is_ok() || <Json<()> as Footer>::decode(b"").is_ok() {
        run.rep.violation("json.empty-footer-accepted", "Json<T>::decode(b\"\") as a footer succeeds".into(), json!({"op":"json","type":"empty-footer"}));
    }
    if <Json<serde_json::Value> as Payload>::decode(b"").is_ok() != serde_json::from_slice::<serde_json::Value>(b"").is_ok() {
        run.rep.violation("json.payload-decode-not-serde_json", "Json<Value> payload decode of the empty text differs from serde_json".into(), json!({"op":"json","type":"empty-payload"}));
    }
    for i in 0..n {
        let gv = gens::rand_unknown_value(g, 4);
        let text = json::render_doc(&gv, &json::Style::random(g), g);
        if let Ok(v) = serde_json::from_slice::<serde_json::Value>(&text) {
            check_json_value(run, &v, "serde_json::Value");
        }
        check_json_value(run, &rand_demo(g, 3), "Demo");
        check_json_value(run, &rand_numeric(g), "Numeric");
        if i % 5 == 0 {
            // documents for Demo with unknown / missing / duplicated / reordered fields: verdicts must equal serde_json's
            let d = rand_demo(g, 1);
            let mut ms = vec![
                (GK::S("name".into()), G::Str(d.name.clone())),
                (GK::S("n".into()), G::Num(d.n.to_string())),
                (GK::S("tags".into()), G::Arr(d.tags.iter().map(|t| G::Str(t.clone())).collect())),
                (GK::S("opt".into()), match d.opt { None => G::Null, Some(b) => G::Bool(b) }),
            ];
            match g.below(5) {
                0 => { ms.remove(g.below(4) as usize); }
                1 => { let kv = ms[g.below(4) as usize].clone(); ms.push(kv); }
                2 => { ms.push((GK::S(gens::unknown_key(g)), gens::rand_unknown_value(g, 2))); }
                3 => { ms.reverse(); }
                _ => {}
            }
            let text = json::render_doc(&G::Obj(ms), &json::Style::random(g), g);
            run.rep.evaluations += 1;
            check_json_on_text(run, &text, &json!({"op":"decode","text_hex":hex::encode(&text),"class":"json-demo-doc"}));
        }
    }
}

// ---------------------------------------------------------------- driver

fn rand_fields(g: &mut SplitMix64, mask: u32, spool: &[String], tpool: &[i128], long_ok: bool) -> Fields {
    let s = |g: &mut SplitMix64, i: u32| if mask >> i & 1 == 1 { Some(gens::rand_claim_string(g, spool, long_ok).into_bytes()) } else { None };
    let t = |g: &mut SplitMix64, i: u32| if mask >> i & 1 == 1 { Some(gens::rand_ts(g, tpool)) } else { None };
    Fields { iss: s(g, 0), sub: s(g, 1), aud: s(g, 2), exp: t(g, 3), nbf: t(g, 4), iat: t(g, 5), jti: s(g, 6) }
}

fn run_all(tier: String, seed: u64, model_path: String, out: Option<String>, replay: Option<String>) {
    let thorough = tier == "thorough";
    let mut run = Run { rep: Report::new("C14", &tier, seed), model: Model::spawn(&model_path), thorough, n: 0, kc_by_class: Default::default() };
    run.rep.rule = "flow A (encode then decode): every presence mask of the 7 claims (128) x value draws — strings from a pool (empty, quotes, backslashes, NUL, C0 controls, DEL, U+2028/9, BOM, U+D7FF/E000/FFFF/10FFFF, astral, 10 kB and 18 kB strings) and random Unicode scalars; instants from Timestamp::MIN/MAX, +-1 ns, whole seconds, 1 ns and 999999999 ns fractions, every trailing-zero class, i32 second boundaries, first/last ns of years -9999..9999 incl. 0 and negative years, and uniform over the full range. flow B (decode): 19 scenarios — canonical, reordered, unknown members (nested, registered names inside, non-Unicode strings, numbers beyond f64), explicit nulls, duplicates (null-then-value, value-then-null, same value, different values, null-null, a third occurrence), wrong JSON types, time texts jiff accepts or rejects, escaped and near-miss names, non-object roots, trailing garbage / truncation / a syntax-error corpus / random byte flips, lone surrogates and raw non-UTF-8 in names and values, nesting to depth 450 (thorough 3150), whitespace and escape styles, free mixes; each structured document also with an unknown member inserted and (no repeated registered name) its members permuted. flow C: Json<serde_json::Value> and Json<derived struct> payload/footer vs serde_json on random values and on every flow-B text. non-trivial: all; distinct = distinct (presence mask or error kind, shape class)".into();
    let mut g = SplitMix64(seed ^ 0xC14C_14C1_4C14);
    let spool = gens::string_pool();
    let tpool = gens::ts_pool();

    // pinned constants: the model's ts range (Validation.v) is jiff's
    let tr = run.model.eval_pure(&sexp::op("ts_range", vec![]));
    if tr.list()[0].num() != gens::ts_min().to_string() || tr.list()[1].num() != gens::ts_max().to_string() {
        run.rep.disagreement("ts-range", format!("model ts range {} differs from jiff's [{}, {}]", tr.to_text(), gens::ts_min(), gens::ts_max()), json!({"op":"ts_range"}));
    }
    // the model's name table is the one the harness uses
    for k in gens::KEYS {
        let r = run.model.eval_pure(&sexp::op("claims_field_of_key", vec![sexp::x(k.as_bytes())]));
        if !r.is_sym(k) {
            run.rep.disagreement("field-names", format!("model maps name {k} to {}", r.to_text()), json!({"op":"field_of_key"}));
        }
    }

    if let Some(path) = replay {
        let v: serde_json::Value = serde_json::from_str(&std::fs::read_to_string(path).unwrap()).unwrap();
        let rp = &v["replay"];
        match rp["op"].as_str().unwrap_or("") {
            "roundtrip" => {
                let c = Fields::from_sexp(&Sexp::parse(rp["claims"].as_str().unwrap()).unwrap());
                check_roundtrip(&mut run, &c, "replay");
            }
            "decode" | "variant" => {
                let text = hex::decode(rp["text_hex"].as_str().unwrap()).unwrap();
                check_decode(&mut run, &docs::Doc { g: None, text: text.clone(), class: "replay".into() }, &mut g);
                if let Some(vh) = rp["variant_hex"].as_str() {
                    let vt = hex::decode(vh).unwrap();
                    let (a, b) = (impl_decode(&text), impl_decode(&vt));
                    if a.as_ref().ok() != b.as_ref().ok() || a.is_ok() != b.is_ok() {
                        run.rep.violation("decode.variant-changes-result", format!("{} -> {:?}; {} -> {:?}", brief_bytes(&text), a.map(|f| f.brief()), brief_bytes(&vt), b.map(|f| f.brief())), rp.clone());
                    }
                }
            }
            _ => json_wrappers(&mut run, &mut g, 50),
        }
        run.rep.model_prim_calls = run.model.calls;
        run.rep.finish(out.as_deref());
        return;
    }

    // flow A
    let per_mask = if thorough { 60 } else { 12 };
    for mask in 0..128u32 {
        for j in 0..per_mask {
            let c = rand_fields(&mut g, mask, &spool, &tpool, j == 0 || thorough);
            check_roundtrip(&mut run, &c, "mask-sweep");
        }
    }
    // every pooled string in every string claim, every pooled instant in every time claim
    for s in &spool {
        for i in [0u32, 1, 2, 6] {
            let mut c = rand_fields(&mut g, 1 << i, &spool, &tpool, false);
            let b = Some(s.clone().into_bytes());
            match i { 0 => c.iss = b, 1 => c.sub = b, 2 => c.aud = b, _ => c.jti = b }
            check_roundtrip(&mut run, &c, "string-pool");
        }
    }
    for t in &tpool {
        for i in [3u32, 4, 5] {
            let mut c = Fields::default();
            match i { 3 => c.exp = Some(*t), 4 => c.nbf = Some(*t), _ => c.iat = Some(*t) }
            check_roundtrip(&mut run, &c, "instant-pool");
        }
    }
    let nrand = if thorough { 60_000 } else { 4_000 };
    for _ in 0..nrand {
        let mask = g.below(128) as u32;
        let c = rand_fields(&mut g, mask, &spool, &tpool, thorough);
        check_roundtrip(&mut run, &c, "random");
    }

    // flow B
    let per_scenario = if thorough { 12_000 } else { 1_200 };
    for sc in 0..docs::N_SCENARIOS {
        for _ in 0..per_scenario {
            let d = docs::scenario(&mut g, sc, &spool, &tpool, thorough);
            check_decode(&mut run, &d, &mut g);
        }
    }
    // the wire forms of flow A, damaged: the decoder's verdict on its own output after a byte edit
    for _ in 0..(if thorough { 20_000 } else { 1_500 }) {
        let mask = g.below(128) as u32;
        let c = rand_fields(&mut g, mask, &spool, &tpool, false);
        if let Ok(mut enc) = impl_encode(&c.to_rc()) {
            if !enc.is_empty() {
                let p = g.below(enc.len() as u64) as usize;
                match g.below(3) {
                    0 => enc[p] = g.next() as u8,
                    1 => { enc.remove(p); }
                    _ => enc.insert(p, *g.pick(&[b'"', b'\\', b',', b':', b'{', b'}', b'0', b' ', 0xff, 0])),
                }
            }
            check_decode(&mut run, &docs::Doc { g: None, text: enc, class: "own-wire-form-damaged".into() }, &mut g);
        }
    }

    // flow C
    json_wrappers(&mut run, &mut g, if thorough { 20_000 } else { 800 });

    run.rep.model_prim_calls = run.model.calls;
    run.rep.notes.push("serde_json's IgnoredAny skips unknown members by grammar only: inside unknown members it accepts string literals that are not Unicode (unpaired surrogate escapes, raw non-UTF-8), numbers beyond f64 and nesting deeper than 127, which serde_json's typed readers (Value included) refuse; the model has JBadStr / opaque JNum for exactly this, and on such documents the generic-reader comparison uses the strict reader's tree (counted in the distribution).".into());
    run.rep.notes.push(format!("jiff range pinned: [{}, {}] ns", gens::ts_min(), gens::ts_max()));
    run.rep.finish(out.as_deref());
}

fn main() {
    let args: Vec<String> = std::env::args().collect();
    let mut tier = std::env::var("VERIF_TIER").unwrap_or_else(|_| "quick".into());
    let mut seed: u64 = std::env::var("VERIF_SEED").ok().and_then(|s| s.parse().ok()).unwrap_or(1);
    let mut model = "/verif/ocaml/modelrun".to_string();
    let mut out = None;
    let mut replay = None;
    let mut i = 1;
    while i < args.len() {
        let v = args.get(i + 1).cloned();
        match args[i].as_str() {
            "--tier" => tier = v.expect("--tier"),
            "--seed" => seed = v.expect("--seed").parse().expect("seed"),
            "--model" => model = v.expect("--model"),
            "--out" => out = v,
            "--replay" => replay = v,
            other => panic!("unknown argument {other}"),
        }
        i += 2;
    }
    std::panic::set_hook(Box::new(|_| {}));
    // deep documents recurse in the strict reader and in Drop: give the worker a large stack
    let h = std::thread::Builder::new().stack_size(1 << 30).spawn(move || run_all(tier, seed, model, out, replay)).expect("spawn");
    if h.join().is_err() {
        eprintln!("harness-c14: internal panic");
        std::process::exit(3);
    }
}
