//! JSON documents offered to RegisteredClaims::decode, by scenario.
use crate::gens::*;
use crate::json::{render_doc, Style, G, GK};
use crate::SplitMix64;

pub struct Doc {
    /// the structured form (None once the text has been mangled at byte level)
    pub g: Option<G>,
    pub text: Vec<u8>,
    /// member-list shape class (second component of the distinct-shape key)
    pub class: String,
}

pub const N_SCENARIOS: u64 = 19;

fn shuffle<T>(g: &mut SplitMix64, v: &mut Vec<T>) {
    for i in (1..v.len()).rev() {
        let j = g.below(i as u64 + 1) as usize;
        v.swap(i, j);
    }
}

/// members for a presence mask, valid values, canonical order
fn base_members(g: &mut SplitMix64, mask: u32, spool: &[String], tpool: &[i128]) -> Vec<(GK, G)> {
    KEYS.iter().enumerate().filter(|(i, _)| mask >> i & 1 == 1).map(|(_, k)| (GK::S(k.to_string()), good_value(g, k, spool, tpool))).collect()
}

fn insert_at<T>(g: &mut SplitMix64, v: &mut Vec<T>, x: T) -> usize {
    let p = g.below(v.len() as u64 + 1) as usize;
    v.insert(p, x);
    p
}

fn finish(g: &mut SplitMix64, root: G, class: String) -> Doc {
    let st = Style::random(g);
    let text = render_doc(&root, &st, g);
    Doc { g: Some(root), text, class }
}

pub fn scenario(g: &mut SplitMix64, which: u64, spool: &[String], tpool: &[i128], thorough: bool) -> Doc {
    let mask = g.below(128) as u32;
    let mut ms = base_members(g, mask, spool, tpool);
    let pick_key = |g: &mut SplitMix64| KEYS[g.below(7) as usize];
    match which {
        0 => finish(g, G::Obj(ms), "canonical".into()),
        1 => {
            shuffle(g, &mut ms);
            finish(g, G::Obj(ms), "reordered".into())
        }
        2 => {
            let n = 1 + g.below(4);
            for _ in 0..n {
                let kv = (GK::S(unknown_key(g)), rand_unknown_value(g, 3));
                insert_at(g, &mut ms, kv);
            }
            if g.chance(1, 2) {
                shuffle(g, &mut ms);
            }
            finish(g, G::Obj(ms), "extra-unknown".into())
        }
        3 => {
            // explicit nulls for some absent fields
            for (i, k) in KEYS.iter().enumerate() {
                if mask >> i & 1 == 0 && g.chance(1, 2) {
                    insert_at(g, &mut ms, (GK::S(k.to_string()), G::Null));
                }
            }
            finish(g, G::Obj(ms), "null-members".into())
        }
        4..=8 => {
            // duplicates of one registered name
            let k = pick_key(g);
            ms.retain(|(kk, _)| !matches!(kk, GK::S(s) if s == k));
            let v1 = good_value(g, k, spool, tpool);
            let v2 = good_value(g, k, spool, tpool);
            let (a, b, class) = match which {
                4 => (G::Null, v1, "dup:null-then-value"),
                5 => (v1, G::Null, "dup:value-then-null"),
                6 => (v1.clone(), v1, "dup:same-value"),
                7 => (v1, v2, "dup:different-values"),
                _ => (G::Null, G::Null, "dup:null-null"),
            };
            let p = insert_at(g, &mut ms, (GK::S(k.to_string()), a));
            let q = p + 1 + g.below((ms.len() - p) as u64) as usize;
            ms.insert(q, (GK::S(k.to_string()), b));
            if g.chance(1, 3) {
                // a third one
                let kv = (GK::S(k.to_string()), if g.chance(1, 2) { G::Null } else { good_value(g, k, spool, tpool) });
                insert_at(g, &mut ms, kv);
                return finish(g, G::Obj(ms), format!("{class}+third"));
            }
            if g.chance(1, 3) {
                let kv = (GK::S(unknown_key(g)), rand_unknown_value(g, 2));
                insert_at(g, &mut ms, kv);
            }
            finish(g, G::Obj(ms), class.into())
        }
        9 => {
            let k = pick_key(g);
            ms.retain(|(kk, _)| !matches!(kk, GK::S(s) if s == k));
            let (v, kind) = wrong_typed(g);
            insert_at(g, &mut ms, (GK::S(k.to_string()), v));
            finish(g, G::Obj(ms), format!("wrong-type:{kind}:{}", if is_time_key(k) { "time" } else { "string" }))
        }
        10 => {
            let k = ["exp", "nbf", "iat"][g.below(3) as usize];
            ms.retain(|(kk, _)| !matches!(kk, GK::S(s) if s == k));
            let t = time_text(g, tpool);
            insert_at(g, &mut ms, (GK::S(k.to_string()), G::Str(t)));
            finish(g, G::Obj(ms), "time-text-variant".into())
        }
        11 => {
            // names written with escapes (must still match), and near misses (must not)
            let mut out = vec![];
            for (k, v) in ms {
                if let GK::S(s) = &k {
                    if g.chance(1, 2) {
                        let lit: String = s.chars().map(|c| if g.chance(1, 2) { format!("\\u{:04x}", c as u32) } else { c.to_string() }).collect();
                        out.push((GK::Raw(lit.into_bytes()), v));
                        continue;
                    }
                }
                out.push((k, v));
            }
            for _ in 0..g.below(3) {
                let kv = (GK::S(unknown_key(g)), good_value(g, "iss", spool, tpool));
                insert_at(g, &mut out, kv);
            }
            finish(g, G::Obj(out), "escaped-or-near-miss-names".into())
        }
        12 => {
            let root = match g.below(9) {
                0 => G::Arr(vec![]),
                1 => G::Arr(ms.into_iter().map(|(_, v)| v).collect()),
                2 => G::Str("iss".into()),
                3 => G::Num("1".into()),
                4 => G::Null,
                5 => G::Bool(true),
                6 => G::Arr(vec![G::Obj(ms)]),
                7 => G::Arr(ms.into_iter().map(|(k, v)| G::Arr(vec![G::Str(match k { GK::S(s) => s, _ => String::new() }), v])).collect()),
                _ => G::Str("{\"iss\":\"a\"}".into()),
            };
            finish(g, root, "non-object-root".into())
        }
        13 => {
            // byte-level damage: trailing garbage, truncation, classic syntax errors
            let st = Style::random(g);
            let mut text = render_doc(&G::Obj(ms), &st, g);
            let class = match g.below(14) {
                0 => { text.extend_from_slice(b"x"); "trailing:garbage" }
                1 => { text.extend_from_slice(b"{}"); "trailing:second-document" }
                2 => { text.extend_from_slice(b" \n\t\r "); "trailing:whitespace-only" }
                3 => { text.push(0); "trailing:nul" }
                4 => { let n = g.below(text.len() as u64 + 1) as usize; text.truncate(n); "truncated" }
                5 => { if let Some(p) = text.iter().rposition(|c| *c == b'}') { text.insert(p, b','); } "trailing-comma" }
                6 => { for c in text.iter_mut() { if *c == b'"' { *c = b'\''; } } "single-quotes" }
                7 => { let mut t = b"\xef\xbb\xbf".to_vec(); t.extend_from_slice(&text); text = t; "leading-bom" }
                8 => { if let Some(p) = text.iter().position(|c| *c == b':') { text[p] = b'='; } "colon-replaced" }
                9 => { text.extend_from_slice(b"//c"); "trailing:comment" }
                10 => { if let Some(p) = text.iter().position(|c| *c == b',') { text.remove(p); } "comma-removed" }
                11 => { text = b"{iss:\"a\"}".to_vec(); "unquoted-name" }
                12 => { text = g.pick(&[&b""[..], b" ", b"{", b"}", b"{\"iss\"", b"{\"iss\":", b"{\"iss\":\"a\"", b"{\"iss\":\"a\",}", b"{,}", b"{\"x\":NaN}", b"{\"x\":Infinity}", b"{\"x\":01}", b"{\"x\":1.}", b"{\"x\":.5}",
                    b"{\"x\":+1}", b"{\"x\":1e}", b"{\"x\":-}", b"{\"x\":0x10}", b"{\"x\":nul}", b"{\"x\":True}", b"{\"x\":\"\\x\"}", b"{\"x\":\"\\u12\"}", b"{\"x\":\"\\u12g4\"}", b"{\"x\":\"a\nb\"}", b"{\"x\":\"\t\"}",
                    b"{\"x\":[1,]}", b"{\"x\":[1 2]}", b"{\"x\":{\"a\"}}", b"{\"x\":{1:2}}", b"{\"x\":[}", b"{\"x\":1}}", b"{\"x\" \"y\"}", b"{\"x\":\"\\ud800\\u12\"}", b"{\"a\":1,\x0c\"b\":2}", b"{\"a\":1,\xc2\xa0\"b\":2}", b"{\"x\":\"abc}",
                    b"{\"x\":1,\"iss\":\"a\"", b"[{\"iss\":\"a\"}", b"nul", b"\"iss", b"{\"x\":\"\\\"}", b"{\"x\":-01}", b"{\"x\":1.0e+}", b"{\"x\":00}", b"{\"x\":1_000}"]).to_vec(); "syntax-error-corpus" }
                _ => { let p = g.below(text.len().max(1) as u64) as usize; if p < text.len() { text[p] = g.next() as u8; } "random-byte-flip" }
            };
            Doc { g: None, text, class: class.into() }
        }
        14 | 15 => {
            // strings that are not Unicode: lone surrogate escapes (14), raw non-UTF-8 bytes (15)
            let lone: &[&[u8]] = if which == 14 { &[b"\\ud800", b"\\udc00", b"a\\ud800b", b"\\udfff\\ud800", b"\\ud83d\\u0041", b"\\uD800\\uD800"] } else { &[b"\xff", b"a\x80", b"\xc0\x80", b"\xed\xa0\x80", b"\xf4\x90\x80\x80", b"\xe2\x82"] };
            let body = g.pick(lone).to_vec();
            let tag = if which == 14 { "lone-surrogate" } else { "non-utf8" };
            let class = match g.below(5) {
                0 => { insert_at(g, &mut ms, (GK::Raw(body), G::Num("1".into()))); format!("{tag}:top-level-name") }
                1 => { let k = pick_key(g); ms.retain(|(kk, _)| !matches!(kk, GK::S(s) if s == k)); insert_at(g, &mut ms, (GK::S(k.to_string()), G::Raw(body))); format!("{tag}:registered-value") }
                2 => { let uk = unknown_key(g); insert_at(g, &mut ms, (GK::S(uk), G::Raw(body))); format!("{tag}:unknown-value") }
                3 => { let uk = unknown_key(g); insert_at(g, &mut ms, (GK::S(uk), G::Obj(vec![(GK::Raw(body), G::Arr(vec![G::Null]))]))); format!("{tag}:nested-name") }
                _ => { let uk = unknown_key(g); insert_at(g, &mut ms, (GK::S(uk), G::Arr(vec![G::Str("ok".into()), G::Raw(body)]))); format!("{tag}:nested-value") }
            };
            finish(g, G::Obj(ms), class)
        }
        16 => {
            let depth = if g.chance(1, 2) { 2 + g.below(99) as usize } else if thorough { 150 + g.below(3000) as usize } else { 150 + g.below(300) as usize };
            let arrays = g.chance(1, 2);
            let at_registered = g.chance(1, 6);
            let k = if at_registered { pick_key(g).to_string() } else { unknown_key(g) };
            if at_registered {
                ms.retain(|(kk, _)| !matches!(kk, GK::S(s) if *s == k));
            }
            insert_at(g, &mut ms, (GK::S(k), deep_value(depth, arrays)));
            finish(g, G::Obj(ms), format!("deep-nesting:{}:{}", if depth < 120 { "<120" } else { ">=150" }, if at_registered { "registered" } else { "unknown" }))
        }
        17 => {
            let st = Style { ws: 2, esc: g.below(3) as u8, upper_hex: g.chance(1, 2) };
            for _ in 0..g.below(3) {
                let kv = (GK::S(unknown_key(g)), rand_unknown_value(g, 2));
                insert_at(g, &mut ms, kv);
            }
            let root = G::Obj(ms);
            let text = render_doc(&root, &st, g);
            Doc { g: Some(root), text, class: "whitespace-and-escapes".into() }
        }
        _ => {
            // free mix: every member drawn independently
            let n = g.below(10) as usize;
            let mut out = vec![];
            for _ in 0..n {
                let k = if g.chance(2, 3) { pick_key(g).to_string() } else { unknown_key(g) };
                let v = match g.below(10) {
                    0 | 1 => G::Null,
                    2 => wrong_typed(g).0,
                    3 => G::Str(time_text(g, tpool)),
                    4 => rand_unknown_value(g, 2),
                    _ => {
                        if KEYS.contains(&k.as_str()) { good_value(g, &k, spool, tpool) } else { G::Str(rand_string(g, 8)) }
                    }
                };
                out.push((GK::S(k), v));
            }
            finish(g, G::Obj(out), "free-mix".into())
        }
    }
}
