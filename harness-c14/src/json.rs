//! JSON trees for C14: the model's `jvalue`, a strict RFC 8259 reader that keeps member order and
//! duplicates (the "text <-> member list" premise of Claims.v, cross-checked against serde_json on
//! every input both accept), an order/duplicate-preserving serde `Deserialize`, and a renderer with
//! random whitespace / escaping styles for generated documents.
use crate::sexp::{self, Sexp};
use crate::SplitMix64;

/// mirror of Claims.v `jvalue`
#[derive(Clone, Debug, PartialEq)]
pub enum JV {
    Null,
    Bool(bool),
    /// number literal, verbatim text
    Num(Vec<u8>),
    /// string literal denoting a Unicode string (its UTF-8)
    Str(Vec<u8>),
    /// string literal that denotes no Unicode string (unpaired surrogate escape / non-UTF-8 bytes)
    BadStr,
    Arr(Vec<JV>),
    Obj(Vec<(Vec<u8>, JV)>),
}

pub fn jv_sexp(v: &JV) -> Sexp {
    match v {
        JV::Null => sexp::s("null"),
        JV::Bool(b) => sexp::l(vec![sexp::s("bool"), sexp::s(if *b { "true" } else { "false" })]),
        JV::Num(t) => sexp::l(vec![sexp::s("num"), sexp::x(t)]),
        JV::Str(t) => sexp::l(vec![sexp::s("str"), sexp::x(t)]),
        JV::BadStr => sexp::s("badstr"),
        JV::Arr(items) => {
            let mut v = vec![sexp::s("arr")];
            v.extend(items.iter().map(jv_sexp));
            sexp::l(v)
        }
        JV::Obj(ms) => {
            let mut v = vec![sexp::s("obj")];
            v.extend(ms.iter().map(|(k, x)| sexp::l(vec![sexp::x(k), jv_sexp(x)])));
            sexp::l(v)
        }
    }
}

pub fn members_sexp(ms: &[(Vec<u8>, JV)]) -> Sexp {
    sexp::l(ms.iter().map(|(k, x)| sexp::l(vec![sexp::x(k), jv_sexp(x)])).collect())
}

pub fn sexp_jv(s: &Sexp) -> JV {
    match s {
        Sexp::S(n) if n == "null" => JV::Null,
        Sexp::S(n) if n == "badstr" => JV::BadStr,
        Sexp::L(items) => match items[0].sym() {
            "bool" => JV::Bool(items[1].is_sym("true")),
            "num" => JV::Num(items[1].bytes().to_vec()),
            "str" => JV::Str(items[1].bytes().to_vec()),
            "arr" => JV::Arr(items[1..].iter().map(sexp_jv).collect()),
            "obj" => JV::Obj(items[1..].iter().map(|m| (m.list()[0].bytes().to_vec(), sexp_jv(&m.list()[1]))).collect()),
            o => panic!("bad jvalue {o}"),
        },
        o => panic!("bad jvalue {}", o.to_text()),
    }
}

fn ghex(b: &[u8]) -> String {
    format!("hex \"{}\"", hex::encode(b))
}

/// Gallina term for the in-kernel cross-check
pub fn jv_gallina(v: &JV) -> String {
    match v {
        JV::Null => "JNull".into(),
        JV::Bool(b) => format!("(JBool {b})"),
        JV::Num(t) => format!("(JNum ({}))", ghex(t)),
        JV::Str(t) => format!("(JStr ({}))", ghex(t)),
        JV::BadStr => "JBadStr".into(),
        JV::Arr(items) => format!("(JArr [{}])", items.iter().map(jv_gallina).collect::<Vec<_>>().join("; ")),
        JV::Obj(ms) => format!("(JObj {})", members_gallina(ms)),
    }
}

pub fn members_gallina(ms: &[(Vec<u8>, JV)]) -> String {
    format!("[{}]", ms.iter().map(|(k, v)| format!("({}, {})", ghex(k), jv_gallina(v))).collect::<Vec<_>>().join("; "))
}

// ---------------------------------------------------------------- strict reader

#[derive(Debug, Clone, PartialEq)]
pub enum PErr {
    Syntax(&'static str, usize),
    /// a member name of the ROOT object is not a Unicode string: serde_json parses names into &str
    /// before the visitor sees them, so this is a parse error for every typed reader
    BadTopKey(usize),
}

pub struct Parsed {
    pub root: JV,
    /// string literals (values or nested names) that are not Unicode strings
    pub bad_strings: usize,
    /// deepest nesting (root value = 0)
    pub max_depth: usize,
    /// number literals beyond f64 range (serde_json's typed readers reject them, IgnoredAny skips them)
    pub huge_numbers: usize,
}

struct P<'a> {
    b: &'a [u8],
    i: usize,
    bad: usize,
    maxd: usize,
    huge: usize,
}

pub fn parse(b: &[u8]) -> Result<Parsed, PErr> {
    let mut p = P { b, i: 0, bad: 0, maxd: 0, huge: 0 };
    let root = p.value(0)?;
    p.ws();
    if p.i != b.len() {
        return Err(PErr::Syntax("trailing characters", p.i));
    }
    Ok(Parsed { root, bad_strings: p.bad, max_depth: p.maxd, huge_numbers: p.huge })
}

impl<'a> P<'a> {
    fn ws(&mut self) {
        while self.i < self.b.len() && matches!(self.b[self.i], b' ' | b'\t' | b'\n' | b'\r') {
            self.i += 1;
        }
    }
    fn peek(&self) -> Option<u8> {
        self.b.get(self.i).copied()
    }
    fn lit(&mut self, word: &'static [u8], v: JV) -> Result<JV, PErr> {
        if self.b[self.i..].starts_with(word) {
            self.i += word.len();
            Ok(v)
        } else {
            Err(PErr::Syntax("bad literal", self.i))
        }
    }
    fn value(&mut self, depth: usize) -> Result<JV, PErr> {
        self.ws();
        if depth > self.maxd {
            self.maxd = depth;
        }
        match self.peek() {
            None => Err(PErr::Syntax("eof while parsing a value", self.i)),
            Some(b'n') => self.lit(b"null", JV::Null),
            Some(b't') => self.lit(b"true", JV::Bool(true)),
            Some(b'f') => self.lit(b"false", JV::Bool(false)),
            Some(b'"') => Ok(match self.string()? {
                Ok(s) => JV::Str(s),
                Err(()) => JV::BadStr,
            }),
            Some(b'[') => {
                self.i += 1;
                let mut items = vec![];
                self.ws();
                if self.peek() == Some(b']') {
                    self.i += 1;
                    return Ok(JV::Arr(items));
                }
                loop {
                    items.push(self.value(depth + 1)?);
                    self.ws();
                    match self.peek() {
                        Some(b',') => self.i += 1,
                        Some(b']') => {
                            self.i += 1;
                            return Ok(JV::Arr(items));
                        }
                        _ => return Err(PErr::Syntax("expected , or ]", self.i)),
                    }
                }
            }
            Some(b'{') => {
                self.i += 1;
                let mut ms = vec![];
                self.ws();
                if self.peek() == Some(b'}') {
                    self.i += 1;
                    return Ok(JV::Obj(ms));
                }
                loop {
                    self.ws();
                    if self.peek() != Some(b'"') {
                        return Err(PErr::Syntax("key must be a string", self.i));
                    }
                    let kstart = self.i;
                    let key = match self.string()? {
                        Ok(s) => s,
                        Err(()) => {
                            if depth == 0 {
                                return Err(PErr::BadTopKey(kstart));
                            }
                            // nested, hence inside a value the visitor never looks into: keep the literal
                            self.b[kstart..self.i].to_vec()
                        }
                    };
                    self.ws();
                    if self.peek() != Some(b':') {
                        return Err(PErr::Syntax("expected :", self.i));
                    }
                    self.i += 1;
                    let v = self.value(depth + 1)?;
                    ms.push((key, v));
                    self.ws();
                    match self.peek() {
                        Some(b',') => self.i += 1,
                        Some(b'}') => {
                            self.i += 1;
                            return Ok(JV::Obj(ms));
                        }
                        _ => return Err(PErr::Syntax("expected , or }", self.i)),
                    }
                }
            }
            Some(b'-') | Some(b'0'..=b'9') => self.number(),
            Some(_) => Err(PErr::Syntax("expected a value", self.i)),
        }
    }
    fn digits(&mut self) -> usize {
        let st = self.i;
        while matches!(self.peek(), Some(b'0'..=b'9')) {
            self.i += 1;
        }
        self.i - st
    }
    fn number(&mut self) -> Result<JV, PErr> {
        let st = self.i;
        if self.peek() == Some(b'-') {
            self.i += 1;
        }
        match self.peek() {
            Some(b'0') => {
                self.i += 1;
                if matches!(self.peek(), Some(b'0'..=b'9')) {
                    return Err(PErr::Syntax("leading zero", self.i));
                }
            }
            Some(b'1'..=b'9') => {
                self.digits();
            }
            _ => return Err(PErr::Syntax("invalid number", self.i)),
        }
        if self.peek() == Some(b'.') {
            self.i += 1;
            if self.digits() == 0 {
                return Err(PErr::Syntax("digit expected after .", self.i));
            }
        }
        if matches!(self.peek(), Some(b'e') | Some(b'E')) {
            self.i += 1;
            if matches!(self.peek(), Some(b'+') | Some(b'-')) {
                self.i += 1;
            }
            if self.digits() == 0 {
                return Err(PErr::Syntax("digit expected in exponent", self.i));
            }
        }
        let text = &self.b[st..self.i];
        if let Ok(f) = std::str::from_utf8(text).unwrap().parse::<f64>() {
            if f.is_infinite() {
                self.huge += 1;
            }
        }
        Ok(JV::Num(text.to_vec()))
    }
    fn hex4(&mut self) -> Result<u32, PErr> {
        if self.i + 4 > self.b.len() {
            return Err(PErr::Syntax("eof in \\u escape", self.i));
        }
        let mut v = 0u32;
        for k in 0..4 {
            let c = self.b[self.i + k];
            let d = match c {
                b'0'..=b'9' => c - b'0',
                b'a'..=b'f' => c - b'a' + 10,
                b'A'..=b'F' => c - b'A' + 10,
                _ => return Err(PErr::Syntax("invalid \\u escape", self.i + k)),
            };
            v = v * 16 + d as u32;
        }
        self.i += 4;
        Ok(v)
    }
    /// at an opening quote. Ok(Ok(utf8)) | Ok(Err(())) = well-formed literal that is no Unicode string
    fn string(&mut self) -> Result<Result<Vec<u8>, ()>, PErr> {
        self.i += 1;
        let mut out = vec![];
        let mut bad = false;
        loop {
            let Some(c) = self.peek() else { return Err(PErr::Syntax("eof while parsing a string", self.i)) };
            self.i += 1;
            match c {
                b'"' => break,
                b'\\' => {
                    let Some(e) = self.peek() else { return Err(PErr::Syntax("eof while parsing a string", self.i)) };
                    self.i += 1;
                    match e {
                        b'"' => out.push(b'"'),
                        b'\\' => out.push(b'\\'),
                        b'/' => out.push(b'/'),
                        b'b' => out.push(8),
                        b'f' => out.push(12),
                        b'n' => out.push(b'\n'),
                        b'r' => out.push(b'\r'),
                        b't' => out.push(b'\t'),
                        b'u' => {
                            let u = self.hex4()?;
                            let mut push = |cp: u32| {
                                let ch = char::from_u32(cp).unwrap();
                                let mut buf = [0u8; 4];
                                out.extend_from_slice(ch.encode_utf8(&mut buf).as_bytes());
                            };
                            if (0xD800..=0xDBFF).contains(&u) {
                                if self.b[self.i..].starts_with(b"\\u") {
                                    let save = self.i;
                                    self.i += 2;
                                    let u2 = self.hex4()?;
                                    if (0xDC00..=0xDFFF).contains(&u2) {
                                        push(0x10000 + ((u - 0xD800) << 10) + (u2 - 0xDC00));
                                    } else {
                                        bad = true;
                                        self.i = save; // the second escape stands on its own
                                    }
                                } else {
                                    bad = true;
                                }
                            } else if (0xDC00..=0xDFFF).contains(&u) {
                                bad = true;
                            } else {
                                push(u);
                            }
                        }
                        _ => return Err(PErr::Syntax("invalid escape", self.i - 1)),
                    }
                }
                0..=0x1f => return Err(PErr::Syntax("control character in string", self.i - 1)),
                _ => out.push(c),
            }
        }
        if !bad && std::str::from_utf8(&out).is_err() {
            bad = true;
        }
        if bad {
            self.bad += 1;
            Ok(Err(()))
        } else {
            Ok(Ok(out))
        }
    }
}

/// what a last-wins generic reader holds for a member
pub fn last_value<'a>(ms: &'a [(Vec<u8>, JV)], key: &[u8]) -> Option<&'a JV> {
    ms.iter().rev().find(|(k, _)| k == key).map(|(_, v)| v)
}

// ---------------------------------------------------------------- order / duplicate preserving serde reader

#[derive(Debug, Clone, PartialEq)]
pub enum OV {
    Null,
    Bool(bool),
    Num,
    Str(String),
    Arr(Vec<OV>),
    Obj(Vec<(String, OV)>),
}

impl<'de> serde::Deserialize<'de> for OV {
    fn deserialize<D: serde::Deserializer<'de>>(d: D) -> Result<OV, D::Error> {
        struct V;
        impl<'de> serde::de::Visitor<'de> for V {
            type Value = OV;
            fn expecting(&self, f: &mut std::fmt::Formatter) -> std::fmt::Result {
                f.write_str("any JSON value")
            }
            fn visit_unit<E>(self) -> Result<OV, E> {
                Ok(OV::Null)
            }
            fn visit_bool<E>(self, b: bool) -> Result<OV, E> {
                Ok(OV::Bool(b))
            }
            fn visit_u64<E>(self, _: u64) -> Result<OV, E> {
                Ok(OV::Num)
            }
            fn visit_i64<E>(self, _: i64) -> Result<OV, E> {
                Ok(OV::Num)
            }
            fn visit_f64<E>(self, _: f64) -> Result<OV, E> {
                Ok(OV::Num)
            }
            fn visit_str<E>(self, s: &str) -> Result<OV, E> {
                Ok(OV::Str(s.to_string()))
            }
            fn visit_seq<A: serde::de::SeqAccess<'de>>(self, mut a: A) -> Result<OV, A::Error> {
                let mut v = vec![];
                while let Some(x) = a.next_element::<OV>()? {
                    v.push(x);
                }
                Ok(OV::Arr(v))
            }
            fn visit_map<A: serde::de::MapAccess<'de>>(self, mut a: A) -> Result<OV, A::Error> {
                let mut v = vec![];
                while let Some(k) = a.next_key::<String>()? {
                    let x = a.next_value::<OV>()?;
                    v.push((k, x));
                }
                Ok(OV::Obj(v))
            }
        }
        d.deserialize_any(V)
    }
}

/// do the two readers agree on a document both accept?
pub fn ov_matches(o: &OV, j: &JV) -> bool {
    match (o, j) {
        (OV::Null, JV::Null) => true,
        (OV::Bool(a), JV::Bool(b)) => a == b,
        (OV::Num, JV::Num(_)) => true,
        (OV::Str(s), JV::Str(b)) => s.as_bytes() == &b[..],
        (OV::Arr(a), JV::Arr(b)) => a.len() == b.len() && a.iter().zip(b).all(|(x, y)| ov_matches(x, y)),
        (OV::Obj(a), JV::Obj(b)) => a.len() == b.len() && a.iter().zip(b).all(|((k1, x), (k2, y))| k1.as_bytes() == &k2[..] && ov_matches(x, y)),
        _ => false,
    }
}

// ---------------------------------------------------------------- generator-side trees and rendering

#[derive(Clone, Debug)]
pub enum G {
    Null,
    Bool(bool),
    /// verbatim number text (may be deliberately malformed)
    Num(String),
    Str(String),
    /// verbatim literal body between the quotes (lone surrogate escapes, raw bytes, bad escapes ...)
    Raw(Vec<u8>),
    Arr(Vec<G>),
    Obj(Vec<(GK, G)>),
}

#[derive(Clone, Debug)]
pub enum GK {
    S(String),
    Raw(Vec<u8>),
}

#[derive(Clone, Copy, Debug)]
pub struct Style {
    /// 0 none, 1 a little, 2 a lot
    pub ws: u8,
    /// 0 minimal escaping, 1 random extra \u escapes, 2 everything as \u escapes
    pub esc: u8,
    pub upper_hex: bool,
}

impl Style {
    pub fn compact() -> Style {
        Style { ws: 0, esc: 0, upper_hex: false }
    }
    pub fn random(g: &mut SplitMix64) -> Style {
        Style { ws: g.below(3) as u8, esc: if g.chance(1, 3) { g.below(3) as u8 } else { 0 }, upper_hex: g.chance(1, 2) }
    }
}

fn put_ws(st: &Style, g: &mut SplitMix64, out: &mut Vec<u8>) {
    let n = match st.ws {
        0 => 0,
        1 => g.below(2),
        _ => g.below(6),
    };
    for _ in 0..n {
        out.push(*g.pick(&[b' ', b' ', b'\n', b'\t', b'\r']));
    }
}

fn put_u(cp: u16, st: &Style, out: &mut Vec<u8>) {
    let s = if st.upper_hex { format!("\\u{cp:04X}") } else { format!("\\u{cp:04x}") };
    out.extend_from_slice(s.as_bytes());
}

pub fn render_str(s: &str, st: &Style, g: &mut SplitMix64, out: &mut Vec<u8>) {
    out.push(b'"');
    for ch in s.chars() {
        let cp = ch as u32;
        let must = ch == '"' || ch == '\\' || cp < 0x20;
        let extra = match st.esc {
            0 => false,
            1 => g.chance(1, 4),
            _ => true,
        };
        if !must && !extra {
            let mut buf = [0u8; 4];
            out.extend_from_slice(ch.encode_utf8(&mut buf).as_bytes());
            continue;
        }
        let short = match ch {
            '"' => Some(b'"'),
            '\\' => Some(b'\\'),
            '/' => Some(b'/'),
            '\u{8}' => Some(b'b'),
            '\u{c}' => Some(b'f'),
            '\n' => Some(b'n'),
            '\r' => Some(b'r'),
            '\t' => Some(b't'),
            _ => None,
        };
        if let (Some(c), true) = (short, st.esc < 2 || g.chance(1, 2)) {
            out.push(b'\\');
            out.push(c);
        } else if cp < 0x10000 {
            put_u(cp as u16, st, out);
        } else {
            let v = cp - 0x10000;
            put_u(0xD800 + (v >> 10) as u16, st, out);
            put_u(0xDC00 + (v & 0x3ff) as u16, st, out);
        }
    }
    out.push(b'"');
}

pub fn render(v: &G, st: &Style, g: &mut SplitMix64, out: &mut Vec<u8>) {
    match v {
        G::Null => out.extend_from_slice(b"null"),
        G::Bool(true) => out.extend_from_slice(b"true"),
        G::Bool(false) => out.extend_from_slice(b"false"),
        G::Num(t) => out.extend_from_slice(t.as_bytes()),
        G::Str(s) => render_str(s, st, g, out),
        G::Raw(b) => {
            out.push(b'"');
            out.extend_from_slice(b);
            out.push(b'"');
        }
        G::Arr(items) => {
            out.push(b'[');
            for (i, x) in items.iter().enumerate() {
                if i > 0 {
                    out.push(b',');
                }
                put_ws(st, g, out);
                render(x, st, g, out);
                put_ws(st, g, out);
            }
            if items.is_empty() {
                put_ws(st, g, out);
            }
            out.push(b']');
        }
        G::Obj(ms) => {
            out.push(b'{');
            for (i, (k, x)) in ms.iter().enumerate() {
                if i > 0 {
                    out.push(b',');
                }
                put_ws(st, g, out);
                match k {
                    GK::S(s) => render_str(s, st, g, out),
                    GK::Raw(b) => {
                        out.push(b'"');
                        out.extend_from_slice(b);
                        out.push(b'"');
                    }
                }
                put_ws(st, g, out);
                out.push(b':');
                put_ws(st, g, out);
                render(x, st, g, out);
                put_ws(st, g, out);
            }
            if ms.is_empty() {
                put_ws(st, g, out);
            }
            out.push(b'}');
        }
    }
}

pub fn render_doc(v: &G, st: &Style, g: &mut SplitMix64) -> Vec<u8> {
    let mut out = vec![];
    put_ws(st, g, &mut out);
    render(v, st, g, &mut out);
    put_ws(st, g, &mut out);
    out
}
