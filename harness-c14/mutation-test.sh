#!/bin/sh
# mutation-test.sh — show that the C14 harness DETECTS breakage, without touching /repo.
#   mutation-test.sh swap-exp-nbf | sub-under-aud | drop-dup-check | none     build + run one mutant
#   mutation-test.sh clean                                                    remove the scratch copies
# Copies /repo (sources only) to /tmp/c14mut/repo, patches paseto-json/src/lib.rs there, builds a copy of
# this crate against the copy (path deps rewritten) and prints the violations / disagreements reported.
set -e
S=/tmp/c14mut
if [ "$1" = "clean" ]; then rm -rf "$S"; echo "removed $S"; exit 0; fi
M="${1:-none}"
HERE="$(cd "$(dirname "$0")" && pwd)"
mkdir -p "$S/repo" "$S/h" "$S/harness/src"
rsync -a --delete --exclude target --exclude .git /repo/ "$S/repo/"
rsync -a --delete --exclude target "$HERE/" "$S/h/"
cp "$HERE/../harness/src/sexp.rs" "$HERE/../harness/src/model.rs" "$HERE/../harness/src/report.rs" "$S/harness/src/"
sed -i "s#/repo/#$S/repo/#g" "$S/h/Cargo.toml"
cp -n "$S/repo/Cargo.lock" "$S/h/Cargo.lock" 2>/dev/null || true
python3 - "$M" "$S/repo/paseto-json/src/lib.rs" <<'EOF'
import sys
m, p = sys.argv[1], sys.argv[2]
s = open(p).read()
def rep(old, new, count=1):
    global s
    assert s.count(old) >= 1, "pattern not found: " + old
    s = s.replace(old, new, count)
if m == "swap-exp-nbf":
    rep('b"exp" => Ok(RegisteredClaimField::Expiration)', 'b"nbf" => Ok(RegisteredClaimField::Expiration)')
    rep('b"nbf" => Ok(RegisteredClaimField::NotBefore)', 'b"exp" => Ok(RegisteredClaimField::NotBefore)')
elif m == "sub-under-aud":
    rep('state.serialize_field("sub", &x)?;', 'state.serialize_field(if self.aud.is_none() { "aud" } else { "sub" }, &x)?;')
elif m == "drop-dup-check":
    rep('''                        if issuer.is_some() {
                            return Err(serde_core::de::Error::duplicate_field("iss"));
                        }
''', '')
elif m != "none":
    sys.exit("unknown mutation " + m)
open(p, "w").write(s)
EOF
(cd "$S/h" && CARGO_NET_OFFLINE=true CARGO_TARGET_DIR="$S/target" cargo build --offline 2>&1 | tail -3)
"$S/target/debug/harness-c14" --tier quick --seed 1 --model "$HERE/../ocaml/modelrun" --out "$S/report.json"
python3 - "$S/report.json" "$M" <<'EOF'
import json, sys, collections
r = json.load(open(sys.argv[1]))
print("mutation %s: evaluations %d, violations %d (classes %s), disagreements %d (classes %s)" % (
    sys.argv[2], r["evaluations"],
    sum(v for k, v in r["distribution"].items() if k.startswith("violation:")),
    sorted(k[10:] for k in r["distribution"] if k.startswith("violation:")),
    sum(v for k, v in r["distribution"].items() if k.startswith("disagreement:")),
    sorted(k[13:] for k in r["distribution"] if k.startswith("disagreement:"))))
for v in r["violations"][:2]:
    print("  failing input:", v["class"], "—", v["what"][:300])
for v in r["disagreements"][:2]:
    print("  disagreement:", v["class"], "—", v["what"][:300])
print("  => ./check would print:", "VIOLATION ... replay=<failing input>" if r["violations"] else ("VIOLATION ... no-failing-input-found" if r["disagreements"] else "nothing (exit 0)"))
EOF
