//! Executed under Miri (`cargo +nightly miri test --offline`): the pure-Rust crates of /repo on well-formed and
//! malformed inputs.  Miri stops on any undefined behaviour (out-of-bounds or unaligned access, invalid UTF-8 in a
//! `str` built by `from_utf8_unchecked`, use after free, data races).  Supporting evidence for C04's "invalid memory
//! access" clause on the code paths that contain `unsafe` (paseto-core base64) or zerocopy views.
use paseto_core::key::{HasKey, Key, KeyType};
use paseto_core::paserk::{KeyId, KeyText, PasswordWrappedKey, PieWrappedKey, SealedKey};
use paseto_core::tokens::{SealedToken, UnsealedToken};
use paseto_core::validation::NoValidation;
use paseto_core::version::{Local, Public, Secret};
use std::str::FromStr;

#[derive(Clone, Debug, PartialEq, Eq)]
struct Raw(Vec<u8>);
impl paseto_core::encodings::Payload for Raw {
    const SUFFIX: &'static str = "";
    fn encode(self, mut writer: impl paseto_core::encodings::WriteBytes) -> Result<(), Box<dyn std::error::Error + Send + Sync>> {
        writer.write(&self.0);
        Ok(())
    }
    fn decode(payload: &[u8]) -> Result<Self, Box<dyn std::error::Error + Send + Sync>> {
        Ok(Raw(payload.to_vec()))
    }
}

fn key_from<V: HasKey<K>, K: KeyType>(bytes: &[u8]) -> Result<Key<V, K>, paseto_core::PasetoError> {
    KeyText::<V, K>::from_raw_bytes(bytes).try_into()
}

fn bytes(seed: u64, n: usize) -> Vec<u8> {
    let mut x = seed.wrapping_mul(0x9E3779B97F4A7C15) | 1;
    (0..n)
        .map(|_| {
            x ^= x << 13;
            x ^= x >> 7;
            x ^= x << 17;
            (x >> 24) as u8
        })
        .collect()
}

/// base64 Display (the `from_utf8_unchecked` path) and FromStr for every data length 0..=70 and a long one
fn text_layer<V: HasKey<Local> + paseto_core::paserk::IdVersion>() {
    for n in (0..=70).chain([255, 256, 257, 1000]) {
        let data = bytes(n as u64, n);
        let text = KeyText::<V, Local>::from_raw_bytes(&data).to_string();
        let back = KeyText::<V, Local>::from_str(&text).expect("parse");
        assert_eq!(back.as_raw_bytes(), &data[..]);
        // damaged text: every prefix, and one character replaced
        for cut in [0, 1, text.len() / 2, text.len().saturating_sub(1)] {
            let _ = KeyText::<V, Local>::from_str(&text[..cut]);
        }
        let mut t = text.clone().into_bytes();
        if let Some(l) = t.last_mut() {
            *l = b'!';
        }
        let _ = KeyText::<V, Local>::from_str(std::str::from_utf8(&t).unwrap());
        let _ = KeyId::<V, Local>::from_str(&text.replace(".local.", ".lid."));
    }
    // non-ASCII input around the header boundary
    for s in ["k4.local\u{e9}AAAA", "k4.loca\u{20ac}.AAAA", "\u{1F600}", "k4.local.\u{e9}\u{e9}\u{e9}\u{e9}"] {
        let _ = KeyText::<V, Local>::from_str(s);
        let _ = KeyId::<V, Local>::from_str(s);
    }
}

fn tokens<V>(aad: &[u8])
where
    V: HasKey<Local> + HasKey<Secret> + HasKey<Public> + paseto_core::version::SealingVersion<Local> + paseto_core::version::SealingVersion<Public>,
{
    let lk: Key<V, Local> = key_from(&bytes(7, 32)).unwrap();
    for n in [0usize, 1, 15, 16, 17, 64, 200] {
        let msg = bytes(n as u64 + 100, n);
        let tok = UnsealedToken::<V, Local, Raw>::new(Raw(msg.clone())).with_footer(b"{\"kid\":\"x\"}".to_vec()).seal(&lk, aad).expect("seal").to_string();
        let u = SealedToken::<V, Local, Raw, Vec<u8>>::from_str(&tok).expect("parse").unseal(&lk, aad, &NoValidation::dangerous_no_validation()).expect("unseal");
        assert_eq!(u.claims.0, msg);
        // truncated and altered tokens: errors, never undefined behaviour
        for cut in [tok.len() - 1, tok.len() - 20, tok.len() / 2, 9, 8] {
            if let Ok(t) = SealedToken::<V, Local, Raw, Vec<u8>>::from_str(&tok[..cut]) {
                assert!(t.unseal(&lk, aad, &NoValidation::dangerous_no_validation()).is_err());
            }
        }
    }
    let sk: Key<V, Secret> = Key::<V, Secret>::random().expect("keygen");
    let pk = sk.public_key();
    let tok = UnsealedToken::<V, Public, Raw>::new(Raw(b"claims".to_vec())).seal(&sk, aad).expect("sign").to_string();
    let u = SealedToken::<V, Public, Raw, Vec<u8>>::from_str(&tok).unwrap().unseal(&pk, aad, &NoValidation::dangerous_no_validation()).expect("verify");
    assert_eq!(u.claims.0, b"claims");
    for cut in [tok.len() - 1, tok.len() - 40, 12] {
        if let Ok(t) = SealedToken::<V, Public, Raw, Vec<u8>>::from_str(&tok[..cut]) {
            assert!(t.unseal(&pk, aad, &NoValidation::dangerous_no_validation()).is_err());
        }
    }
}

fn pke_sk<V: HasKey<paseto_core::version::PkeSecret>>() -> Key<V, paseto_core::version::PkeSecret> {
    PKE.with(|p| key_from(&p.0).expect("pke secret"))
}
fn pke_pk<V: HasKey<paseto_core::version::PkePublic>>() -> Key<V, paseto_core::version::PkePublic> {
    PKE.with(|p| key_from(&p.1).expect("pke public"))
}
thread_local! {
    static PKE: (Vec<u8>, Vec<u8>) = {
        let k = Key::<paseto_v4::core::V4, Secret>::random().expect("keygen");
        (k.expose_key().as_raw_bytes().to_vec(), k.public_key().expose_key().as_raw_bytes().to_vec())
    };
}

#[test]
fn v4_text_layer() {
    text_layer::<paseto_v4::core::V4>();
}

#[test]
fn v4_tokens() {
    tokens::<paseto_v4::core::V4>(b"ia");
}

#[test]
fn v2_tokens() {
    tokens::<paseto_v2::core::V2>(b"");
}

#[test]
fn v4_wrapped_keys() {
    type V = paseto_v4::core::V4;
    let wk: Key<V, Local> = key_from(&bytes(1, 32)).unwrap();
    let k: Key<V, Local> = key_from(&bytes(2, 32)).unwrap();
    let w = k.clone().wrap_pie(&wk).expect("wrap").to_string();
    let back = PieWrappedKey::<V, Local>::from_str(&w).unwrap().unwrap(&wk).expect("unwrap");
    assert_eq!(back.expose_key().as_raw_bytes(), k.expose_key().as_raw_bytes());
    // zerocopy views over short / long / misaligned inputs
    let data = w.rsplit('.').next().unwrap().to_string();
    for cut in [0usize, 1, 10, 40, 42, 43, data.len() - 1] {
        let s = format!("k4.local-wrap.pie.{}", &data[..cut]);
        if let Ok(p) = PieWrappedKey::<V, Local>::from_str(&s) {
            assert!(p.unwrap(&wk).is_err());
        }
        let s = format!("k4.local-pw.{}", &data[..cut]);
        if let Ok(p) = PasswordWrappedKey::<V, Local>::from_str(&s) {
            // parameters are garbage: only parse, do not run the KDF
            let _ = p;
        }
        let s = format!("k4.seal.{}", &data[..cut]);
        if let Ok(p) = SealedKey::<V>::from_str(&s) {
            assert!(p.unseal(&pke_sk::<V>()).is_err());
        }
    }
    // a sealed key, round trip
    let sk = pke_sk::<V>();
    let sealed = k.clone().seal(&pke_pk::<V>()).expect("seal").to_string();
    let back = SealedKey::<V>::from_str(&sealed).unwrap().unseal(&sk).expect("unseal");
    assert_eq!(back.expose_key().as_raw_bytes(), k.expose_key().as_raw_bytes());
}

#[test]
fn v3_local_and_pie() {
    type V = paseto_v3::core::V3;
    let lk: Key<V, Local> = key_from(&bytes(9, 32)).unwrap();
    let tok = UnsealedToken::<V, Local, Raw>::new(Raw(bytes(3, 33))).with_footer(b"f".to_vec()).seal(&lk, b"ia").unwrap().to_string();
    let u = SealedToken::<V, Local, Raw, Vec<u8>>::from_str(&tok).unwrap().unseal(&lk, b"ia", &NoValidation::dangerous_no_validation()).unwrap();
    assert_eq!(u.claims.0, bytes(3, 33));
    let w = lk.clone().wrap_pie(&lk).unwrap().to_string();
    let back = PieWrappedKey::<V, Local>::from_str(&w).unwrap().unwrap(&lk).unwrap();
    assert_eq!(back.expose_key().as_raw_bytes(), lk.expose_key().as_raw_bytes());
    let _ = lk.id().to_string();
}
