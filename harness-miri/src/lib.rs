// see tests/miri.rs
