//! see Cargo.toml
