//! C19 probe: the same source, built against one paseto-vN crate in one cargo feature configuration.
//! Reads commands (one per line, space separated, byte strings in hex, `-` = empty) on stdin and answers one
//! line per command on stdout.  An operation the configuration does not offer answers `unsupported`.
//! The harness (tools/c19_harness.py) compares the answers of reduced builds with those of the full build.
#![allow(unused_imports, dead_code, unused_variables)]

use std::io::{BufRead, Write};

use paseto_core::PasetoError;
use paseto_core::encodings::{Payload, WriteBytes};
use paseto_core::validation::NoValidation;

#[cfg(feature = "v1")]
type V = pv::core::V1;
#[cfg(feature = "v2")]
type V = pv::core::V2;
#[cfg(feature = "v3")]
type V = pv::core::V3;
#[cfg(feature = "v4")]
type V = pv::core::V4;

/// raw bytes as the token message (suffix-less encoding, like JSON)
struct Raw(Vec<u8>);

impl Payload for Raw {
    const SUFFIX: &'static str = "";
    fn encode(self, mut writer: impl WriteBytes) -> Result<(), Box<dyn std::error::Error + Send + Sync>> {
        writer.write(&self.0);
        Ok(())
    }
    fn decode(payload: &[u8]) -> Result<Self, Box<dyn std::error::Error + Send + Sync>> {
        Ok(Raw(payload.to_vec()))
    }
}

fn unhex(s: &str) -> Vec<u8> {
    if s == "-" {
        return Vec::new();
    }
    (0..s.len() / 2).map(|i| u8::from_str_radix(&s[2 * i..2 * i + 2], 16).expect("hex")).collect()
}

fn hex(b: &[u8]) -> String {
    if b.is_empty() {
        return "-".into();
    }
    b.iter().map(|x| format!("{x:02x}")).collect()
}

fn err(e: PasetoError) -> String {
    let n = match e {
        PasetoError::Base64DecodeError => "Base64DecodeError",
        PasetoError::InvalidKey => "InvalidKey",
        PasetoError::InvalidToken => "InvalidToken",
        PasetoError::CryptoError => "CryptoError",
        PasetoError::ClaimsError => "ClaimsError",
        PasetoError::PayloadError(_) => "PayloadError",
        _ => "Other",
    };
    format!("err {n}")
}

fn res(r: Result<String, PasetoError>) -> String {
    match r {
        Ok(s) => s,
        Err(e) => err(e),
    }
}

fn caps() -> String {
    let mut v: Vec<&str> = Vec::new();
    if cfg!(feature = "verify") { v.push("verify"); }
    if cfg!(feature = "sign") { v.push("sign"); }
    if cfg!(feature = "decrypt") { v.push("decrypt"); }
    if cfg!(feature = "encrypt") { v.push("encrypt"); }
    if cfg!(feature = "id") { v.push("id"); }
    if cfg!(feature = "pie") { v.push("pie"); }
    if cfg!(feature = "pbkw") { v.push("pbkw"); }
    if cfg!(feature = "pke") { v.push("pke"); }
    format!("caps {}", v.join(","))
}

// ------------------------------------------------------------------ public tokens

#[cfg(feature = "verify")]
fn verify(a: &[&str]) -> Result<String, PasetoError> {
    let key: pv::PublicKey = a[0].parse()?;
    let tok: pv::SignedToken<Raw, Vec<u8>> = a[1].parse()?;
    let t = tok.verify_with_aad(&key, &unhex(a[2]), &NoValidation::dangerous_no_validation())?;
    Ok(format!("ok {} {}", hex(&t.claims.0), hex(&t.footer)))
}
#[cfg(not(feature = "verify"))]
fn verify(_: &[&str]) -> Result<String, PasetoError> { Ok("unsupported".into()) }

#[cfg(feature = "sign")]
fn sign(a: &[&str]) -> Result<String, PasetoError> {
    let key: pv::SecretKey = a[0].parse()?;
    let tok = pv::UnsignedToken::<Raw>::new(Raw(unhex(a[1]))).with_footer(unhex(a[2]));
    Ok(tok.sign_with_aad(&key, &unhex(a[3]))?.to_string())
}
#[cfg(not(feature = "sign"))]
fn sign(_: &[&str]) -> Result<String, PasetoError> { Ok("unsupported".into()) }

#[cfg(feature = "sign")]
fn pubkey(a: &[&str]) -> Result<String, PasetoError> {
    let key: pv::SecretKey = a[0].parse()?;
    Ok(key.public_key().to_string())
}
#[cfg(not(feature = "sign"))]
fn pubkey(_: &[&str]) -> Result<String, PasetoError> { Ok("unsupported".into()) }

#[cfg(feature = "sign")]
fn genkey() -> Result<String, PasetoError> {
    Ok(pv::SecretKey::random()?.expose_key().to_string())
}
#[cfg(not(feature = "sign"))]
fn genkey() -> Result<String, PasetoError> { Ok("unsupported".into()) }

// ------------------------------------------------------------------ local tokens

#[cfg(feature = "decrypt")]
fn decrypt(a: &[&str]) -> Result<String, PasetoError> {
    let key: pv::LocalKey = a[0].parse()?;
    let tok: pv::EncryptedToken<Raw, Vec<u8>> = a[1].parse()?;
    let t = tok.decrypt_with_aad(&key, &unhex(a[2]), &NoValidation::dangerous_no_validation())?;
    Ok(format!("ok {} {}", hex(&t.claims.0), hex(&t.footer)))
}
#[cfg(not(feature = "decrypt"))]
fn decrypt(_: &[&str]) -> Result<String, PasetoError> { Ok("unsupported".into()) }

#[cfg(feature = "encrypt")]
fn encrypt(a: &[&str]) -> Result<String, PasetoError> {
    let key: pv::LocalKey = a[0].parse()?;
    let tok = pv::UnencryptedToken::<Raw>::new(Raw(unhex(a[2]))).with_footer(unhex(a[3]));
    Ok(tok.dangerous_seal_with_nonce(&key, &unhex(a[4]), unhex(a[1]))?.to_string())
}
#[cfg(not(feature = "encrypt"))]
fn encrypt(_: &[&str]) -> Result<String, PasetoError> { Ok("unsupported".into()) }

// ------------------------------------------------------------------ PASERK

#[cfg(all(feature = "id", feature = "decrypt"))]
fn lid(a: &[&str]) -> Result<String, PasetoError> {
    let key: pv::LocalKey = a[0].parse()?;
    Ok(key.id().to_string())
}
#[cfg(not(all(feature = "id", feature = "decrypt")))]
fn lid(_: &[&str]) -> Result<String, PasetoError> { Ok("unsupported".into()) }

#[cfg(all(feature = "id", feature = "verify"))]
fn pid(a: &[&str]) -> Result<String, PasetoError> {
    let key: pv::PublicKey = a[0].parse()?;
    Ok(key.id().to_string())
}
#[cfg(not(all(feature = "id", feature = "verify")))]
fn pid(_: &[&str]) -> Result<String, PasetoError> { Ok("unsupported".into()) }

#[cfg(feature = "pie")]
fn piewrap(a: &[&str]) -> Result<String, PasetoError> {
    let key: pv::LocalKey = a[0].parse()?;
    let with: pv::LocalKey = a[1].parse()?;
    Ok(key.wrap_pie(&with)?.to_string())
}
#[cfg(not(feature = "pie"))]
fn piewrap(_: &[&str]) -> Result<String, PasetoError> { Ok("unsupported".into()) }

#[cfg(feature = "pie")]
fn pieunwrap(a: &[&str]) -> Result<String, PasetoError> {
    let blob: paseto_core::paserk::PieWrappedKey<V, paseto_core::version::Local> = a[0].parse()?;
    let with: pv::LocalKey = a[1].parse()?;
    Ok(blob.unwrap(&with)?.expose_key().to_string())
}
#[cfg(not(feature = "pie"))]
fn pieunwrap(_: &[&str]) -> Result<String, PasetoError> { Ok("unsupported".into()) }

#[cfg(feature = "pbkw")]
fn pwwrap(a: &[&str]) -> Result<String, PasetoError> {
    let key: pv::LocalKey = a[0].parse()?;
    Ok(key.password_wrap(&unhex(a[1]))?.to_string())
}
#[cfg(not(feature = "pbkw"))]
fn pwwrap(_: &[&str]) -> Result<String, PasetoError> { Ok("unsupported".into()) }

#[cfg(feature = "pbkw")]
fn pwunwrap(a: &[&str]) -> Result<String, PasetoError> {
    let blob: paseto_core::paserk::PasswordWrappedKey<V, paseto_core::version::Local> = a[0].parse()?;
    Ok(blob.unwrap(&unhex(a[1]))?.expose_key().to_string())
}
#[cfg(not(feature = "pbkw"))]
fn pwunwrap(_: &[&str]) -> Result<String, PasetoError> { Ok("unsupported".into()) }

#[cfg(feature = "pke")]
fn seal(a: &[&str]) -> Result<String, PasetoError> {
    let key: pv::LocalKey = a[0].parse()?;
    let with: paseto_core::key::Key<V, paseto_core::version::PkePublic> = a[1].parse()?;
    Ok(key.seal(&with)?.to_string())
}
#[cfg(not(feature = "pke"))]
fn seal(_: &[&str]) -> Result<String, PasetoError> { Ok("unsupported".into()) }

#[cfg(feature = "pke")]
fn unseal(a: &[&str]) -> Result<String, PasetoError> {
    let blob: paseto_core::paserk::SealedKey<V> = a[0].parse()?;
    let with: paseto_core::key::Key<V, paseto_core::version::PkeSecret> = a[1].parse()?;
    Ok(blob.unseal(&with)?.expose_key().to_string())
}
#[cfg(not(feature = "pke"))]
fn unseal(_: &[&str]) -> Result<String, PasetoError> { Ok("unsupported".into()) }

fn main() {
    let stdin = std::io::stdin();
    let out = std::io::stdout();
    let mut out = out.lock();
    for line in stdin.lock().lines() {
        let line = line.expect("stdin");
        let parts: Vec<&str> = line.split(' ').collect();
        if parts.is_empty() || parts[0].is_empty() {
            continue;
        }
        let a = &parts[1..];
        let need = |n: usize| a.len() == n;
        let ans = match parts[0] {
            "caps" => caps(),
            "verify" if need(3) => res(verify(a)),
            "sign" if need(4) => res(sign(a)),
            "pubkey" if need(1) => res(pubkey(a)),
            "genkey" if need(0) => res(genkey()),
            "decrypt" if need(3) => res(decrypt(a)),
            "encrypt" if need(5) => res(encrypt(a)),
            "lid" if need(1) => res(lid(a)),
            "pid" if need(1) => res(pid(a)),
            "piewrap" if need(2) => res(piewrap(a)),
            "pieunwrap" if need(2) => res(pieunwrap(a)),
            "pwwrap" if need(2) => res(pwwrap(a)),
            "pwunwrap" if need(2) => res(pwunwrap(a)),
            "seal" if need(2) => res(seal(a)),
            "unseal" if need(2) => res(unseal(a)),
            _ => "bad-command".to_string(),
        };
        writeln!(out, "{ans}").expect("stdout");
    }
}
