#!/usr/bin/env python3
"""facts_c19.py — translator plug-in for C19 (target "features").

Re-reads, on every run, for each of paseto-v1..v4, paseto-core and paseto-json:
  (a) Cargo.toml: the [features] table (implication edges, `dep:x`, `pkg/feat`, `pkg?/feat`, default),
      the optional dependencies, the dependency features that are always requested;
  (b) the crate's src tree (following `mod` declarations from src/lib.rs): every module-level item with
      its cfg gate (boolean formula over features), the gate of the enclosing modules, the optional crates
      its text mentions, the `dep::feat` paths it mentions, the gated sibling names it references;
  (c) every `cfg` / `cfg_attr` attribute occurrence with the syntactic kind of what it decorates, and
      every `cfg!(..)` macro use.
and writes coq/theories/Gen/Features.v (records of PV.FeatureRules).

A construct the reader does not understand raises extract_facts.Broken (reported by ./check as a broken tie).
The reader is a small Rust lexer + delimiter matcher + item splitter; it does not expand macros (the
transcribers of `macro_rules!` definitions are read as item lists when they have that shape)."""
import os, re, sys

import extract_facts as xf
from extract_facts import Broken

try:
    import tomllib
except ImportError:  # pragma: no cover
    tomllib = None

CRATES = ["paseto-v1", "paseto-v2", "paseto-v3", "paseto-v4", "paseto-core", "paseto-json"]
COQ_NAME = {"paseto-v1": "gen_v1", "paseto-v2": "gen_v2", "paseto-v3": "gen_v3", "paseto-v4": "gen_v4",
            "paseto-core": "gen_core", "paseto-json": "gen_json"}


# ------------------------------------------------------------------------------------------- lexer

class Tok:
    __slots__ = ("k", "s", "pos", "line")

    def __init__(self, k, s, pos, line):
        self.k, self.s, self.pos, self.line = k, s, pos, line

    def __repr__(self):
        return "%s:%r@%d" % (self.k, self.s, self.line)


OPEN = {"(": ")", "[": "]", "{": "}"}
CLOSE = {")", "]", "}"}
IDENT0 = re.compile(r"[A-Za-z_][A-Za-z0-9_]*")


def lex(src, rel):
    """tokens: k in id | lit | life | p | open | close ; comments (incl. doc comments) dropped"""
    toks = []
    i, n, line = 0, len(src), 1
    while i < n:
        c = src[i]
        if c == "\n":
            line += 1
            i += 1
        elif c in " \t\r":
            i += 1
        elif src.startswith("//", i):
            j = src.find("\n", i)
            i = n if j < 0 else j
        elif src.startswith("/*", i):
            depth, j = 1, i + 2
            while j < n and depth:
                if src.startswith("/*", j):
                    depth += 1
                    j += 2
                elif src.startswith("*/", j):
                    depth -= 1
                    j += 2
                else:
                    if src[j] == "\n":
                        line += 1
                    j += 1
            if depth:
                raise Broken("%s: unterminated block comment" % rel)
            i = j
        elif c == '"' or (c in "bc" and src.startswith('"', i + 1)):
            j = i + (1 if c == '"' else 2)
            while j < n and src[j] != '"':
                if src[j] == "\\":
                    j += 1
                if j < n and src[j] == "\n":
                    line += 1
                j += 1
            if j >= n:
                raise Broken("%s:%d: unterminated string literal" % (rel, line))
            toks.append(Tok("lit", src[i:j + 1], i, line))
            i = j + 1
        elif (m := re.match(r"(?:br|cr|r)(#*)\"", src[i:i + 40])) and (i == 0 or not (src[i - 1].isalnum() or src[i - 1] == "_")):
            end = '"' + m.group(1)
            j = src.find(end, i + m.end())
            if j < 0:
                raise Broken("%s:%d: unterminated raw string" % (rel, line))
            toks.append(Tok("lit", src[i:j + len(end)], i, line))
            line += src.count("\n", i, j)
            i = j + len(end)
        elif c == "'" or (c == "b" and src.startswith("'", i + 1)):
            j = i + (1 if c == "'" else 2)
            if j < n and src[j] == "\\":
                m = re.match(r"\\(?:x[0-9a-fA-F]{2}|u\{[0-9a-fA-F_]+\}|.)'", src[j:j + 16])
                if not m:
                    raise Broken("%s:%d: cannot read character literal" % (rel, line))
                toks.append(Tok("lit", src[i:j + m.end()], i, line))
                i = j + m.end()
            elif j + 1 < n and src[j + 1] == "'" and src[j] != "'":
                toks.append(Tok("lit", src[i:j + 2], i, line))
                i = j + 2
            elif c == "'" and (m2 := IDENT0.match(src, j)):
                toks.append(Tok("life", src[i:m2.end()], i, line))
                i = m2.end()
            else:
                raise Broken("%s:%d: cannot read quote" % (rel, line))
        elif c.isalpha() or c == "_":
            m = IDENT0.match(src, i)
            s = m.group(0)
            if s == "r" and src.startswith("#", m.end()) and IDENT0.match(src, m.end() + 1):  # raw identifier
                m = IDENT0.match(src, m.end() + 1)
                s = m.group(0)
            toks.append(Tok("id", s, i, line))
            i = m.end()
        elif c.isdigit():
            m = re.match(r"[0-9][0-9A-Za-z_]*(?:\.[0-9][0-9A-Za-z_]*)?", src[i:])
            toks.append(Tok("lit", m.group(0), i, line))
            i += m.end()
        elif c in OPEN:
            toks.append(Tok("open", c, i, line))
            i += 1
        elif c in CLOSE:
            toks.append(Tok("close", c, i, line))
            i += 1
        else:
            for p in ("::", "=>", "->"):
                if src.startswith(p, i):
                    toks.append(Tok("p", p, i, line))
                    i += len(p)
                    break
            else:
                toks.append(Tok("p", c, i, line))
                i += 1
    return toks


class Unit:
    """one source file: tokens, matching delimiters, parents"""

    def __init__(self, crate, rel):
        self.crate, self.rel = crate, rel
        self.src = xf.read(crate + "/" + rel)
        self.t = lex(self.src, crate + "/" + rel)
        n = len(self.t)
        self.match = [-1] * n
        self.parent = [-1] * n
        stack = []
        for i, tk in enumerate(self.t):
            self.parent[i] = stack[-1] if stack else -1
            if tk.k == "open":
                stack.append(i)
            elif tk.k == "close":
                if not stack or OPEN[self.t[stack[-1]].s] != tk.s:
                    raise Broken("%s/%s:%d: unbalanced delimiter %s" % (crate, rel, tk.line, tk.s))
                o = stack.pop()
                self.match[o] = i
                self.match[i] = o
                self.parent[i] = stack[-1] if stack else -1
        if stack:
            raise Broken("%s/%s: unclosed delimiter opened at line %d" % (crate, rel, self.t[stack[-1]].line))

    def where(self, i):
        return "%s:%d" % (self.rel, self.t[i].line)

    def is_(self, i, k, s=None):
        return 0 <= i < len(self.t) and self.t[i].k == k and (s is None or self.t[i].s == s)

    def text(self, lo, hi):
        if lo >= hi:
            return ""
        a = self.t[lo].pos
        b = self.t[hi - 1].pos + len(self.t[hi - 1].s)
        return self.src[a:b]


# ------------------------------------------------------------------------------------------- gates

def g_and(a, b):
    if a == ("true",):
        return b
    if b == ("true",):
        return a
    return ("and", a, b)


def parse_pred(u, lo, hi):
    """cfg predicate in tokens [lo,hi) -> gate tuple"""
    t = u.t
    if lo >= hi:
        raise Broken("%s: empty cfg predicate" % u.where(max(lo - 1, 0)))
    if t[lo].k != "id":
        raise Broken("%s: cannot read cfg predicate" % u.where(lo))
    name = t[lo].s
    if name in ("any", "all", "not") and u.is_(lo + 1, "open", "("):
        close = u.match[lo + 1]
        args, a = [], lo + 2
        k = a
        while k < close:
            if t[k].k == "open":
                k = u.match[k] + 1
                continue
            if t[k].k == "p" and t[k].s == ",":
                if a < k:
                    args.append(parse_pred(u, a, k))
                a = k + 1
            k += 1
        if a < close:
            args.append(parse_pred(u, a, close))
        if close + 1 != hi:
            raise Broken("%s: trailing tokens in cfg predicate" % u.where(lo))
        if name == "not":
            if len(args) != 1:
                raise Broken("%s: not() with %d arguments" % (u.where(lo), len(args)))
            return ("not", args[0])
        unit = ("true",) if name == "all" else ("false",)
        if not args:
            return unit
        g = args[-1]
        for x in reversed(args[:-1]):
            g = ("and" if name == "all" else "or", x, g)
        return g
    if name == "feature" and u.is_(lo + 1, "p", "=") and u.is_(lo + 2, "lit") and lo + 3 == hi:
        lit = t[lo + 2].s
        if not (lit.startswith('"') and lit.endswith('"')):
            raise Broken("%s: feature name is not a plain string literal" % u.where(lo))
        return ("feat", lit[1:-1])
    # any other predicate (test, target_os = "..", debug_assertions ...): opaque, off in the model
    return ("other", re.sub(r"\s+", " ", u.text(lo, hi)).replace('"', "'"))


def gate_feats(g):
    if g[0] == "feat":
        return [g[1]]
    if g[0] in ("and", "or"):
        return gate_feats(g[1]) + gate_feats(g[2])
    if g[0] == "not":
        return gate_feats(g[1])
    return []


def gate_coq(g):
    k = g[0]
    if k == "true":
        return "GTrue"
    if k == "false":
        return "GFalse"
    if k == "feat":
        return 'GFeat "%s"' % g[1]
    if k == "other":
        return 'GOther "%s"' % g[1]
    if k == "not":
        return "GNot (%s)" % gate_coq(g[1])
    return "%s (%s) (%s)" % ("GAnd" if k == "and" else "GOr", gate_coq(g[1]), gate_coq(g[2]))


# ------------------------------------------------------------------------------------------- items

ITEM_KW = {"mod", "use", "fn", "struct", "enum", "union", "trait", "impl", "type", "const", "static", "extern",
           "macro_rules", "unsafe", "async", "pub", "macro"}
# kinds of what a cfg attribute decorates
ALLOWED_KINDS = ["KModule", "KUse", "KItem", "KImpl", "KFn", "KTypeAlias", "KAssocInherent"]
ALL_KINDS = ALLOWED_KINDS + ["KAssocTrait", "KField", "KStatement", "KExpression", "KMatchArm", "KParam",
                             "KMacroArg", "KCfgAttr", "KInnerAttr"]


class Item:
    def __init__(self):
        self.at = ""          # file:line
        self.kind = ""        # KModule ...
        self.mod = ""         # module path, "" = crate root
        self.defs = []        # names it introduces into its module
        self.gate = ("true",)
        self.encl = ("true",)  # conjunction of the gates of the `mod` declarations on the path
        self.lo = self.hi = self.scan_hi = 0  # token range (attributes included)
        self.unit = None
        self.crates = []
        self.depfeats = []
        self.refs = []
        self.globs = []       # module paths glob-imported (use m::*)
        self.in_macro = False


class Crate:
    def __init__(self, name):
        self.name = name
        self.items = []
        self.occ = []         # (at, kind, context text, gate)
        self.cfg_macros = []  # at
        self.macro_defs = {}  # name -> at  (macro_rules with cfg'd item-shaped transcribers)
        self.macro_uses = []  # (name, at, module_level: bool)
        self.modules = {""}
        self.files = []


class ParseFail(Exception):
    pass


def read_attrs(u, i, hi):
    """outer/inner attributes starting at i -> ([(hash_idx, open_idx, inner?)], next)"""
    out = []
    while i < hi and u.is_(i, "p", "#"):
        j = i + 1
        inner = False
        if u.is_(j, "p", "!"):
            inner = True
            j += 1
        if not u.is_(j, "open", "["):
            break
        out.append((i, j, inner))
        i = u.match[j] + 1
    return out, i


def attr_cfg(u, open_idx):
    """('cfg', gate) | ('cfg_attr', gate) | None for the attribute whose '[' is at open_idx"""
    a = open_idx + 1
    if u.is_(a, "id", "cfg") and u.is_(a + 1, "open", "("):
        return "cfg", parse_pred(u, a + 2, u.match[a + 1])
    if u.is_(a, "id", "cfg_attr") and u.is_(a + 1, "open", "("):
        close = u.match[a + 1]
        k = a + 2
        while k < close and not (u.t[k].k == "p" and u.t[k].s == ","):
            k = u.match[k] + 1 if u.t[k].k == "open" else k + 1
        return "cfg_attr", parse_pred(u, a + 2, k)
    return None


def skip_to(u, i, hi, stops, brace_stops=True):
    """first index k >= i (skipping groups) with a punct in `stops`, or an open '{' if brace_stops"""
    k = i
    while k < hi:
        tk = u.t[k]
        if tk.k == "open":
            if tk.s == "{" and brace_stops:
                return k
            k = u.match[k] + 1
            continue
        if tk.k == "p" and tk.s in stops:
            return k
        k += 1
    return hi


def use_leaves(u, lo, hi):
    """names introduced by a use tree in tokens [lo,hi) ; returns (names, glob_paths)"""
    names, globs = [], []

    def tree(a, b, prefix):
        # split on commas at depth 0
        parts, s, k = [], a, a
        while k < b:
            if u.t[k].k == "open":
                k = u.match[k] + 1
                continue
            if u.t[k].k == "p" and u.t[k].s == ",":
                parts.append((s, k))
                s = k + 1
            k += 1
        if s < b:
            parts.append((s, b))
        for (x, y) in parts:
            path = list(prefix)
            k = x
            if u.is_(k, "p", "::"):
                k += 1
            last = None
            while k < y:
                tk = u.t[k]
                if tk.k == "id" and tk.s == "as":
                    if u.is_(k + 1, "id"):
                        last = u.t[k + 1].s
                    k += 2
                    continue
                if tk.k == "id":
                    last = tk.s
                    path.append(tk.s)
                    k += 1
                elif tk.k == "p" and tk.s == "::":
                    k += 1
                elif tk.k == "p" and tk.s == "*":
                    globs.append(list(path))
                    last = None
                    k += 1
                elif tk.k == "open" and tk.s == "{":
                    tree(k + 1, u.match[k], path)
                    last = None
                    k = u.match[k] + 1
                else:
                    raise ParseFail("use tree at " + u.where(k))
            if last == "self" and len(path) >= 2:
                last = path[-2]
            if last and last not in ("self", "_"):
                names.append(last)

    tree(lo, hi, [])
    return names, globs


class Reader:
    def __init__(self, crate):
        self.c = Crate(crate)

    # ---- occurrences

    def occ(self, u, hash_idx, kind, gate, ctx):
        self.c.occ.append((u.where(hash_idx), kind, ctx, gate))

    def scan_nested(self, u, lo, hi, ctx):
        """every cfg / cfg_attr attribute and cfg!() use strictly inside [lo,hi), classified syntactically"""
        t = u.t
        k = lo
        while k < hi:
            if u.is_(k, "id", "cfg") and u.is_(k + 1, "p", "!") and u.is_(k + 2, "open"):
                # only feature-dependent uses matter (cfg!(test), cfg!(debug_assertions) do not vary with features)
                if any(u.is_(q, "id", "feature") for q in range(k + 3, u.match[k + 2])):
                    self.c.cfg_macros.append(u.where(k))
                k += 2
                continue
            if u.is_(k, "p", "#"):
                attrs, nxt = read_attrs(u, k, hi)
                if not attrs:
                    k += 1
                    continue
                for (h, o, inner) in attrs:
                    r = attr_cfg(u, o)
                    if r is None:
                        continue
                    what, gate = r
                    if what == "cfg_attr":
                        self.occ(u, h, "KCfgAttr", gate, ctx)
                    elif inner:
                        self.occ(u, h, "KInnerAttr", gate, ctx)
                    else:
                        self.occ(u, h, self.classify_nested(u, h, nxt, hi, ctx), gate, ctx)
                # attributes may themselves contain nothing of interest; continue after them
                k = nxt
                continue
            k += 1

    def classify_nested(self, u, h, nxt, hi, ctx):
        t = u.t
        par = u.parent[h]
        delim = t[par].s if par >= 0 else "{"
        end = u.match[par] if par >= 0 else hi
        # inside the arguments of a macro invocation `name!(..)`: not a position the reader can vouch for
        q = par
        while q >= 0:
            if q >= 1 and u.is_(q - 1, "p", "!"):
                return "KMacroArg"
            q = u.parent[q]
        if ctx.startswith("macro invocation"):
            return "KMacroArg"
        if ctx == "fields":
            return "KField"
        if ctx == "header":
            return "KParam"
        if nxt >= end:
            return "KExpression"
        tk = t[nxt]
        if tk.k == "id" and tk.s == "let":
            return "KStatement"
        if tk.k == "id" and tk.s in ITEM_KW and not (tk.s == "unsafe" and u.is_(nxt + 1, "open", "{")):
            return "KStatement" if delim == "{" else "KExpression"
        # look ahead at depth 0
        k = nxt
        while k < end:
            x = t[k]
            if x.k == "open":
                k = u.match[k] + 1
                continue
            if x.k == "p" and x.s == "=>":
                return "KMatchArm"
            if x.k == "p" and x.s in (";", ","):
                break
            k += 1
        if delim in "([":
            return "KExpression"
        if u.is_(nxt, "id") and u.is_(nxt + 1, "p", ":"):
            return "KField"
        if k < end and t[k].s == ";":
            return "KStatement"
        return "KExpression"

    # ---- module-level walk

    def walk_module(self, u, lo, hi, mod, encl, in_macro=False, strict=True):
        t = u.t
        i = lo
        while i < hi:
            if u.is_(i, "p", ";"):
                i += 1
                continue
            start = i
            attrs, i = read_attrs(u, i, hi)
            own = ("true",)
            cfg_hashes = []
            for (h, o, inner) in attrs:
                r = attr_cfg(u, o)
                if u.is_(o + 1, "id", "path") and any(x.k == "id" and x.s == "mod" for x in t[i:i + 4]):
                    raise Broken("%s/%s: #[path] on a module is not supported by the reader" % (self.c.name, u.where(h)))
                if r is None:
                    # attributes may contain cfg in odd places (e.g. doc(cfg(..))): not conditional compilation
                    continue
                what, gate = r
                if what == "cfg_attr":
                    self.occ(u, h, "KCfgAttr", gate, "module level")
                elif inner:
                    # #![cfg(..)] at the top of a module gates the whole module
                    self.occ(u, h, "KModule", gate, "inner attribute of the module")
                    encl = g_and(encl, gate)
                else:
                    own = g_and(own, gate)
                    cfg_hashes.append((h, gate))
            if i >= hi:
                if attrs and all(a[2] for a in attrs):
                    break
                if attrs:
                    raise ParseFail("attributes without an item at " + u.where(start))
                break
            # visibility and qualifiers
            j = i
            if u.is_(j, "id", "pub"):
                j += 1
                if u.is_(j, "open", "("):
                    j = u.match[j] + 1
            quals = []
            while u.is_(j, "id") and t[j].s in ("unsafe", "async", "default", "const", "extern"):
                s_ = t[j].s
                nx = t[j + 1].s if u.is_(j + 1, "id") else None
                if s_ == "const" and nx not in ("fn", "unsafe", "async", "extern"):
                    break
                if s_ == "extern":
                    if nx == "crate":
                        break
                    quals.append(s_)
                    j += 1
                    if u.is_(j, "lit"):
                        j += 1
                    continue
                if s_ == "unsafe" and nx not in ("impl", "fn", "trait", "extern", "mod"):
                    break
                if s_ == "default" and nx not in ("impl", "fn", "unsafe", "const", "type", "async"):
                    break
                quals.append(s_)
                j += 1
            if j >= hi:
                raise ParseFail("item expected at " + u.where(i))
            kw = t[j]
            it = Item()
            it.unit, it.mod, it.encl, it.gate, it.in_macro = u, mod, encl, own, in_macro
            it.lo = start
            it.at = u.where(cfg_hashes[0][0] if cfg_hashes else j)
            body = None   # (kind, lo, hi) ranges to scan for nested cfgs
            if kw.k == "open" and kw.s == "{" and "extern" in quals:
                it.kind = "KItem"
                end = u.match[j] + 1
                nested = [("foreign", j + 1, u.match[j])]
            elif kw.k != "id":
                raise ParseFail("item expected at %s, found %r" % (u.where(j), kw.s))
            elif kw.s == "mod":
                if not u.is_(j + 1, "id"):
                    raise ParseFail("mod without a name at " + u.where(j))
                name = t[j + 1].s
                it.kind, it.defs = "KModule", [name]
                sub = (mod + "::" + name) if mod else name
                nested = []
                if u.is_(j + 2, "p", ";"):
                    end = j + 3
                    if in_macro:
                        raise ParseFail("file module declared in a macro")
                    self.pending.append((u, name, sub, g_and(encl, own)))
                elif u.is_(j + 2, "open", "{"):
                    end = u.match[j + 2] + 1
                    self.c.modules.add(sub)
                    self.walk_module(u, j + 3, u.match[j + 2], sub, g_and(encl, own), in_macro)
                else:
                    raise ParseFail("mod: expected ; or { at " + u.where(j))
            elif kw.s == "use":
                end = skip_to(u, j, hi, {";"}, brace_stops=False)
                if end >= hi:
                    raise ParseFail("use without ; at " + u.where(j))
                it.kind = "KUse"
                it.defs, globs = use_leaves(u, j + 1, end)
                it.globs = globs
                end += 1
                nested = [("expr", j + 1, end)]
            elif kw.s == "extern" and u.is_(j + 1, "id", "crate"):
                end = skip_to(u, j, hi, {";"}, brace_stops=False) + 1
                it.kind = "KItem"
                name = t[j + 2].s if u.is_(j + 2, "id") else None
                if u.is_(j + 3, "id", "as") and u.is_(j + 4, "id"):
                    self.renames[t[j + 4].s] = name
                    name = t[j + 4].s
                it.defs = [name] if name else []
                nested = []
            elif kw.s == "fn":
                k = skip_to(u, j, hi, {";"})
                it.kind = "KFn"
                it.defs = [t[j + 1].s] if u.is_(j + 1, "id") else []
                if k < hi and t[k].k == "open":
                    end = u.match[k] + 1
                    nested = [("header", j, k), ("block", k + 1, u.match[k])]
                else:
                    end = k + 1
                    nested = [("header", j, k)]
            elif kw.s in ("struct", "union") and u.is_(j + 1, "id"):
                k = skip_to(u, j, hi, {";"})
                it.kind = "KItem"
                it.defs = [t[j + 1].s]
                if k < hi and t[k].k == "open":
                    end = u.match[k] + 1
                else:
                    end = k + 1
                nested = [("fields", j, end)]
            elif kw.s == "enum":
                k = skip_to(u, j, hi, set())
                if k >= hi:
                    raise ParseFail("enum without body at " + u.where(j))
                it.kind, it.defs = "KItem", [t[j + 1].s]
                end = u.match[k] + 1
                nested = [("fields", j, end)]
            elif kw.s in ("trait", "impl"):
                k = skip_to(u, j, hi, {";"})
                if k >= hi or t[k].k != "open":
                    if kw.s == "trait" and k < hi:      # trait alias
                        it.kind, it.defs, end, nested = "KItem", [t[j + 1].s], k + 1, []
                    else:
                        raise ParseFail("%s without body at %s" % (kw.s, u.where(j)))
                else:
                    end = u.match[k] + 1
                    if kw.s == "trait":
                        it.kind, it.defs = "KItem", [t[j + 1].s]
                        nested = [("header", j, k), ("assoc:KAssocTrait", k + 1, u.match[k])]
                    else:
                        it.kind = "KImpl"
                        is_trait_impl = any(u.is_(x, "id", "for") and not u.is_(x + 1, "p", "<") and u.parent[x] == u.parent[j]
                                            for x in range(j, k))
                        nested = [("header", j, k),
                                  ("assoc:" + ("KAssocTrait" if is_trait_impl else "KAssocInherent"), k + 1, u.match[k])]
            elif kw.s == "type":
                end = skip_to(u, j, hi, {";"}, brace_stops=False) + 1
                it.kind, it.defs = "KTypeAlias", [t[j + 1].s] if u.is_(j + 1, "id") else []
                nested = [("expr", j + 1, end)]
            elif kw.s in ("const", "static"):
                end = skip_to(u, j, hi, {";"}, brace_stops=False) + 1
                k = j + 1
                if u.is_(k, "id", "mut"):
                    k += 1
                it.kind, it.defs = "KItem", [t[k].s] if u.is_(k, "id") and t[k].s != "_" else []
                nested = [("expr", j + 1, end)]
            elif kw.s == "macro_rules" and u.is_(j + 1, "p", "!") and u.is_(j + 2, "id") and u.is_(j + 3, "open"):
                name = t[j + 2].s
                it.kind, it.defs = "KItem", [name]
                close = u.match[j + 3]
                end = close + 1
                if t[j + 3].s != "{" and u.is_(end, "p", ";"):
                    end += 1
                nested = []
                self.read_macro_rules(u, name, j + 4, close, mod, g_and(encl, own))
            elif u.is_(j + 1, "p", "!") or u.is_(j + 1, "p", "::"):
                # macro invocation in item position: path ! [ident] group [;]
                k = j
                while k < hi and not u.is_(k, "p", "!"):
                    if t[k].k not in ("id",) and not u.is_(k, "p", "::"):
                        raise ParseFail("item expected at " + u.where(j))
                    k += 1
                mname = t[k - 1].s
                k += 1
                if u.is_(k, "id"):
                    it.defs = [t[k].s]
                    k += 1
                if not u.is_(k, "open"):
                    raise ParseFail("macro invocation without arguments at " + u.where(j))
                close = u.match[k]
                end = close + 1
                if t[k].s != "{" and u.is_(end, "p", ";"):
                    end += 1
                it.kind = "KItem"
                self.c.macro_uses.append((mname, u.where(j), True))
                nested = [("macroarg", k + 1, close)]
            else:
                raise ParseFail("item expected at %s, found %r" % (u.where(j), kw.s))
            it.hi = end
            # the text attributed to the item itself: an inline module's body is a list of items of their own;
            # a macro_rules body is not resolved at its definition (item-shaped transcribers are read as items)
            it.scan_hi = end
            if it.kind == "KModule" and u.is_(j + 2, "open", "{"):
                it.scan_hi = j + 2
            if kw.k == "id" and kw.s == "macro_rules":
                it.scan_hi = j + 3
            for (h, gate) in cfg_hashes:
                self.occ(u, h, it.kind, gate, "module level" + (" in macro_rules transcriber" if in_macro else ""))
            # attributes of the item themselves may hide cfgs (e.g. inside derive helper attrs): scan them
            for (h, o, inner) in attrs:
                if attr_cfg(u, o) is None:
                    self.scan_nested(u, o + 1, u.match[o], "inside attribute")
            for (what, a, b) in nested:
                if what.startswith("assoc:"):
                    self.walk_assoc(u, a, b, what[6:])
                elif what == "macroarg":
                    self.scan_nested(u, a, b, "macro invocation arguments")
                    self.scan_macro_uses(u, a, b)
                else:
                    self.scan_nested(u, a, b, what)
                    self.scan_macro_uses(u, a, b)
            self.c.items.append(it)
            i = end

    def walk_assoc(self, u, lo, hi, kind):
        """associated items of an impl / trait body"""
        t = u.t
        i = lo
        while i < hi:
            if u.is_(i, "p", ";"):
                i += 1
                continue
            attrs, i2 = read_attrs(u, i, hi)
            for (h, o, inner) in attrs:
                r = attr_cfg(u, o)
                if r is None:
                    continue
                what, gate = r
                self.occ(u, h, "KCfgAttr" if what == "cfg_attr" else ("KInnerAttr" if inner else kind), gate, "associated item")
            i = i2
            if i >= hi:
                break
            k = skip_to(u, i, hi, {";"})
            if k < hi and t[k].k == "open":
                # fn body, or const/type with braces in a default: scan the body as a block
                is_fn = any(u.is_(x, "id", "fn") for x in range(i, k))
                if is_fn:
                    self.scan_nested(u, i, k, "header")
                    self.scan_nested(u, k + 1, u.match[k], "block")
                    self.scan_macro_uses(u, k + 1, u.match[k])
                    i = u.match[k] + 1
                else:
                    e = skip_to(u, i, hi, {";"}, brace_stops=False)
                    self.scan_nested(u, i, e, "expr")
                    i = e + 1
            else:
                self.scan_nested(u, i, k, "expr")
                i = k + 1

    def scan_macro_uses(self, u, lo, hi):
        for k in range(lo, hi):
            if u.is_(k, "id") and u.is_(k + 1, "p", "!") and u.is_(k + 2, "open") and u.t[k].s != "cfg":
                self.c.macro_uses.append((u.t[k].s, u.where(k), False))

    def read_macro_rules(self, u, name, lo, hi, mod, encl):
        """arms: (matcher) => {transcriber} ; ...   The transcriber is read as a list of items when it has
        that shape (so that cfg'd impls generated by a macro are in the item table); otherwise every cfg inside is
        classified as KMacroArg (not an item position the reader can vouch for)."""
        t = u.t
        i = lo
        had_cfg_items = False
        while i < hi:
            if u.is_(i, "p", ";"):
                i += 1
                continue
            if not u.is_(i, "open"):
                raise ParseFail("macro_rules arm expected at " + u.where(i))
            m_close = u.match[i]
            if not (u.is_(m_close + 1, "p", "=>") and u.is_(m_close + 2, "open")):
                raise ParseFail("macro_rules arm without => at " + u.where(i))
            a, b = m_close + 3, u.match[m_close + 2]
            has_cfg = any(u.is_(k, "id") and u.t[k].s in ("cfg", "cfg_attr") for k in range(a, b))
            if has_cfg:
                save = (len(self.c.items), len(self.c.occ), len(self.c.cfg_macros), len(self.c.macro_uses), list(self.pending))
                try:
                    self.walk_module(u, a, b, mod, encl, in_macro=True)
                    had_cfg_items = True
                except ParseFail:
                    del self.c.items[save[0]:]
                    del self.c.occ[save[1]:]
                    del self.c.cfg_macros[save[2]:]
                    del self.c.macro_uses[save[3]:]
                    self.pending[:] = save[4]
                    n0 = len(self.c.occ)
                    self.scan_nested(u, a, b, "macro_rules transcriber (not item-shaped)")
                    self.c.occ[n0:] = [(at, "KMacroArg", ctx, g) if k != "KCfgAttr" else (at, k, ctx, g)
                                       for (at, k, ctx, g) in self.c.occ[n0:]]
            i = u.match[m_close + 2] + 1
        if had_cfg_items:
            self.c.macro_defs[name] = u.where(lo)

    # ---- files

    def run(self):
        crate = self.c.name
        self.pending = []
        self.renames = {}
        root = Unit(crate, "src/lib.rs")
        self.c.files.append("src/lib.rs")
        try:
            self.walk_module(root, 0, len(root.t), "", ("true",))
            while self.pending:
                u, name, sub, encl = self.pending.pop(0)
                d = os.path.dirname(u.rel)
                base = os.path.basename(u.rel)
                if base not in ("lib.rs", "mod.rs", "main.rs"):
                    d = os.path.join(d, base[:-3])
                # nested inline modules would add directories; the reader only supports file modules declared
                # at the top level of a file
                sub_in_file = sub.split("::")
                cands = [os.path.join(d, name + ".rs"), os.path.join(d, name, "mod.rs")]
                found = [p for p in cands if os.path.exists(os.path.join(xf.REPO, crate, p))]
                if len(found) != 1:
                    raise Broken("%s: module `%s` declared at %s: expected exactly one of %s" % (crate, name, u.rel, cands))
                nu = Unit(crate, found[0])
                self.c.files.append(found[0])
                self.c.modules.add(sub)
                self.walk_module(nu, 0, len(nu.t), sub, encl)
        except ParseFail as e:
            raise Broken("%s: the source reader cannot split this file into items: %s" % (crate, e))
        # macros that generate cfg'd items must only be invoked in item position
        for (mname, at, module_level) in self.c.macro_uses:
            if mname in self.c.macro_defs and not module_level:
                self.c.occ.append((at, "KMacroArg", "macro `%s!` (which generates cfg'd items) invoked outside item position" % mname, ("true",)))
        return self.c


# ------------------------------------------------------------------------------------------- manifest

def crate_ident(dep):
    return dep.replace("-", "_")


def read_manifest(crate):
    if tomllib is None:
        raise Broken("python tomllib not available")
    try:
        man = tomllib.loads(xf.read(crate + "/Cargo.toml"))
        ws = tomllib.loads(xf.read("Cargo.toml"))
    except tomllib.TOMLDecodeError as e:
        raise Broken("%s/Cargo.toml: %s" % (crate, e))
    if man.get("package", {}).get("name") != crate:
        raise Broken("%s/Cargo.toml: package name is not %s" % (crate, crate))
    if "features" not in man:
        raise Broken("%s/Cargo.toml: no [features] table" % crate)
    wsdeps = ws.get("workspace", {}).get("dependencies", {})
    deps = {}
    tables = [man.get("dependencies", {})]
    for tgt in man.get("target", {}).values():
        tables.append(tgt.get("dependencies", {}))
    for tab in tables:
        for k, v in tab.items():
            spec = {"version": v} if isinstance(v, str) else dict(v)
            if spec.get("workspace"):
                base = wsdeps.get(k)
                if base is None:
                    raise Broken("%s/Cargo.toml: %s.workspace = true but no workspace dependency" % (crate, k))
                base = {"version": base} if isinstance(base, str) else dict(base)
                feats = list(base.get("features", [])) + list(spec.get("features", []))
                base.update({a: b for a, b in spec.items() if a not in ("workspace", "features")})
                base["features"] = feats
                spec = base
            deps[k] = spec
    optional = sorted(k for k, v in deps.items() if v.get("optional"))
    feats = {}
    used_dep_syntax = set()
    for f, entries in man["features"].items():
        if not isinstance(entries, list):
            raise Broken("%s/Cargo.toml: feature %s is not a list" % (crate, f))
        out = []
        for e in entries:
            if e.startswith("dep:"):
                d = e[4:]
                if d not in deps or not deps[d].get("optional"):
                    raise Broken("%s/Cargo.toml: feature %s names dep:%s which is not an optional dependency" % (crate, f, d))
                used_dep_syntax.add(d)
                out.append(("dep", d))
            elif "/" in e:
                d, df = e.split("/", 1)
                weak = d.endswith("?")
                d = d.rstrip("?")
                if d not in deps:
                    raise Broken("%s/Cargo.toml: feature %s names %s of an unknown dependency" % (crate, f, e))
                out.append(("depfeat", d, df, weak))
            else:
                out.append(("feat", e))
        feats[f] = out
    # implicit features of optional dependencies never named with dep:
    for d in optional:
        if d not in used_dep_syntax and d not in feats:
            feats[d] = [("dep", d)]
    for f, es in feats.items():
        for e in es:
            if e[0] == "feat" and e[1] not in feats:
                raise Broken("%s/Cargo.toml: feature %s implies unknown feature %s" % (crate, f, e[1]))
    if "default" not in feats:
        feats["default"] = []
    base_feats = sorted((d, f) for d, v in deps.items() for f in v.get("features", []))
    return {"features": feats, "optional": optional, "deps": sorted(deps), "base_depfeats": base_feats,
            "all_depfeats": sorted({(e[1], e[2]) for es in feats.values() for e in es if e[0] == "depfeat"} | set(base_feats))}


# ------------------------------------------------------------------------------------------- references

def nested_extent(u, h, nxt, hi):
    """end (exclusive) of what the attributes at [h,nxt) decorate, inside an item"""
    t = u.t
    par = u.parent[h]
    end = u.match[par] if par >= 0 else hi
    end = min(end, hi)
    if nxt >= end:
        return end
    if u.is_(nxt, "open", "{"):
        return u.match[nxt] + 1
    tk = t[nxt]
    item_like = tk.k == "id" and tk.s in ITEM_KW and tk.s not in ("unsafe", "async", "pub") or \
        (tk.k == "id" and tk.s in ("pub", "unsafe", "async") and any(u.is_(q, "id") and t[q].s in ("fn", "struct", "enum", "impl", "mod", "trait", "type", "const", "static", "use") for q in range(nxt + 1, min(nxt + 5, end))))
    k = nxt
    seen_arrow = False
    while k < end:
        x = t[k]
        if x.k == "open":
            if x.s == "{" and (item_like or seen_arrow) and not (item_like and tk.s in ("use", "type", "const", "static")):
                e = u.match[k] + 1
                if u.is_(e, "p", ",") or u.is_(e, "p", ";"):
                    e += 1
                return e
            k = u.match[k] + 1
            continue
        if x.k == "p" and x.s == "=>":
            seen_arrow = True
        if x.k == "p" and x.s in (";", ","):
            return k + 1
        k += 1
    return end


def parent_mod(m):
    return m.rsplit("::", 1)[0] if "::" in m else ""


def resolve_refs(c, man, renames):
    """fills crates / depfeats / refs of every item"""
    opt = {crate_ident(d): d for d in man["optional"]}
    for alias, real in renames.items():
        if real in opt:
            opt[alias] = opt[real]
    # `use optional_crate as alias;`
    for it in c.items:
        if it.kind == "KUse":
            u = it.unit
            toks = [x for x in u.t[it.lo:it.hi]]
            ids = [x.s for x in toks if x.k == "id"]
            if len(ids) >= 4 and ids[-2] == "as" and ids[-3] in opt and ids[-4] == "use":
                opt[ids[-1]] = opt[ids[-3]]
    depfeat_names = {}
    for (d, f) in man["all_depfeats"]:
        depfeat_names.setdefault(crate_ident(d), set()).add(f)
    definers = {}
    for idx, it in enumerate(c.items):
        for n in it.defs:
            definers.setdefault((it.mod, n), []).append(idx)
    globs = {}
    for it in c.items:
        for g in it.globs:
            globs.setdefault(it.mod, []).append((g, it))

    def is_module(m, n):
        sub = (m + "::" + n) if m else n
        return sub in c.modules and (m, n) in definers

    def glob_target(m, path):
        cur = m
        segs = list(path)
        if segs and segs[0] == "crate":
            cur, segs = "", segs[1:]
        while segs and segs[0] == "super":
            cur, segs = parent_mod(cur), segs[1:]
        if segs and segs[0] == "self":
            segs = segs[1:]
        for s in segs:
            if not is_module(cur, s):
                return None
            cur = (cur + "::" + s) if cur else s
        return cur

    sub_items = []
    occ_kind = {at: k for (at, k, ctx, g) in c.occ}
    for idx, it in enumerate(list(c.items)):
        u, t = it.unit, it.unit.t
        crates, dfs, refs = [], [], []
        # names defined inside the item (inner use / items / generics are not tracked: only inner items and uses)
        local = set()
        # find the start of the item proper (after attributes)
        _, body0 = read_attrs(u, it.lo, it.scan_hi)
        # nested cfg-decorated regions (statements, fields, arms, associated items ...): each becomes a sub-item
        # whose gate is the conjunction; the text of the region is not attributed to the enclosing item
        regions = []
        k = body0
        while k < it.scan_hi:
            if u.is_(k, "p", "#"):
                attrs, nxt = read_attrs(u, k, it.scan_hi)
                g = ("true",)
                for (h, o, inner) in attrs:
                    r = attr_cfg(u, o)
                    if r is not None and r[0] == "cfg" and not inner:
                        g = g_and(g, r[1])
                if attrs and g != ("true",):
                    e = nested_extent(u, k, nxt, it.scan_hi)
                    regions.append((k, nxt, e, g))
                    k = e
                    continue
                k = max(nxt, k + 1)
                continue
            k += 1
        ranges = []
        a = body0
        for (rk, rn, re_, rg) in regions:
            if a < rk:
                ranges.append((a, rk))
            a = re_
        if a < it.scan_hi:
            ranges.append((a, it.scan_hi))
        for k in range(body0, it.scan_hi):
            if u.parent[k] != u.parent[it.lo] and t[k].k == "id":
                if t[k].s == "use":
                    e = skip_to(u, k, it.scan_hi, {";"}, brace_stops=False)
                    try:
                        names, _ = use_leaves(u, k + 1, e)
                        local.update(names)
                    except ParseFail:
                        pass
                elif t[k].s in ("fn", "struct", "enum", "type", "trait", "const", "static", "mod", "union") and u.is_(k + 1, "id"):
                    # only items declared in blocks (not assoc fns of this impl: those are reached by path)
                    par = u.parent[k]
                    if it.kind == "KFn" or (par >= 0 and u.parent[par] != u.parent[it.lo]):
                        local.add(t[k + 1].s)

        def add_ref(m, n):
            ds = definers.get((m, n))
            if not ds:
                return False
            if idx in ds and len(ds) == 1:
                return True
            if any(c.items[d].gate == ("true",) for d in ds):
                return True            # unconditionally available whenever the module is
            if (m, n) not in refs:
                refs.append((m, n))
            return True

        def follow(cur, k):
            """t[k] is an identifier to resolve in module cur; follows `::` through local modules"""
            while True:
                n = t[k].s
                if not add_ref(cur, n):
                    # glob imports of local modules
                    for (gp, git) in globs.get(cur, []):
                        tgt = glob_target(cur, gp)
                        if tgt is not None and (tgt, n) in definers:
                            add_ref(tgt, n)
                    return
                if is_module(cur, n) and u.is_(k + 1, "p", "::"):
                    cur = (cur + "::" + n) if cur else n
                    if u.is_(k + 2, "id"):
                        k += 2
                        continue
                    if u.is_(k + 2, "open", "{"):
                        group(cur, k + 3, u.match[k + 2])
                return

        def group(cur, a, b):
            k = a
            expect = True
            while k < b:
                x = t[k]
                if x.k == "open":
                    k = u.match[k] + 1
                    continue
                if x.k == "p" and x.s == ",":
                    expect = True
                elif x.k == "id" and expect:
                    if x.s not in ("self", "super", "crate"):
                        follow(cur, k)
                    expect = False
                k += 1

        def scan_tokens(lo_, hi_):
            k = lo_
            while k < hi_:
                x = t[k]
                if x.k != "id":
                    k += 1
                    continue
                prev_path = u.is_(k - 1, "p", "::") and k - 1 >= lo_
                prev_dot = u.is_(k - 1, "p", ".")
                nxt_path = u.is_(k + 1, "p", "::")
                # ---- optional crates and their feature-gated paths
                if x.s in opt and (nxt_path or u.is_(k - 1, "id", "use") or (u.is_(k - 1, "id", "crate") and u.is_(k - 2, "id", "extern"))) \
                        and (not prev_path or not u.is_(k - 2, "id")) and not prev_dot:
                    if opt[x.s] not in crates:
                        crates.append(opt[x.s])
                if x.s in depfeat_names and nxt_path and (not prev_path or not u.is_(k - 2, "id")) and not prev_dot:
                    real = x.s
                    if u.is_(k + 2, "id") and t[k + 2].s in depfeat_names[real]:
                        pair = (real, t[k + 2].s)
                        if pair not in dfs:
                            dfs.append(pair)
                    elif u.is_(k + 2, "open", "{"):
                        a, b = k + 3, u.match[k + 2]
                        exp = True
                        for q in range(a, b):
                            if u.parent[q] != k + 2:
                                continue
                            if t[q].k == "p" and t[q].s == ",":
                                exp = True
                            elif t[q].k == "id" and exp:
                                if t[q].s in depfeat_names[real] and (real, t[q].s) not in dfs:
                                    dfs.append((real, t[q].s))
                                exp = False
                # ---- names of this crate
                if prev_path or prev_dot:
                    k += 1
                    continue
                if x.s in ("crate", "super", "self") and nxt_path:
                    cur = it.mod
                    q = k
                    if x.s == "crate":
                        cur = ""
                        q = k + 2
                    elif x.s == "self":
                        q = k + 2
                    else:
                        while u.is_(q, "id", "super") and u.is_(q + 1, "p", "::"):
                            cur = parent_mod(cur)
                            q += 2
                    if u.is_(q, "id"):
                        follow(cur, q)
                    elif u.is_(q, "open", "{"):
                        group(cur, q + 1, u.match[q])
                    k = q
                    # skip the rest of the path
                    while u.is_(k, "id") and u.is_(k + 1, "p", "::"):
                        k += 2
                    k += 1
                    continue
                if x.s in local or (x.s in it.defs and it.kind != "KUse"):
                    k += 1
                    continue
                if u.is_(k - 1, "id") and t[k - 1].s in ("fn", "struct", "enum", "type", "trait", "const", "static", "mod", "union", "let", "as") \
                        and it.kind != "KUse":
                    k += 1
                    continue
                if it.kind == "KUse" and u.is_(k - 1, "id", "as"):
                    k += 1
                    continue
                if x.s in ("use", "pub", "as", "in", "for", "impl", "where", "fn", "let", "mut", "ref", "dyn", "Self"):
                    k += 1
                    continue
                follow(it.mod, k)
                while u.is_(k, "id") and u.is_(k + 1, "p", "::"):
                    k += 2
                k += 1

        for (ra, rb) in ranges:
            scan_tokens(ra, rb)
        it.crates, it.depfeats, it.refs = crates, dfs, refs
        for (rk, rn, re_, rg) in regions:
            crates, dfs, refs = [], [], []
            scan_tokens(rn, re_)
            sub = Item()
            sub.unit, sub.mod, sub.encl, sub.in_macro = u, it.mod, it.encl, it.in_macro
            sub.gate = g_and(it.gate, rg)
            sub.at = u.where(rk)
            sub.kind = occ_kind.get(sub.at, "KStatement")
            sub.lo, sub.hi, sub.scan_hi = rk, re_, re_
            sub.crates, sub.depfeats, sub.refs = crates, dfs, refs
            sub_items.append(sub)
    c.items.extend(sub_items)
    return opt


# ------------------------------------------------------------------------------------------- output

def qs(s):
    if '"' in s or "\\" in s or not re.fullmatch(r"[ -~]*", s):
        raise Broken("string %r is not plain printable ASCII" % s)
    return '"%s"' % s


def lst(xs):
    return "[" + "; ".join(xs) + "]"


def edge_coq(e):
    if e[0] == "feat":
        return "EFeat %s" % qs(e[1])
    if e[0] == "dep":
        return "EDep %s" % qs(crate_ident(e[1]))
    return "EDepFeat %s %s %s" % (qs(crate_ident(e[1])), qs(e[2]), "true" if e[3] else "false")


def read_crate(crate):
    man = read_manifest(crate)
    rd = Reader(crate)
    c = rd.run()
    resolve_refs(c, man, rd.renames)
    return man, c


EXPECT = {
    # anchors named by the property: these patterns must still be there, else the tie is broken
    "paseto-v1": ["signing", "verifying", "encrypting", "decrypting", "paserk", "id", "pbkw", "pie-wrap", "pke"],
    "paseto-v2": ["signing", "verifying", "encrypting", "decrypting", "paserk", "id", "pbkw", "pie-wrap", "pke"],
    "paseto-v3": ["signing", "verifying", "encrypting", "decrypting", "paserk", "id", "pbkw", "pie-wrap", "pke"],
    "paseto-v4": ["signing", "verifying", "encrypting", "decrypting", "paserk", "id", "pbkw", "pie-wrap", "pke"],
    "paseto-core": ["serde"],
    "paseto-json": ["claims"],
}


def check_expectations(crate, man, c):
    feats = man["features"]
    for f in EXPECT[crate]:
        if f not in feats:
            raise Broken("%s/Cargo.toml: documented feature `%s` is no longer declared" % (crate, f))
    extra = sorted(set(feats) - set(EXPECT[crate]) - {"default"})
    if extra:
        raise Broken("%s/Cargo.toml: features %s are not in the documented set quantified over by C19" % (crate, extra))
    if not c.items:
        raise Broken("%s: no items read" % crate)
    gated = [it for it in c.items if it.gate != ("true",)]
    if not gated:
        raise Broken("%s: no #[cfg(feature = ..)]-gated item found under src/" % crate)
    if crate.startswith("paseto-v"):
        mods = {it.defs[0] for it in c.items if it.kind == "KModule" and it.mod == "core" and it.gate != ("true",)}
        for m in ("local", "public"):
            if m not in mods:
                raise Broken("%s/src/core/mod.rs: expected a cfg-gated `mod %s;`" % (crate, m))


def features_text():
    out = ["From Coq Require Import String List.", "From PV Require Import FeatureRules.",
           "Import ListNotations.", "Local Open Scope string_scope.", ""]
    for crate in CRATES:
        man, c = read_crate(crate)
        check_expectations(crate, man, c)
        name = COQ_NAME[crate]
        feats = man["features"]
        order = sorted(feats, key=lambda f: (f != "default", f))
        out.append("(* ======================= %s ======================= *)" % crate)
        out.append("Definition %s_features : list (string * list edge) :=\n  [ %s ]." % (name, ";\n    ".join(
            "(%s, %s)" % (qs(f), lst([edge_coq(e) for e in feats[f]])) for f in order)))
        items = []
        for it in c.items:
            parent = []
            if it.mod:
                parent = ["(%s, %s)" % (qs(parent_mod(it.mod)), qs(it.mod.rsplit("::", 1)[-1]))]
            items.append("{| i_at := %s; i_kind := %s; i_mod := %s; i_defs := %s;\n       i_gate := %s; i_encl := %s; i_parent := %s;\n       i_crates := %s; i_depfeats := %s; i_refs := %s |}" % (
                qs(it.at), it.kind, qs(it.mod), lst([qs(d) for d in it.defs]), gate_coq(it.gate), gate_coq(it.encl), lst(parent),
                lst([qs(crate_ident(x)) for x in it.crates]),
                lst(["(%s, %s)" % (qs(a), qs(b)) for a, b in it.depfeats]),
                lst(["(%s, %s)" % (qs(a), qs(b)) for a, b in it.refs])))
        out.append("Definition %s_items : list item :=\n  [ %s ]." % (name, ";\n    ".join(items)))
        occ = ["{| o_at := %s; o_kind := %s; o_pred := %s |} (* %s *)" % (qs(at), kind, gate_coq(g), ctx.replace("*)", "* )"))
               for (at, kind, ctx, g) in c.occ]
        body = ";\n    ".join(occ)
        # the trailing comment of the last element must stay inside the brackets
        out.append("Definition %s_cfgs : list cfg_occ :=\n  [ %s\n  ]." % (name, body))
        out.append("Definition %s : crate_table :=\n  {| c_name := %s; c_features := %s_features; c_optional := %s;\n     c_base_depfeats := %s;\n     c_items := %s_items; c_cfgs := %s_cfgs; c_cfg_macros := %s |}.\n" % (
            name, qs(crate), name, lst([qs(crate_ident(d)) for d in man["optional"]]),
            lst(["(%s, %s)" % (qs(crate_ident(a)), qs(b)) for a, b in man["base_depfeats"]]),
            name, name, lst([qs(x) for x in c.cfg_macros])))
    out.append("Definition gen_crates : list crate_table := %s." % lst([COQ_NAME[c] for c in CRATES]))
    return "\n".join(out) + "\n"


GEN_HEADER = "(* GENERATED by tools/extract_facts.py from /repo — do not edit; regenerated on every check *)\n"


def gen_features():
    xf.write_gen("Features.v", features_text())


def dump_json():
    """used by tools/c19_harness.py: the same facts as JSON (features, edges, optional deps) on stdout"""
    import json
    res = {}
    for crate in CRATES:
        man, c = read_crate(crate)
        res[crate] = {
            "coq": COQ_NAME[crate],
            "features": {f: [list(e) for e in es] for f, es in man["features"].items()},
            "optional": man["optional"],
            "n_items": len(c.items), "n_gated": len([i for i in c.items if i.gate != ("true",)]),
            "n_cfgs": len(c.occ), "files": c.files,
            "bad_cfgs": [[at, k, ctx] for (at, k, ctx, g) in c.occ if k not in ALLOWED_KINDS and gate_feats(g)],
            "feature_free_cfgs": [[at, k, gate_coq(g)] for (at, k, ctx, g) in c.occ if not gate_feats(g)],
            "cfg_macros": c.cfg_macros,
        }
    return res


TARGETS = {"features": gen_features}

if __name__ == "__main__":
    import json
    try:
        print(json.dumps(dump_json(), indent=1))
    except Broken as e:
        print("extract_facts[features]: %s" % e)
        sys.exit(1)
