"""facts_macs.py — translator plug-in, target "macs": every sequence of `<receiver>.update(<bytes>)` calls in the PASERK
operations of the six backends (pie_wrap.rs, pw_wrap.rs, pke.rs) becomes a Gallina function from the byte strings the
sequence mentions (in the order in which they first occur in the enclosing fn) to the list of fragments fed to the MAC / hash, in order.  Writes
coq/theories/Gen/MacSites.v.  MacSiteRules.v proves each of them equal to the model's input for that MAC / hash / KDF.

A sequence = the updates of one receiver identifier inside one fn, split where the receiver is declared again
(`let mut mac = ...`) or finalised (`mac.finalize_reset()`).  A fragment may be:  b"literal" (escapes \\xNN allowed) | <ident> | &<ident> | [<ident>] | &[<ident>]
| <ident>.<method>() for a few view methods (as_bytes, as_ref, as_slice, raw_secret_bytes, to_bytes) — anything else
stops the translation."""
import re
import extract_facts as X
from facts_pae import matching, coq_ident

BACKENDS = ["paseto-v1", "paseto-v2", "paseto-v3", "paseto-v3-aws-lc", "paseto-v4", "paseto-v4-sodium"]
FILES = ["pie_wrap.rs", "pw_wrap.rs", "pke.rs"]
VIEWS = ("as_bytes", "as_ref", "as_slice", "raw_secret_bytes", "to_bytes")


def literal(body):
    out = bytearray()
    i = 0
    while i < len(body):
        c = body[i]
        if c == "\\":
            n = body[i + 1]
            if n == "x":
                out.append(int(body[i + 2:i + 4], 16))
                i += 4
                continue
            if n in "\\\"'":
                out.append(ord(n))
            elif n == "n":
                out.append(10)
            elif n == "0":
                out.append(0)
            else:
                raise X.Broken("unknown escape \\%s in a byte literal" % n)
            i += 2
            continue
        out.append(ord(c))
        i += 1
    if all(32 <= b < 127 and b not in (34, 92) for b in out):
        return 'str "%s"' % out.decode()
    return 'hex "%s"' % out.hex()


def fns(src):
    """(name, body start, body end) of every fn with a body"""
    out = []
    for m in re.finditer(r"\bfn\s+(\w+)\s*(?:<[^>]*>)?\s*\(", src):
        close = matching(src, m.end() - 1, "(", ")")
        brace = src.find("{", close)
        semi = src.find(";", close)
        if brace < 0 or (0 <= semi < brace):
            continue
        out.append((m.group(1), brace, matching(src, brace, "{", "}")))
    return out


def gen_macs():
    defs = []
    table = []
    for be in BACKENDS:
        for fl in FILES:
            rel = "%s/src/core/%s" % (be, fl)
            src = X.strip_comments(X.read(rel))
            allf = fns(src)
            ups = []
            for m in re.finditer(r"\b(\w+)\.update\s*\(", src):
                close = matching(src, m.end() - 1, "(", ")")
                arg = re.sub(r"\s+", "", src[m.end():close])
                inner = None
                for name, b0, b1 in allf:
                    if b0 < m.start() < b1 and (inner is None or b0 > inner[1]):
                        inner = (name, b0, b1)
                if inner is None:
                    raise X.Broken("%s: update call outside any fn" % rel)
                ups.append((m.start(), inner, m.group(1), arg))
            seqs = []  # (fn name, receiver, [args])
            for pos, inner, recv, arg in ups:
                last = None
                for s in reversed(seqs):
                    if s["fn"] == inner and s["recv"] == recv:
                        last = s
                        break
                # a new sequence starts where the receiver is declared again or was finalised in between
                redeclared = last is not None and re.search(r"\blet\s+(?:mut\s+)?%s\b|\b%s\s*\.\s*(?:finalize\w*|sign|verify\w*|finish\w*)\s*\(" % (re.escape(recv), re.escape(recv)), src[last["end"]:pos])
                if last is None or redeclared:
                    last = {"fn": inner, "recv": recv, "args": [], "end": pos}
                    seqs.append(last)
                last["args"].append(arg)
                last["end"] = pos
            base = "mac_" + coq_ident(rel.replace("/src/core/", "_").replace(".rs", ""))
            for k, s in enumerate(seqs):
                params, frags = [], []
                for a in s["args"]:
                    mm = re.fullmatch(r'b"((?:[^"\\]|\\.)*)"', a)
                    if mm:
                        frags.append(literal(mm.group(1)))
                        continue
                    mm = re.fullmatch(r"&?\[(\w+)\]", a) or re.fullmatch(r"&?\*?(\w+)(?:\[\.\.\])?(?:\.(\w+)\(\))?", a)
                    if not mm or (mm.lastindex and mm.lastindex >= 2 and mm.group(2) and mm.group(2) not in VIEWS):
                        raise X.Broken("%s fn %s: fragment %r of %s.update is none of: byte literal, identifier, [identifier], identifier.view()" % (rel, s["fn"][0], a, s["recv"]))
                    v = coq_ident(mm.group(1))
                    if v not in params:
                        params.append(v)
                    frags.append(v)
                # parameters in the order in which the identifiers first occur in the enclosing fn (signature included):
                # independent of their names and of the order of the updates, so that swapping two updates changes
                # the function while renaming a variable does not
                fn_text_start = src.rfind("fn ", 0, s["fn"][1])
                fn_text = src[fn_text_start:s["fn"][2]]
                def first_pos(v):
                    mm = re.search(r"\b%s\b" % re.escape(v), fn_text)
                    return mm.start() if mm else len(fn_text)
                raw_names = {}
                for a in s["args"]:
                    mm = re.fullmatch(r"&?\[(\w+)\]", a) or re.fullmatch(r"&?\*?(\w+)(?:\[\.\.\])?(?:\.(\w+)\(\))?", a)
                    if mm and not a.startswith('b"'):
                        raw_names[coq_ident(mm.group(1))] = mm.group(1)
                params.sort(key=lambda v: first_pos(raw_names.get(v, v)))
                name = "%s_%d" % (base, k)
                defs.append("Definition %s%s : list bytes :=\n  [%s]." % (name, (" (" + " ".join(params) + " : bytes)") if params else "", "; ".join(frags)))
                table.append((rel, s["fn"][0], s["recv"], len(params), len(frags)))
    if not table:
        raise X.Broken("no update sequence found")
    out = ["From Coq Require Import List String NArith.", "From PV Require Import Bytes.", "Import ListNotations.", "Local Open Scope string_scope.", ""]
    out += defs
    out.append("")
    out.append("(* source file, fn, receiver, number of distinct byte strings mentioned, number of fragments *)")
    out.append("Definition gen_mac_sites : list (String.string * String.string * String.string * N * N) :=\n  [ %s ]." % ";\n    ".join(
        '("%s", "%s", "%s", %d%%N, %d%%N)' % t for t in table))
    X.write_gen("MacSites.v", "\n".join(out) + "\n")


TARGETS = {"macs": gen_macs}
