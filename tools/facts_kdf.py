"""facts_kdf.py — translator plug-in, target "kdf": the domain-separation constant of every `kdf(...)` call in the six
backends (local.rs, pie_wrap.rs, pw_wrap.rs), in source order.  Writes coq/theories/Gen/KdfSites.v.  The constant is the
second argument: a string or byte-string literal ("paseto-encryption-key"), a byte (0x80) or a one-byte slice
(&[0x80]); anything else stops the translation.  KdfSiteRules.v restates the model's key derivations with the
regenerated constants in the place of its own."""
import re
import extract_facts as X
from facts_pae import matching, split_top

BACKENDS = ["paseto-v1", "paseto-v2", "paseto-v3", "paseto-v3-aws-lc", "paseto-v4", "paseto-v4-sodium"]
FILES = ["local.rs", "pie_wrap.rs", "pw_wrap.rs"]


def gen_kdf():
    rows = []
    for be in BACKENDS:
        for fl in FILES:
            rel = "%s/src/core/%s" % (be, fl)
            src = X.strip_comments(X.read(rel))
            for m in re.finditer(r"(?<![\w.])kdf\s*(?:::\s*<[^>]*>)?\s*\(", src):
                if re.search(r"\bfn\s+$", src[:m.start()]):
                    continue
                close = matching(src, m.end() - 1, "(", ")")
                args = split_top(src[m.end():close])
                if len(args) < 2:
                    raise X.Broken("%s: kdf call with %d argument(s)" % (rel, len(args)))
                a = re.sub(r"\s+", "", args[1])
                mm = re.fullmatch(r'b?"([ -!#-\[\]-~]*)"', a)
                if mm:
                    rows.append((rel, 'str "%s"' % mm.group(1)))
                    continue
                mm = re.fullmatch(r"&?\[?0[xX]([0-9a-fA-F]{2})\]?", a)
                if mm:
                    rows.append((rel, 'hex "%s"' % mm.group(1).lower()))
                    continue
                raise X.Broken("%s: the domain-separation argument %r of kdf is neither a literal nor a byte" % (rel, a))
    if not rows:
        raise X.Broken("no kdf call found")
    out = ["From Coq Require Import List String.", "From PV Require Import Bytes.", "Import ListNotations.", "Local Open Scope string_scope.", "",
           "(* source file, domain-separation constant of the kdf call; in source order *)",
           "Definition gen_kdf_sites : list (String.string * bytes) :=\n  [ %s ]." % ";\n    ".join('("%s", %s)' % r for r in rows)]
    X.write_gen("KdfSites.v", "\n".join(out) + "\n")


TARGETS = {"kdf": gen_kdf}
