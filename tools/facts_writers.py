"""facts_writers.py — translator plug-in, target "writers": every `impl WriteBytes for T` of the workspace (the sinks
`pre_auth_encode` writes into: Vec<u8>, &mut W, and the digest / MAC / signature adapters of the backends).  Writes
coq/theories/Gen/Writers.v: source file, self type, and the SHAPE of the body of `fn write(&mut self, p: &[u8])`:

    "update"   self.0.update(p)           (p handed unchanged to the wrapped hash / MAC / stream verifier)
    "extend"   self.extend_from_slice(p)  (appended to the buffer)
    "deref"    W::write(self, p)          (the &mut W forwarding impl)
    otherwise  the body text without white space (WriterRules.v accepts only the three shapes above)

C15: "streaming writers receive exactly the same byte sequence as a buffer would" — an adapter that buffers, reorders,
skips or splits what it is given is no longer one of the three shapes."""
import glob
import os
import re
import extract_facts as X

CRATES = ["paseto-core", "paseto-v1", "paseto-v2", "paseto-v3", "paseto-v3-aws-lc", "paseto-v4", "paseto-v4-sodium", "paseto-json"]


def strip_test_modules(src):
    out, i = "", 0
    for m in re.finditer(r"#\[cfg\(test\)\]\s*mod\s+\w+\s*\{", src):
        if m.start() < i:
            continue
        body = X.block_at(src, m.end() - 1)
        out += src[i:m.start()]
        i = m.end() + len(body) + 1
    return out + src[i:]


def gen_writers():
    rows = []
    for crate in CRATES:
        for path in sorted(glob.glob(os.path.join(X.REPO, crate, "src", "**", "*.rs"), recursive=True)):
            rel = os.path.relpath(path, X.REPO)
            src = strip_test_modules(X.strip_comments(open(path, encoding="utf-8").read()))
            for m in re.finditer(r"\bimpl\s*(?:<[^{]*?>)?\s*(?:[\w:]+::)?WriteBytes\s+for\s+([^{]+?)\s*\{", src):
                ty = re.sub(r"\s+", "", m.group(1))
                body = X.block_at(src, m.end() - 1)
                fns = list(re.finditer(r"\bfn\s+(\w+)\s*\(([^)]*)\)\s*(?:->[^{]+)?\{", body))
                if len(fns) != 1 or fns[0].group(1) != "write":
                    raise X.Broken("%s: impl WriteBytes for %s does not consist of exactly `fn write`" % (rel, ty))
                pm = re.fullmatch(r"\s*&mut\s+self\s*,\s*(\w+)\s*:\s*&\s*\[\s*u8\s*\]\s*,?\s*", fns[0].group(2))
                if not pm:
                    raise X.Broken("%s: unexpected signature of write in impl WriteBytes for %s" % (rel, ty))
                p = pm.group(1)
                fb = re.sub(r"\s+", "", X.block_at(body, fns[0].end() - 1)).rstrip(";")
                if fb == "self.0.update(%s)" % p:
                    shape = "update"
                elif fb == "self.extend_from_slice(%s)" % p:
                    shape = "extend"
                elif fb == "W::write(self,%s)" % p:
                    shape = "deref"
                else:
                    if '"' in fb or "\\" in fb:
                        raise X.Broken("%s: body of write for %s contains a quote" % (rel, ty))
                    shape = fb
                rows.append((rel, ty.replace('"', ""), shape))
    if not rows:
        raise X.Broken("no impl WriteBytes found")
    out = ["From Coq Require Import List String.", "Import ListNotations.", "Local Open Scope string_scope.", "",
           "(* source file, self type, shape of `fn write` *)",
           "Definition gen_writers : list (string * string * string) :=\n  [ %s ]." % ";\n    ".join('("%s", "%s", "%s")' % r for r in rows)]
    X.write_gen("Writers.v", "\n".join(out) + "\n")


TARGETS = {"writers": gen_writers}
