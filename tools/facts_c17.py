"""facts_c17.py — translator plug-in, target "sharing": what could make a shared key behave differently under
concurrent use or after failed operations (C17).  Writes Gen/Sharing.v:
  - interior-mutability / global-state tokens in the library sources (outside the cfg-gated verification hook);
  - methods of the backends taking `&mut self`;
  - `unsafe impl Send/Sync` items;
  - for the aws-lc FFI wrappers (lc/mod.rs): per function, the receiver kind, the FFI functions it calls and the
    receivers on which `as_mut()` is taken."""
import glob, os, re
import extract_facts as X

CRATES = ["paseto-core", "paseto-json", "paseto-v1", "paseto-v2", "paseto-v3", "paseto-v3-aws-lc", "paseto-v4", "paseto-v4-sodium"]
MUT_TOKENS = r"\b(?:Cell|RefCell|UnsafeCell|OnceCell|OnceLock|LazyLock|Lazy|Mutex|RwLock|Atomic\w+|thread_local|static\s+mut)\b"


def q(s):
    return '"%s"' % s.replace('"', "'")


def gen_sharing():
    mut_tokens, mut_self, unsafe_impls = [], [], []
    for crate in CRATES:
        for path in sorted(glob.glob(os.path.join(X.REPO, crate, "src", "**", "*.rs"), recursive=True)):
            rel = os.path.relpath(path, X.REPO)
            if rel.endswith("verif_hooks.rs"):
                # the verification hook is skipped only while it is compiled out of normal builds
                lib = X.strip_comments(X.read(crate + "/src/lib.rs"))
                if re.search(r"#\[cfg\(paseto_rs_verif\)\]\s*pub\s+mod\s+verif_hooks\s*;", lib):
                    continue
            src = X.strip_comments(open(path, encoding="utf-8").read())
            src = re.sub(r'"(?:[^"\\]|\\.)*"', '""', src)
            for m in re.finditer(MUT_TOKENS, src):
                mut_tokens.append((rel, re.sub(r"\s+", " ", m.group(0))))
            for m in re.finditer(r"\bfn\s+(\w+)\s*(?:<[^>]*>)?\s*\(\s*&\s*(?:'\w+\s+)?mut\s+self\b", src):
                mut_self.append((rel, m.group(1)))
            for m in re.finditer(r"\bunsafe\s+impl(?:<[^>]*>)?\s+(Send|Sync)\s+for\s+([\w:<>, ]+?)\s*\{", src):
                unsafe_impls.append((rel, m.group(1), m.group(2).strip()))
    # the aws-lc wrappers
    rel = "paseto-v3-aws-lc/src/lc/mod.rs"
    src = X.strip_comments(X.read(rel))
    ffi_names = set()
    m = re.search(r"use\s+aws_lc::\{([^}]*)\}", src, flags=re.S)
    if not m:
        raise X.Broken("lc/mod.rs: the `use aws_lc::{...}` list of FFI functions was not found")
    for n in re.split(r"[,\s]+", m.group(1)):
        if n and n[0].isupper() and not n.isupper() or re.match(r"^[A-Z]+_\w+", n or ""):
            if re.match(r"^[A-Z0-9]+_\w*[a-z]\w*$", n):
                ffi_names.add(n)
    fns = []
    for fm in re.finditer(r"\bfn\s+(\w+)\s*(?:<[^>]*>)?\s*\(([^)]*)\)[^{]*\{", src):
        name, params = fm.group(1), fm.group(2)
        body = X.block_at(src, fm.end() - 1)
        recv = "&mut self" if re.search(r"&\s*mut\s+self", params) else "&self" if re.search(r"&\s*self", params) else "self" if re.search(r"\bself\b", params) else "none"
        calls = sorted(set(re.findall(r"\b(%s)\s*\(" % "|".join(sorted(ffi_names)), body))) if ffi_names else []
        as_mut = sorted(set(re.sub(r"\s+", "", r) for r in re.findall(r"([\w\.]+)\s*\.\s*as_mut\s*\(\s*\)", body)))
        fns.append((name, recv, calls, as_mut))
    if not any(f[0] == "sign" for f in fns) or not any(f[0] == "verify" for f in fns):
        raise X.Broken("lc/mod.rs: sign / verify not found")
    out = ["From Coq Require Import List String.", "Import ListNotations.", "Local Open Scope string_scope.", "",
           "(* file, token: interior mutability or global mutable state in library code *)",
           "Definition gen_mut_tokens : list (string * string) := [%s]." % "; ".join("(%s, %s)" % (q(a), q(b)) for a, b in mut_tokens),
           "(* file, method taking &mut self *)",
           "Definition gen_mut_self_methods : list (string * string) := [%s]." % "; ".join("(%s, %s)" % (q(a), q(b)) for a, b in mut_self),
           "(* file, trait, type *)",
           "Definition gen_unsafe_impls : list (string * string * string) := [%s]." % "; ".join("(%s, %s, %s)" % (q(a), q(b), q(c)) for a, b, c in unsafe_impls),
           "(* lc/mod.rs: fn, receiver, FFI functions called, receivers of as_mut() *)",
           "Definition gen_lc_fns : list (string * string * list string * list string) :=\n  [ %s ]." % ";\n    ".join(
               "(%s, %s, [%s], [%s])" % (q(n), q(r), "; ".join(q(c) for c in cs), "; ".join(q(a) for a in am)) for n, r, cs, am in fns)]
    X.write_gen("Sharing.v", "\n".join(out) + "\n")


TARGETS = {"sharing": gen_sharing}
