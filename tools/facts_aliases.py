"""facts_aliases.py — translator plug-in, target "aliases": the crate-level `pub type` aliases of the six
backends (paseto_vN::SecretKey, ::PieWrappedSecretKey, ...).  Programs are normally written against these
names, so an alias bound to the wrong version / purpose / kind defeats the type discipline (C18).
Writes Gen/Aliases.v: (crate, alias, generic it names, version argument, remaining arguments)."""
import re
import extract_facts as X


def gen_aliases():
    rows = []
    for crate in X.BACKENDS:
        src = X.strip_comments(X.read(crate + "/src/lib.rs"))
        found = re.findall(r"\bpub\s+type\s+(\w+)\s*(?:<([^=]*?)>)?\s*=\s*([^;]+);", src, flags=re.S)
        if not found:
            raise X.Broken(crate + "/src/lib.rs: no `pub type` aliases found")
        for name, params, target in found:
            t = re.sub(r"\s+", "", target)
            m = re.match(r"^(?:[\w]+::)*(\w+)<(.*)>$", t)
            if not m:
                raise X.Broken("%s: alias %s has a target this reader does not understand: %s" % (crate, name, t))
            generic, args = m.group(1), m.group(2).split(",")
            args = [a.split("::")[-1] for a in args]
            rows.append((crate, name, generic, args[0], args[1:]))
    out = ["From Coq Require Import List String.", "Import ListNotations.", "Local Open Scope string_scope.", "",
           "(* crate, alias name, generic type it names, version argument, remaining type arguments *)",
           "Definition gen_aliases : list (string * string * string * string * list string) :=\n  [ %s ]." % ";\n    ".join(
               '("%s", "%s", "%s", "%s", [%s])' % (c, n, g, v, "; ".join('"%s"' % a for a in rest)) for c, n, g, v, rest in rows)]
    X.write_gen("Aliases.v", "\n".join(out) + "\n")


TARGETS = {"aliases": gen_aliases}
