"""facts_pae.py — translator plug-in, target "pae": every `pre_auth_encode([...], writer)` call site of the six
backends becomes a Gallina function from the enclosing fn's parameters to the list of pieces (each piece a list of
fragments) that the call passes.  Writes coq/theories/Gen/PaeSites.v.  The functions are generated from the source
text, so PaeSiteRules.v can prove, by computation, that each of them IS the model's authenticated input
(`pae (site ...) = v4_pre ...`): a reordered, dropped or added piece or fragment, another version literal or another
header constant makes that proof fail.  Identifier names do not matter (the functions are compared up to renaming);
what a fragment may be is deliberately narrow:

    "lit".as_bytes() | b"lit"           -> str "lit"
    <param> | &<param> | &<param>[..] | <param>.as_bytes() / .as_ref() / .as_slice()   -> the parameter
    <Kind>::HEADER.as_bytes()           -> key_hdr "<Kind>"   (looked up in the regenerated Gen/Headers.v)

anything else stops the translation (the tie no longer checks).  A parameter that is rebound by `let` before the call
(v3: `let key = key.to_encoded_point(true)`) is listed with the rebinding expression in `gen_pae_rebinds`."""
import re
import extract_facts as X

BACKENDS = ["paseto-v1", "paseto-v2", "paseto-v3", "paseto-v3-aws-lc", "paseto-v4", "paseto-v4-sodium"]
FILES = ["local.rs", "public.rs"]


def matching(src, i, open_c, close_c):
    """src[i] == open_c; index of the matching close_c (string literals skipped)"""
    depth = 0
    in_str = False
    while i < len(src):
        c = src[i]
        if in_str:
            if c == "\\":
                i += 1
            elif c == '"':
                in_str = False
        elif c == '"':
            in_str = True
        elif c == open_c:
            depth += 1
        elif c == close_c:
            depth -= 1
            if depth == 0:
                return i
        i += 1
    raise X.Broken("unbalanced %s%s" % (open_c, close_c))


def split_top(s):
    """split at top-level commas (brackets, parens, angle-free, strings respected)"""
    out, cur, depth, in_str = [], "", 0, False
    i = 0
    while i < len(s):
        c = s[i]
        if in_str:
            cur += c
            if c == "\\":
                i += 1
                cur += s[i]
            elif c == '"':
                in_str = False
        elif c == '"':
            in_str = True
            cur += c
        elif c in "([{":
            depth += 1
            cur += c
        elif c in ")]}":
            depth -= 1
            cur += c
        elif c == "," and depth == 0:
            out.append(cur.strip())
            cur = ""
        else:
            cur += c
        i += 1
    if cur.strip():
        out.append(cur.strip())
    return out


def enclosing_fn(src, pos, rel):
    best = None
    for m in re.finditer(r"\bfn\s+(\w+)\s*(?:<[^>]*>)?\s*\(", src):
        close = matching(src, m.end() - 1, "(", ")")
        brace = src.find("{", close)
        semi = src.find(";", close)
        if brace < 0 or (0 <= semi < brace):
            continue
        end = matching(src, brace, "{", "}")
        if brace < pos < end and (best is None or brace > best[2]):
            best = (m.group(1), src[m.end():close], brace, end)
    if best is None:
        raise X.Broken("%s: pre_auth_encode call outside any fn" % rel)
    return best


def coq_ident(s):
    s = re.sub(r"\W", "_", s)
    if s in ("fun", "let", "in", "match", "end", "with", "if", "then", "else", "forall", "exists", "as", "at", "Type", "Set", "Prop", "str", "key_hdr"):
        s += "_"
    return s


def gen_pae():
    sites = []
    rebinds = []
    for be in BACKENDS:
        for fl in FILES:
            rel = "%s/src/core/%s" % (be, fl)
            src = X.strip_comments(X.read(rel))
            for m in re.finditer(r"\bpre_auth_encode\s*\(", src):
                if re.search(r"\bfn\s+$", src[:m.start()]):
                    continue
                i = m.end()
                while src[i].isspace():
                    i += 1
                if src[i] != "[":
                    raise X.Broken("%s: pre_auth_encode is not given an array literal" % rel)
                j = matching(src, i, "[", "]")
                fn, params, b0, _ = enclosing_fn(src, m.start(), rel)
                pnames = []
                for p in split_top(params):
                    mm = re.match(r"(?:mut\s+)?(\w+)\s*:", p)
                    if mm:
                        pnames.append(mm.group(1))
                used = []
                pieces = []
                for el in split_top(src[i + 1:j]):
                    mm = re.fullmatch(r"&\s*\[(.*)\]", el, flags=re.S)
                    if not mm:
                        raise X.Broken("%s %s: piece %r is not a slice literal" % (rel, fn, el))
                    frags = []
                    for fr in split_top(mm.group(1)):
                        fr = re.sub(r"\s+", "", fr)
                        a = re.fullmatch(r'"([^"\\]*)"\.as_bytes\(\)', fr) or re.fullmatch(r'b"([^"\\]*)"', fr)
                        if a:
                            frags.append(X.coq_str(a.group(1)))
                            continue
                        a = re.fullmatch(r"(\w+)::HEADER\.as_bytes\(\)", fr)
                        if a:
                            frags.append('key_hdr "%s"' % a.group(1))
                            continue
                        a = re.fullmatch(r"&?\*?(\w+)(?:\[\.\.\])?(?:\.as_bytes\(\)|\.as_ref\(\)|\.as_slice\(\))?", fr)
                        if a and a.group(1) in pnames:
                            if a.group(1) not in used:
                                used.append(a.group(1))
                            frags.append(coq_ident(a.group(1)))
                            continue
                        raise X.Broken("%s %s: fragment %r is none of: literal, parameter, Kind::HEADER" % (rel, fn, fr))
                    pieces.append(frags)
                # parameters in declaration order (so that a renaming gives an alpha-equivalent function)
                args = [p for p in pnames if p in used]
                body_before = src[b0:m.start()]
                for p in args:
                    for lm in re.finditer(r"\blet\s+(?:mut\s+)?%s\s*(?::[^=]+)?=\s*([^;]+);" % re.escape(p), body_before):
                        rebinds.append((rel, fn, args.index(p), re.sub(r"\s+", "", lm.group(1)).replace(p, "#")))
                sites.append((rel, fn, [coq_ident(a) for a in args], pieces))
    if not sites:
        raise X.Broken("no pre_auth_encode call site found")
    out = ["From Coq Require Import List String NArith.", "From PV Require Import Bytes Pae.", "From PV.Gen Require Import Headers.",
           "Import ListNotations.", "Local Open Scope string_scope.", "",
           "(* KeyType::HEADER of a marker type, from the regenerated header table; [] when the table has no such kind *)",
           "Definition key_hdr (k : String.string) : bytes :=",
           "  match find (fun r => String.eqb (fst (fst r)) k) gen_key_kinds with Some r => snd (fst r) | None => [] end.", ""]
    names = []
    for rel, fn, args, pieces in sites:
        # named by file and position in the file, not by the fn's name (a renamed fn is the same site)
        base = "site_" + coq_ident(rel.replace("/src/core/", "_").replace(".rs", ""))
        name = "%s_%d" % (base, len([1 for n, _, _ in names if n.startswith(base + "_")]))
        names.append((name, rel, fn))
        out.append("Definition %s%s : list piece :=\n  [%s]." % (
            name, (" (" + " ".join(args) + " : bytes)") if args else "",
            "; ".join("[" + "; ".join(p) + "]" for p in pieces)))
    out.append("")
    out.append("(* source file, fn, number of byte-string parameters the pieces mention *)")
    out.append("Definition gen_pae_sites : list (String.string * String.string * N) :=\n  [ %s ]." % ";\n    ".join(
        '("%s", "%s", %d%%N)' % (rel, fn, len(args)) for rel, fn, args, _ in sites))
    out.append("(* source file, fn, index of the parameter, expression it is rebound to before the call (# = the parameter) *)")
    out.append("Definition gen_pae_rebinds : list (String.string * String.string * N * String.string) :=\n  [ %s ]." % ";\n    ".join(
        '("%s", "%s", %d%%N, "%s")' % r for r in rebinds))
    X.write_gen("PaeSites.v", "\n".join(out) + "\n")


TARGETS = {"pae": gen_pae}
