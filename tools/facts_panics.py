"""facts_panics.py — translator plug-in, target "panics": the inventory of panicking constructs in the
non-test library code of paseto-core, paseto-json and the six backends (C04).  Writes Gen/PanicSites.v:
one row per (file, enclosing fn, kind) with the number of occurrences."""
import glob, os, re
import extract_facts as X

CRATES = ["paseto-core", "paseto-json", "paseto-v1", "paseto-v2", "paseto-v3", "paseto-v3-aws-lc", "paseto-v4", "paseto-v4-sodium"]
KINDS = [
    ("unwrap", r"\.unwrap\(\)"),
    ("expect", r"\.expect\("),
    ("assert", r"\b(?:debug_)?assert(?:_eq|_ne)?!\s*\("),
    ("unreachable", r"\b(?:unreachable|panic|todo|unimplemented)!\s*\("),
    ("split_at", r"\.split_at(?:_mut)?\("),
    ("copy_from_slice", r"\.copy_from_slice\("),
    ("unchecked", r"\bfrom_utf8_unchecked\b|\.set_len\(|\bget_unchecked"),
    ("index", r"[\w\)\]]\[[^\]\n;]*\]"),
]


def strip_test_modules(src):
    # remove `#[cfg(test)] mod name { ... }`
    out, i = [], 0
    for m in re.finditer(r"#\[cfg\(test\)\]\s*mod\s+\w+\s*\{", src):
        if m.start() < i:
            continue
        out.append(src[i:m.start()])
        body = X.block_at(src, m.end() - 1)
        i = m.end() + len(body) + 1
    out.append(src[i:])
    return "".join(out)


def strip_strings(src):
    return re.sub(r'b?"(?:[^"\\]|\\.)*"', '""', src)


def gen_panics():
    rows = {}
    for crate in CRATES:
        files = sorted(glob.glob(os.path.join(X.REPO, crate, "src", "**", "*.rs"), recursive=True))
        if not files:
            raise X.Broken("no sources found for " + crate)
        for path in files:
            rel = os.path.relpath(path, X.REPO)
            if rel.endswith("verif_hooks.rs"):
                continue  # compiled only with --cfg paseto_rs_verif
            src = strip_strings(strip_test_modules(X.strip_comments(open(path, encoding="utf-8").read())))
            # attribute lines never hold code
            src = re.sub(r"#!?\[[^\]\n]*\]", "", src)
            fns = [(m.start(), m.group(1)) for m in re.finditer(r"\bfn\s+(\w+)", src)]
            for kind, pat in KINDS:
                for m in re.finditer(pat, src):
                    if kind == "index":
                        t = m.group(0)
                        if re.match(r"^\w\[\s*\]$", t) or re.search(r"\[\s*u8\s*\]|\[\s*T\s*\]", t):
                            continue  # slice types such as &'a [u8]
                        if re.search(r"\[\s*\.\.\s*\]$", t):
                            continue  # the full range `x[..]` cannot panic
                        # `where`-clauses and generics do not index; array types `[u8; N]` contain ';' and are excluded by the pattern
                    fn = "<top>"
                    for pos, name in fns:
                        if pos < m.start():
                            fn = name
                    key = (rel, fn, kind)
                    rows[key] = rows.get(key, 0) + 1
    out = ["From Coq Require Import List String NArith.", "Import ListNotations.", "Local Open Scope string_scope.", "",
           "(* source file, enclosing fn, kind of panicking construct, number of occurrences *)",
           "Definition gen_panic_sites : list (string * string * string * N) :=\n  [ %s ]." % ";\n    ".join(
               '("%s", "%s", "%s", %d%%N)' % (f, fn, k, n) for (f, fn, k), n in sorted(rows.items()))]
    X.write_gen("PanicSites.v", "\n".join(out) + "\n")


TARGETS = {"panics": gen_panics}
