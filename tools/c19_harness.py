#!/usr/bin/env python3
"""c19_harness.py — correspondence harness for C19 (cargo is the ground truth).

  1. structural: for a set of feature lists S per crate, `cargo check --offline --locked -p <crate>
     --no-default-features --features <S>` must succeed (else: violation, the property fails on that S) and must
     agree with the model's verdict `builds gen_<crate> (closure gen_<crate> S)` evaluated by coqc (else: disagreement).
       quick    : none / each single feature / default / a seed-chosen sample of the other distinct closures
       thorough : one feature list per distinct closure of every crate (all of them)
  2. behavioural: probe binaries (template /verif/harness-c19) built against ONE paseto-vN in ONE feature
     configuration.  The full build produces tokens (fixed keys from the repository's test vectors, fixed nonces
     through dangerous_seal_with_nonce, several payloads/footers/implicit assertions) and corrupted tokens; every
     reduced build must answer every operation it offers exactly as the full build does (same accept/reject, same
     claims bytes, same error, byte-identical sealed output for the same nonce).

The repository under test is $VERIF_REPO (default /repo); it is never written to (cargo runs with --locked and
CARGO_TARGET_DIR under /verif/out; `git status` of the repository is compared before/after)."""
import argparse, base64, concurrent.futures, hashlib, itertools, json, os, random, re, shutil, subprocess, sys, time

TOOLS = os.path.dirname(os.path.abspath(__file__))
ROOT = os.path.dirname(TOOLS)
sys.path.insert(0, TOOLS)
import extract_facts as xf  # noqa: E402
import facts_c19  # noqa: E402

REPO = os.path.abspath(os.environ.get("VERIF_REPO", "/repo"))
OUT = os.path.join(ROOT, "out")
ALT = "" if REPO == "/repo" else "-" + hashlib.sha1(REPO.encode()).hexdigest()[:8]
TARGET = os.path.join(OUT, "c19-target" + ALT)
WS = os.path.join(OUT, "c19-ws" + ALT)
TEMPLATE = os.path.join(ROOT, "harness-c19")
ENV = dict(os.environ, CARGO_NET_OFFLINE="true", CARGO_TERM_COLOR="never")
ENV.pop("RUSTFLAGS", None)
VCRATES = ["paseto-v1", "paseto-v2", "paseto-v3", "paseto-v4"]
CRATES = VCRATES + ["paseto-core", "paseto-json"]


def sh(cmd, cwd=None, env=None, inp=None, timeout=3600):
    p = subprocess.run(cmd, cwd=cwd, env=env or ENV, input=inp, stdout=subprocess.PIPE, stderr=subprocess.STDOUT,
                       text=True, errors="replace", timeout=timeout)
    return p.returncode, p.stdout


# ------------------------------------------------------------------------------------------ feature sets

def closure(feats, S):
    cur = set(S)
    while True:
        new = set(cur)
        for f in cur:
            for e in feats.get(f, []):
                if e[0] == "feat":
                    new.add(e[1])
        if new == cur:
            return frozenset(cur)
        cur = new


def distinct_closures(feats):
    """closure -> smallest generating feature list (ties: lexicographic)"""
    names = sorted(feats)
    best = {}
    for r in range(len(names) + 1):
        for S in itertools.combinations(names, r):
            c = closure(feats, S)
            if c not in best:
                best[c] = list(S)
    return best


def canon(order, c):
    return [f for f in order if f in c]


def coq_order(feats):
    return sorted(feats, key=lambda f: (f != "default", f))


def coq_list(xs):
    return "[" + "; ".join('"%s"' % x for x in xs) + "]"


# ------------------------------------------------------------------------------------------ model verdicts

def model_verdicts(cases, notes):
    """cases: list of (crate, coqname, S) -> list of dict(builds, canon, failing)"""
    def run(theories, tag):
        path = os.path.join(OUT, "c19_model%s.v" % ALT.replace("-", "_"))
        with open(path, "w") as f:
            f.write("From PV Require Import KernelCasesC19.\n")
            for i, (crate, name, S) in enumerate(cases):
                f.write("Eval vm_compute in (%d, builds %s (closure %s %s), canon %s (closure %s %s), failing %s (closure %s %s)).\n" % (
                    i, name, name, coq_list(S), name, name, coq_list(S), name, name, coq_list(S)))
        rc, out = sh(["coqc", "-noglob", "-Q", theories, "PV", path], cwd=OUT, timeout=1500)
        for ext in (".vo", ".vok", ".vos", ".glob"):
            try:
                os.remove(path[:-2] + ext)
            except FileNotFoundError:
                pass
        return rc, out

    main = os.path.join(ROOT, "coq", "theories")
    gen_v = os.path.join(main, "Gen", "Features.v")
    fresh = False
    try:
        want = facts_c19.GEN_HEADER + facts_c19.features_text()
        vo = gen_v + "o"
        fresh = (os.path.exists(gen_v) and open(gen_v).read() == want and os.path.exists(vo)
                 and os.path.getmtime(vo) >= os.path.getmtime(gen_v)
                 and os.path.getmtime(vo) >= os.path.getmtime(os.path.join(main, "FeatureRules.v"))
                 and os.path.exists(os.path.join(main, "KernelCasesC19.vo")))
    except xf.Broken as e:
        raise RuntimeError("translator: %s" % e)
    rc, out = run(main, "main") if fresh else (1, "Gen/Features.vo is not the compiled image of the tables of %s" % REPO)
    if rc != 0:
        # the shared .vo files are missing or stale (standalone run, or the proof step failed before they were
        # rebuilt): compile a private copy of the model + the table regenerated from REPO
        priv = os.path.join(OUT, "c19-coq" + ALT.replace("-", "_"), "theories")
        os.makedirs(os.path.join(priv, "Gen"), exist_ok=True)
        for fn in ("FeatureRules.v", "KernelCasesC19.v"):
            shutil.copy(os.path.join(main, fn), os.path.join(priv, fn))
        open(os.path.join(priv, "Gen", "Features.v"), "w").write(want)
        for fn in ("FeatureRules.v", "Gen/Features.v", "KernelCasesC19.v"):
            rc2, o2 = sh(["coqc", "-noglob", "-Q", priv, "PV", os.path.join(priv, fn)], cwd=priv, timeout=600)
            if rc2 != 0:
                raise RuntimeError("cannot compile the model (%s): %s | first attempt: %s" % (fn, o2[-800:], out[-800:]))
        notes.append("model verdicts evaluated against a private build of the model (%s)" % out.strip()[-200:])
        rc, out = run(priv, "private")
        if rc != 0:
            raise RuntimeError("coqc failed on the model cases: " + out[-1500:])
    flat = re.sub(r"\s+", " ", out)
    res = {}
    for m in re.finditer(r"= \((\d+), (true|false), \[(.*?)\], \[(.*?)\]\) :", flat):
        def strs(s):
            return re.findall(r'"([^"]*)"', s)
        res[int(m.group(1))] = {"builds": m.group(2) == "true", "canon": strs(m.group(3)), "failing": strs(m.group(4))}
    if len(res) != len(cases):
        raise RuntimeError("could not parse coqc output for the model cases (%d of %d): %s" % (len(res), len(cases), out[-800:]))
    return [res[i] for i in range(len(cases))]


# ------------------------------------------------------------------------------------------ cargo check

def first_errors(out, n=12):
    lines = out.split("\n")
    keep = []
    for i, ln in enumerate(lines):
        if re.match(r"\s*error", ln):
            keep.extend(lines[i:i + 4])
        if len(keep) >= n:
            break
    return [x.rstrip() for x in (keep or lines[-n:])][:n + 4]


BUILD = {"repo": REPO, "locked": ["--locked"]}


def preflight(notes):
    """cargo must be able to use the repository's Cargo.lock as it is; if the manifests no longer match the lock
    file (cargo would rewrite it) the sources are copied to a scratch workspace and built there instead -
    the repository under test is never written to."""
    rc, out = sh(["cargo", "metadata", "--offline", "--locked", "--format-version", "1"], cwd=REPO,
                 env=dict(ENV, CARGO_TARGET_DIR=os.path.join(TARGET, "meta")), timeout=600)
    if rc == 0:
        return
    msg = " ".join(out.strip().split("\n")[:3])
    if "lock" not in out:
        raise RuntimeError("cargo metadata fails in %s: %s" % (REPO, msg[:400]))
    copy = os.path.join(WS, "repo-copy")
    os.makedirs(copy, exist_ok=True)
    rc2, o2 = sh(["rsync", "-a", "--delete", "--exclude", "target", "--exclude", ".git", REPO + "/", copy + "/"], timeout=600)
    if rc2 != 0:
        raise RuntimeError("cannot copy the repository to a scratch workspace: " + o2[-300:])
    BUILD["repo"], BUILD["locked"] = copy, []
    notes.append("Cargo.lock of the repository does not match its manifests (%s): building a scratch copy (%s) without --locked" % (msg[:200], copy))


def cargo_check(crate, S, jobs):
    tdir = os.path.join(TARGET, crate)
    cmd = ["cargo", "check", "--offline"] + BUILD["locked"] + ["-q", "-p", crate, "--no-default-features", "-j", str(jobs)]
    if S:
        cmd += ["--features", ",".join(S)]
    env = dict(ENV, CARGO_TARGET_DIR=tdir)
    t0 = time.time()
    rc, out = sh(cmd, cwd=BUILD["repo"], env=env, timeout=3000)
    return {"crate": crate, "features": list(S), "ok": rc == 0, "secs": round(time.time() - t0, 2),
            "cmd": "cd %s && CARGO_TARGET_DIR=%s CARGO_NET_OFFLINE=true %s" % (BUILD["repo"], tdir, " ".join(cmd)),
            "errors": [] if rc == 0 else first_errors(out)}


# ------------------------------------------------------------------------------------------ probes

def b64(b):
    return base64.urlsafe_b64encode(b).decode().rstrip("=")


def hexs(b):
    return b.hex() if b else "-"


def vector_keys(ver):
    """secret-key PASERK strings from the repository's own test vectors (non-failing cases)"""
    p = os.path.join(REPO, "paseto-test", "tests", "vectors", "k%s.secret.json" % ver)
    out = []
    try:
        for t in json.load(open(p))["tests"]:
            if not t.get("expect-fail") and isinstance(t.get("paserk"), str):
                out.append(t["paserk"])
    except Exception:
        pass
    return out


def seal_keys(ver):
    """(secret, public) key-sealing key pair of the repository's k<ver>.seal.json vectors, as PASERK text"""
    p = os.path.join(REPO, "paseto-test", "tests", "vectors", "k%s.seal.json" % ver)
    try:
        for t in json.load(open(p))["tests"]:
            sk, pk = t.get("sealing-secret-key"), t.get("sealing-public-key")
            if t.get("expect-fail") or not isinstance(sk, str) or not isinstance(pk, str):
                continue
            raw = [x.encode() if x.startswith("-----BEGIN") else bytes.fromhex(x) for x in (sk, pk)]
            return "k%s.secret.%s" % (ver, b64(raw[0])), "k%s.public.%s" % (ver, b64(raw[1]))
    except Exception:
        pass
    return None


PROBE_CAPS = [("verifying", "verify"), ("signing", "sign"), ("decrypting", "decrypt"), ("encrypting", "encrypt"),
              ("id", "id"), ("pie-wrap", "pie"), ("pbkw", "pbkw"), ("pke", "pke")]


def probe_instance(crate, S, clos):
    ver = crate[-2:]
    name = "%s-%s" % (crate, "+".join(S) if S else "none")
    d = os.path.join(WS, name)
    os.makedirs(os.path.join(d, "src"), exist_ok=True)
    os.makedirs(os.path.join(d, ".cargo"), exist_ok=True)
    man = open(os.path.join(TEMPLATE, "Cargo.toml.in")).read()
    man = man.replace("@NAME@", "c19-probe-" + re.sub(r"[^a-z0-9]+", "-", name)).replace("@PKG@", crate).replace("@REPO@", BUILD["repo"])
    man = man.replace("@FEATURES@", ", ".join('"%s"' % f for f in S))
    for src, dst in [(None, "Cargo.toml"), ("src/main.rs", "src/main.rs"), (".cargo/config.toml", ".cargo/config.toml")]:
        new = man if src is None else open(os.path.join(TEMPLATE, src)).read()
        p = os.path.join(d, dst)
        if not os.path.exists(p) or open(p).read() != new:
            open(p, "w").write(new)
    lock = os.path.join(d, "Cargo.lock")
    src_lock = open(os.path.join(BUILD["repo"], "Cargo.lock"), "rb").read()
    stamp = os.path.join(d, "Cargo.lock.from")
    sha = hashlib.sha1(src_lock).hexdigest()
    if not os.path.exists(lock) or not os.path.exists(stamp) or open(stamp).read() != sha:
        open(lock, "wb").write(src_lock)          # same dependency versions as the repository under test
        open(stamp, "w").write(sha)
    caps = [ver] + [c for f, c in PROBE_CAPS if f in clos]
    return d, caps


def probe_build(crate, S, clos, jobs):
    d, caps = probe_instance(crate, S, clos)
    tdir = os.path.join(TARGET, "probe-" + crate)
    env = dict(ENV, CARGO_TARGET_DIR=tdir)
    cmd = ["cargo", "build", "--offline", "-q", "-j", str(jobs), "--no-default-features", "--features", ",".join(caps)]
    t0 = time.time()
    rc, out = sh(cmd, cwd=d, env=env, timeout=3000)
    exe = os.path.join(tdir, "debug", "c19-probe")
    keep = None
    if rc == 0:
        keep = os.path.join(d, "c19-probe")   # the next configuration replaces target/debug/c19-probe
        tmp = keep + ".new"
        try:
            if os.path.exists(tmp):
                os.remove(tmp)
            os.link(exe, tmp)             # no write descriptor in this (multi-threaded, forking) process
        except OSError:
            shutil.copy2(exe, tmp)
        os.replace(tmp, keep)
    return {"dir": d, "exe": keep, "ok": rc == 0, "caps": caps[1:], "secs": round(time.time() - t0, 2),
            "cmd": "cd %s && CARGO_TARGET_DIR=%s %s" % (d, tdir, " ".join(cmd)), "errors": [] if rc == 0 else first_errors(out)}


def probe_run(exe, commands):
    for attempt in range(20):
        try:
            rc, out = sh([exe], inp="\n".join(commands) + "\n", timeout=1200)
            break
        except OSError as e:              # ETXTBSY: a child forked by another thread still holds a descriptor
            if e.errno != 26 or attempt == 19:
                raise RuntimeError("cannot run %s: %s" % (exe, e))
            time.sleep(0.2)
    lines = out.split("\n")
    if lines and lines[-1] == "":
        lines.pop()
    if rc != 0 or len(lines) != len(commands):
        raise RuntimeError("probe %s: exit %s, %d answers for %d commands: %s" % (exe, rc, len(lines), len(commands), out[-500:]))
    return lines


def mutate_token(tok, rng):
    """corrupted variants of a token string"""
    parts = tok.split(".")
    body = parts[2]
    outs = []
    i = rng.randrange(len(body))
    alphabet = "ABCDEFGHIJKLMNOPQRSTUVWXYZabcdefghijklmnopqrstuvwxyz0123456789-_"
    c = rng.choice([x for x in alphabet if x != body[i]])
    outs.append(("flip-body", ".".join(parts[:2] + [body[:i] + c + body[i + 1:]] + parts[3:])))
    outs.append(("flip-last", ".".join(parts[:2] + [body[:-1] + ("A" if body[-1] != "A" else "B")] + parts[3:])))
    outs.append(("truncate", ".".join(parts[:2] + [body[:max(0, len(body) - 8)]] + parts[3:])))
    outs.append(("empty-body", ".".join(parts[:2] + [""] + parts[3:])))
    outs.append(("bad-base64", ".".join(parts[:2] + [body[:3] + "*" + body[4:]] + parts[3:])))
    other = {"v1": "v2", "v2": "v1", "v3": "v4", "v4": "v3"}[parts[0]]
    outs.append(("other-version", ".".join([other] + parts[1:])))
    outs.append(("other-purpose", ".".join([parts[0], "local" if parts[1] == "public" else "public"] + parts[2:])))
    if len(parts) > 3:
        outs.append(("drop-footer", ".".join(parts[:3])))
        outs.append(("other-footer", ".".join(parts[:3] + [b64(b"other-footer")])))
    else:
        outs.append(("add-footer", tok + "." + b64(b"added")))
    outs.append(("extra-dot", tok + "."))
    return outs


def probe_plan(tier):
    reduced = [["verifying"], ["decrypting"]]
    if tier == "thorough":
        reduced += [["signing"], ["encrypting"], ["encrypting", "verifying"], ["id"], ["decrypting", "id", "verifying"],
                    ["pie-wrap"], ["pbkw"], ["pke"], ["encrypting", "signing"], ["default"]]
    return reduced


def probes_for_crate(crate, feats, tier, seed, jobs, rep):
    """returns (evaluations, comparisons_distinct, findings)"""
    ver = crate[-1]
    rng = random.Random("%s/%s" % (seed, crate))
    full_S = ["encrypting", "paserk", "signing"]
    full_c = closure(feats, full_S)
    full = probe_build(crate, full_S, full_c, jobs)
    rep["probe_builds"].append({k: full[k] for k in ("cmd", "ok", "secs")})
    if not full["ok"]:
        rep["violations"].append({"class": "probe-build:%s" % crate, "what": "the full-feature probe does not build against %s" % crate,
                                  "replay": {"kind": "probe-build", "crate": crate, "features": full_S, "cmd": full["cmd"], "errors": full["errors"]}})
        return
    # ---- phase 1: the full build produces keys, tokens, blobs
    secrets = []
    for s in vector_keys(ver):
        pk = probe_run(full["exe"], ["pubkey " + s])[0]
        if pk.startswith("k%s.public." % ver):
            secrets.append((s, pk))
        if len(secrets) == 2:
            break
    if not secrets:
        raise RuntimeError("%s: no usable secret key in paseto-test/tests/vectors/k%s.secret.json" % (crate, ver))
    if len(secrets) < 2:
        # the vectors hold a single key of this version: the second ("wrong") key is generated once and kept
        cache = os.path.join(WS, "second-key-%s.txt" % crate)
        s2 = open(cache).read().strip() if os.path.exists(cache) else probe_run(full["exe"], ["genkey"])[0]
        pk2 = probe_run(full["exe"], ["pubkey " + s2])[0]
        if not pk2.startswith("k%s.public." % ver):
            raise RuntimeError("%s: cannot obtain a second secret key (%s)" % (crate, pk2))
        open(cache, "w").write(s2 + "\n")
        secrets.append((s2, pk2))
        rep["notes"].append("%s: second (wrong-key) secret key generated by the full build and cached in %s" % (crate, cache))
    locals_ = ["k%s.local.%s" % (ver, b64(bytes([(7 * i + k) & 0xFF for i in range(32)]))) for k in (1, 2)]
    payloads = [b"", b"{}", b'{"sub":"alice","exp":"2039-01-01T00:00:00+00:00"}', bytes(rng.randrange(256) for _ in range(200))]
    footers = [b"", b"kid-1", b'{"kid":"k4.lid.x"}']
    aads = [b"", b"implicit-assertion"]
    nonce_len = {"1": 32, "2": 24, "3": 32, "4": 32}[ver]
    gen = []
    meta = []
    if ver in "12":     # no implicit assertions before v3: one refused request is enough
        combos = [(p, f, b"") for p in payloads for f in footers]
    else:
        combos = [(p, f, a) for p in payloads for f in footers for a in aads]
    if tier == "quick":
        combos = combos[:2] + rng.sample(combos[2:], 6)
    if ver in "12":
        combos.append((payloads[2], footers[1], aads[1]))
    for (p, f, a) in combos:
        nonce = bytes(rng.randrange(256) for _ in range(nonce_len))
        gen.append("encrypt %s %s %s %s %s" % (locals_[0], hexs(nonce), hexs(p), hexs(f), hexs(a)))
        meta.append(("local", a))
        gen.append("sign %s %s %s %s" % (secrets[0][0], hexs(p), hexs(f), hexs(a)))
        meta.append(("public", a))
    n_tok = len(gen)
    gen += ["sign %s %s %s %s" % (secrets[0][0], hexs(payloads[2]), hexs(footers[1]), hexs(aads[0]))] * 2   # determinism test
    sealing = seal_keys(ver)
    if sealing is None:
        raise RuntimeError("%s: no key-sealing key pair in paseto-test/tests/vectors/k%s.seal.json" % (crate, ver))
    gen += ["piewrap %s %s" % (locals_[0], locals_[1]), "pwwrap %s %s" % (locals_[0], hexs(b"correct horse")),
            "seal %s %s" % (locals_[0], sealing[1])]
    ans = probe_run(full["exe"], gen)
    # v1/v2 have no implicit assertions: sealing with one is refused; the refusal itself is compared below
    refused = [i for i in range(n_tok) if ans[i].startswith("err ") and meta[i][1]]
    if refused:
        rep["notes"].append("%s: %d seal requests with an implicit assertion are refused by the full build (%s); reduced builds must refuse alike" % (
            crate, len(refused), ans[refused[0]]))
    bad = [(c, a) for i, (c, a) in enumerate(zip(gen, ans)) if (a.startswith("err ") or a in ("unsupported", "bad-command")) and i not in refused]
    if bad:
        rep["violations"].append({"class": "probe-gen:%s" % crate, "what": "the full build cannot produce: %s -> %s" % (bad[0][0][:80], bad[0][1]),
                                  "replay": {"kind": "probe", "crate": crate, "features": full_S, "commands": [b[0] for b in bad[:3]]}})
        return
    sign_deterministic = ans[n_tok] == ans[n_tok + 1]
    rep["notes"].append("%s: signatures are %s" % (crate, "deterministic (compared byte for byte)" if sign_deterministic else "randomised (sealed public tokens are compared through verification only)"))
    pie_blob, pw_blob, sealed = ans[n_tok + 2], ans[n_tok + 3], ans[n_tok + 4]
    # ---- phase 2: the command list every build answers
    cmds = ["caps"]
    for (c, tok, (purpose, aad)) in zip(gen[:n_tok], ans[:n_tok], meta):
        if purpose == "local":
            key, other, op = locals_[0], locals_[1], "decrypt"
            cmds.append(c)                                      # re-seal with the same nonce: byte-identical output
        else:
            key, other, op = secrets[0][1], secrets[1][1], "verify"
            if sign_deterministic or tok.startswith("err "):
                cmds.append(c)
        if tok.startswith("err "):
            if c not in cmds:
                cmds.append(c)
            continue
        cmds.append("%s %s %s %s" % (op, key, tok, hexs(aad)))
        cmds.append("%s %s %s %s" % (op, other, tok, hexs(aad)))               # wrong key
        cmds.append("%s %s %s %s" % (op, key, tok, hexs(aad + b"x")))          # wrong implicit assertion
        for (_, bad_tok) in mutate_token(tok, rng):
            cmds.append("%s %s %s %s" % (op, key, bad_tok, hexs(aad)))
    cmds += ["lid " + locals_[0], "pid " + secrets[0][1], "pubkey " + secrets[0][0],
             "pieunwrap %s %s" % (pie_blob, locals_[1]), "pieunwrap %s %s" % (pie_blob, locals_[0]),
             "pieunwrap %s %s" % (pie_blob[:-2] + ("AA" if not pie_blob.endswith("AA") else "BB"), locals_[1]),
             "pwunwrap %s %s" % (pw_blob, hexs(b"correct horse")), "pwunwrap %s %s" % (pw_blob, hexs(b"wrong")),
             "unseal %s %s" % (sealed, sealing[0]), "unseal %s %s" % (sealed, secrets[1][0]),
             "unseal %s %s" % (sealed[:-2] + ("AA" if not sealed.endswith("AA") else "BB"), sealing[0])]
    ref = probe_run(full["exe"], cmds)
    accepted = len([r for r in ref if r.startswith("ok ")])
    rejected = len([r for r in ref if r.startswith("err ")])
    rep["dist"]["probe:%s:full accepts" % crate] = accepted
    rep["dist"]["probe:%s:full rejects" % crate] = rejected
    if accepted == 0 or rejected == 0:
        rep["disagreements"].append({"class": "probe-vacuous:%s" % crate, "what": "the reference run accepts %d and rejects %d inputs" % (accepted, rejected), "replay": {"crate": crate}})
    # sanity of the reference itself: every untouched token is accepted with its payload
    rep["samples"].append({"crate": crate, "probe": "full", "example": cmds[2][:120], "answer": ref[2][:80]})
    # ---- reduced builds
    for S in probe_plan(tier):
        c = closure(feats, S)
        b = probe_build(crate, S, c, jobs)
        rep["probe_builds"].append({k: b[k] for k in ("cmd", "ok", "secs")})
        cfg = "%s[%s]" % (crate, ",".join(S))
        if not b["ok"]:
            rep["violations"].append({"class": "probe-build:%s" % cfg, "what": "a program using only what [%s] offers does not build" % ",".join(S),
                                      "replay": {"kind": "probe-build", "crate": crate, "features": S, "cmd": b["cmd"], "errors": b["errors"]}})
            continue
        got = probe_run(b["exe"], cmds)
        rep["evaluations"] += len(cmds)
        if got[0] != "caps " + ",".join(b["caps"]):
            rep["disagreements"].append({"class": "probe-caps:%s" % cfg, "what": "probe reports %s, expected %s" % (got[0], b["caps"]), "replay": {"crate": crate, "features": S}})
        nsup = 0
        for cmd, g, r in zip(cmds[1:], got[1:], ref[1:]):
            if g == "unsupported":
                continue
            nsup += 1
            rep["distinct"].add("%s|%s" % (cfg, hashlib.sha1(cmd.encode()).hexdigest()[:12]))
            if g != r:
                rep["violations"].append({
                    "class": "reduced-differs:%s:%s" % (cfg, cmd.split(" ")[0]),
                    "what": "built with features [%s] the operation answers %r, the full build answers %r" % (",".join(S), g[:100], r[:100]),
                    "replay": {"kind": "probe", "crate": crate, "features": S, "command": cmd, "reduced": g, "full": r}})
        rep["dist"]["probe:%s:operations compared" % cfg] = nsup
        expected_ops = {"verify": "verify", "decrypt": "decrypt", "encrypt": "encrypt"}
        for cap, op in expected_ops.items():
            if cap in b["caps"] and not any(cm.startswith(op + " ") and g != "unsupported" for cm, g in zip(cmds, got)):
                rep["disagreements"].append({"class": "probe-idle:%s" % cfg, "what": "%s offered but never exercised" % op, "replay": {"crate": crate, "features": S}})
        rep["samples"].append({"crate": crate, "probe": S, "operations_compared": nsup, "of": len(cmds) - 1})


# ------------------------------------------------------------------------------------------ main

def git_state(repo):
    rc, out = sh(["git", "-C", repo, "status", "--porcelain"], timeout=120)
    return out if rc == 0 else None


def main():
    ap = argparse.ArgumentParser()
    ap.add_argument("--tier", default="quick")
    ap.add_argument("--seed", type=int, default=1)
    ap.add_argument("--out", required=True)
    ap.add_argument("--replay")
    ap.add_argument("--no-probes", action="store_true")
    a = ap.parse_args()
    t0 = time.time()
    os.makedirs(OUT, exist_ok=True)
    rep = {"property": "C19", "tier": a.tier, "seed": a.seed, "evaluations": 0, "model_evaluations": 0, "model_prim_calls": 0,
           "distinct_nontrivial": 0, "rule": "", "exhaustive": a.tier == "thorough", "samples": [], "distribution": {},
           "violations": [], "disagreements": [], "kernel_cases": [], "notes": []}
    notes = rep["notes"]
    if REPO != "/repo":
        notes.append("repository under test: " + REPO)
    try:
        mans = {c: facts_c19.read_manifest(c) for c in CRATES}
    except xf.Broken as e:
        rep["disagreements"].append({"class": "manifest", "what": str(e), "replay": {}})
        json.dump(rep, open(a.out, "w"), indent=1)
        return 0
    # source-level findings of the translator that have a concrete location (cfg on a statement etc.)
    try:
        facts = facts_c19.dump_json()
        for c in CRATES:
            for (at, kind, ctx) in facts[c]["bad_cfgs"]:
                rep["violations"].append({"class": "cfg-position:%s" % kind, "what": "%s/%s: a cfg attribute decorates a %s (%s): reduced builds no longer consist of whole items of the full build" % (c, at, kind[1:], ctx),
                                          "replay": {"kind": "cfg-position", "crate": c, "at": at, "decorates": kind}})
            for at in facts[c]["cfg_macros"]:
                rep["violations"].append({"class": "cfg-macro", "what": "%s/%s: cfg!() makes an expression depend on the feature set" % (c, at),
                                          "replay": {"kind": "cfg-position", "crate": c, "at": at, "decorates": "cfg!"}})
    except xf.Broken as e:
        notes.append("source inventory unavailable (%s): model verdicts may be unavailable" % e)

    replay = json.load(open(a.replay)) if a.replay else None
    rp = (replay or {}).get("replay", {})

    # ---- choose feature lists
    plan = {}
    n_distinct = {}
    for c in CRATES:
        feats = mans[c]["features"]
        dc = distinct_closures(feats)
        n_distinct[c] = len(dc)
        names = sorted(feats)
        chosen = []

        def add(S):
            S = sorted(S)
            if closure(feats, S) not in [closure(feats, x) for x in chosen]:
                chosen.append(S)
        if replay:
            if rp.get("crate") == c and rp.get("kind") in ("cargo-check", None) and "features" in rp:
                chosen.append(sorted(rp["features"]))
        elif a.tier == "thorough" or c in ("paseto-core", "paseto-json"):
            for cl, S in sorted(dc.items(), key=lambda kv: (len(kv[1]), kv[1])):
                add(S)
        else:
            add([])
            for f in names:
                add([f])
            rest = [S for cl, S in sorted(dc.items(), key=lambda kv: kv[1]) if cl not in [closure(feats, x) for x in chosen]]
            rng = random.Random("%s/%s/sets" % (a.seed, c))
            rng.shuffle(rest)
            for S in rest[:max(0, 13 - len(chosen))]:
                add(S)
        plan[c] = chosen
    notes.append("distinct closures per crate (feature `default` counted as a feature): " + ", ".join("%s=%d" % (c, n_distinct[c]) for c in CRATES))

    # ---- model verdicts
    cases = [(c, facts_c19.COQ_NAME[c], S) for c in CRATES for S in plan[c]]
    verdicts = {}
    try:
        mv = model_verdicts(cases, notes) if cases else []
        for (c, _, S), v in zip(cases, mv):
            verdicts[(c, tuple(S))] = v
        rep["model_evaluations"] = len(mv)
    except (RuntimeError, xf.Broken) as e:
        rep["disagreements"].append({"class": "model", "what": "no model verdicts: %s" % str(e)[:600], "replay": {}})

    # ---- cargo
    try:
        preflight(notes)
    except RuntimeError as e:
        rep["disagreements"].append({"class": "cargo-preflight", "what": str(e), "replay": {}})
        json.dump(rep, open(a.out, "w"), indent=1)
        return 0
    before = git_state(REPO)
    lock_before = hashlib.sha1(open(os.path.join(REPO, "Cargo.lock"), "rb").read()).hexdigest()
    def new_work():
        return {"probe_builds": [], "violations": [], "disagreements": [], "notes": [],
                "samples": [], "dist": {}, "distinct": set(), "evaluations": 0}
    work = new_work()
    ncpu = os.cpu_count() or 4
    jobs = max(2, ncpu // 3)
    results = []

    def do_crate(c):
        w = new_work()
        res = [cargo_check(c, S, jobs) for S in plan[c]]
        if c in VCRATES and not a.no_probes and (not replay or rp.get("kind", "").startswith("probe") and rp.get("crate") == c):
            try:
                probes_for_crate(c, mans[c]["features"], a.tier, a.seed, jobs, w)
            except (RuntimeError, subprocess.TimeoutExpired) as e:
                w["disagreements"].append({"class": "probe-run:%s" % c, "what": str(e)[:600], "replay": {"crate": c}})
        return res, w

    with concurrent.futures.ThreadPoolExecutor(max_workers=6) as ex:
        for res, w in ex.map(do_crate, CRATES):
            results.extend(res)
            for k in ("probe_builds", "samples"):
                work[k].extend(w[k])
            rep["violations"].extend(w["violations"])
            rep["disagreements"].extend(w["disagreements"])
            notes.extend(w["notes"])
            work["dist"].update(w["dist"])
            work["distinct"] |= w["distinct"]
            work["evaluations"] += w["evaluations"]
    after = git_state(REPO)
    lock_after = hashlib.sha1(open(os.path.join(REPO, "Cargo.lock"), "rb").read()).hexdigest()
    if lock_before != lock_after:
        rep["disagreements"].append({"class": "repo-modified", "what": "Cargo.lock of the repository under test changed while cargo was running", "replay": {"before": before, "after": after}})
    elif before != after:
        # cargo (--locked, CARGO_TARGET_DIR elsewhere) writes nothing but the lock file and target/: somebody else is
        # editing the repository; the run may have seen two states of it
        notes.append("git status of %s changed during the run (not Cargo.lock): before %r, after %r" % (REPO, (before or "").strip()[:200], (after or "").strip()[:200]))

    order = {c: coq_order(mans[c]["features"]) for c in CRATES}
    for r in results:
        c, S = r["crate"], r["features"]
        rep["evaluations"] += 1
        cl = closure(mans[c]["features"], S)
        work["distinct"].add("check|%s|%s" % (c, ",".join(sorted(cl))))
        key = "%s: cargo %s" % (c, "accepts" if r["ok"] else "REJECTS")
        work["dist"][key] = work["dist"].get(key, 0) + 1
        v = verdicts.get((c, tuple(S)))
        replay_obj = {"kind": "cargo-check", "crate": c, "features": S, "closure": canon(order[c], cl), "cmd": r["cmd"], "errors": r["errors"]}
        if not r["ok"]:
            rep["violations"].append({"class": "does-not-build:%s" % c, "replay": replay_obj,
                                      "what": "%s does not compile with --no-default-features --features %s (closure %s): %s" % (
                                          c, ",".join(S) or "<none>", ",".join(canon(order[c], cl)), " | ".join(x.strip() for x in r["errors"][:3]))})
        if v is not None:
            if v["builds"] != r["ok"]:
                rep["disagreements"].append({"class": "model-vs-cargo:%s" % c, "replay": dict(replay_obj, model=v),
                                             "what": "features [%s]: cargo %s, the model says builds = %s (items failing in the model: %s)" % (
                                                 ",".join(S), "accepts" if r["ok"] else "rejects", v["builds"], v["failing"][:4])})
            if v["canon"] != canon(order[c], cl):
                rep["disagreements"].append({"class": "closure:%s" % c, "replay": replay_obj,
                                             "what": "closure of [%s]: harness %s, model %s" % (",".join(S), canon(order[c], cl), v["canon"])})
            name = facts_c19.COQ_NAME[c]
            if len(rep["kernel_cases"]) < 40 and (len(S) <= 1 or len(rep["kernel_cases"]) % 3 == 0):
                rep["kernel_cases"].append(["builds %s (closure %s %s)" % (name, name, coq_list(S)), "true" if v["builds"] else "false"])
                rep["kernel_cases"].append(["canon %s (closure %s %s)" % (name, name, coq_list(S)), coq_list(canon(order[c], cl))])
        if len(rep["samples"]) < 8 and (len(S) == 1 or not S):
            rep["samples"].append({"crate": c, "features": S, "closure": canon(order[c], cl), "cargo_ok": r["ok"], "model_builds": v and v["builds"], "secs": r["secs"]})
    for c in CRATES:
        name = facts_c19.COQ_NAME[c]
        rep["kernel_cases"].append(["length (distinct_closures %s)" % name, "%d" % n_distinct[c]])
    rep["samples"] = (rep["samples"] + work["samples"])[:14]
    rep["evaluations"] += work["evaluations"]
    rep["distribution"] = dict(sorted(work["dist"].items()))
    rep["distribution"]["cargo check runs"] = len(results)
    rep["distribution"]["probe builds"] = len(work["probe_builds"])
    rep["distinct_nontrivial"] = len(work["distinct"])
    rep["rule"] = ("cargo check per feature list (" + ("every distinct closure of every crate" if a.tier == "thorough" else
                   "none, each single feature, default, seeded sample of further closures") + ") vs model `builds`; probe binaries in reduced "
                   "configurations vs the full build on the same tokens / corrupted tokens / nonces")
    slow = sorted(results, key=lambda r: -r["secs"])[:3]
    notes.append("cargo check: %d runs, slowest %s; probe builds: %d (%s s)" % (
        len(results), [(r["crate"], ",".join(r["features"]), r["secs"]) for r in slow], len(work["probe_builds"]),
        round(sum(b["secs"] for b in work["probe_builds"]), 1)))
    notes.append("harness wall time %.1f s" % (time.time() - t0))
    rep["violations"] = rep["violations"][:50]
    rep["disagreements"] = rep["disagreements"][:50]
    json.dump(rep, open(a.out, "w"), indent=1)
    print("C19 harness: %d evaluations, %d violations, %d disagreements, %.1fs" % (
        rep["evaluations"], len(rep["violations"]), len(rep["disagreements"]), time.time() - t0))
    return 0


if __name__ == "__main__":
    sys.exit(main())
