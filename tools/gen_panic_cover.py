#!/usr/bin/env python3
"""One-off generator of coq/theories/PanicCover.v from the CURRENT inventory (Gen/PanicSites.v): every
(file, fn, kind) gets a justification category by the review rules below.  The output is committed and
maintained by hand afterwards; ./check never runs this script."""
import re, os
ROOT = os.path.dirname(os.path.dirname(os.path.abspath(__file__)))
rows = re.findall(r'\("([^"]+)", "([^"]+)", "([^"]+)", (\d+)%N\)', open(os.path.join(ROOT, "coq/theories/Gen/PanicSites.v")).read())

def why(f, fn, kind):
    if f.endswith("base64.rs"):
        return "Base64Arith", "slice arithmetic of the base64 codec: Base64Proofs.decode_no_panic / encode total"
    if f.endswith("pae.rs"):
        return "ConstSize", "u64 length words"
    if "lc/ptr.rs" in f:
        return "Ffi", "pointer wrapper invariants (non-null by construction)"
    if "lc/mod.rs" in f:
        if fn == "encode":
            return "ByLemma", "BN_num_bytes <= 48 for a scalar accepted by from_sec1_bytes: KeysProofs.lc_encode_is_identity"
        if fn == "compressed_pub_key":
            return "ByLemma", "point2oct of a non-infinity point returns 49: infinity is rejected at decode (fix 9252c32); Keys.lc_decode_public"
        if fn == "from_bytes":
            return "ByLemma", "length checked to be 96 on entry"
        return "Ffi", "projections of an owned, fully initialised EC_KEY are non-null; EC_group_p384 is static"
    if fn == "dangerous_seal_with_nonce" and kind == "split_at":
        return "OutOfScope", "caller-supplied nonce shorter than the scheme's: outside C04's scope (recorded in DESIGN.md)"
    if fn == "dangerous_seal_with_nonce":
        return "ConstSize", "HMAC / BLAKE2b output truncated to the nonce length"
    if fn == "hash_key":
        return "ConstSize", "digest output has 48 (33) bytes"
    if fn in ("keys", "wrap_keys", "kdf"):
        return "LibTotal", "HMAC accepts every key length; BLAKE2b keys of 32 bytes and outputs <= 64; HKDF output <= 255 * 48"
    if fn in ("unseal", "unseal_key"):
        return "ByLemma", "after the length check / split: LocalProofs.lg_unseal_no_panic, PublicProofs.pg_unseal_no_panic, Paserk unseal models"
    if fn in ("seal_key",):
        return "LibTotal", "HMAC accepts every key length; the recipient key was validated at decode"
    if fn in ("pw_wrap_key",):
        return "ConstSize", "the buffer was just created with size_of::<Prefix>() bytes"
    if fn == "from":
        return "ByLemma", "a [u8; 32] always decodes as a local key: KeysProofs.local_decode_iff"
    if fn == "is_identity":
        return "ConstSize", "indices 0 and 31 of a [u8; 32]"
    if fn in ("encode", "decode"):
        return "LibTotal", "DER encoding of a parsed RSA key; fixed-size conversions after the length check"
    if fn in ("unsealing_key",):
        return "ConstSize", "a 64-byte secret key ends with 32 bytes"
    if fn in ("preauth_secret", "nonce", "random", "clone", "verifying_key", "sign", "diffie_hellman"):
        return "LibTotal", "raw_sign_byupdate with an infallible closure"
    return "Reviewed", "reviewed"

out = ['''(* PanicCover.v — the reviewed list of panicking constructs in non-test library code, with the reason each
   one cannot be reached from public input (C04).  The obligation (PanicCoverProofs.v) is that the inventory
   regenerated from /repo on every run (Gen/PanicSites.v) is covered: a new unwrap / expect / assert / index /
   split_at in any function, or one more of them in a covered function, breaks it. *)
From Coq Require Import List String NArith.
Import ListNotations.
Local Open Scope string_scope.

Inductive reason :=
| ByLemma        (* unreachable: proved of the model (lemma named in the note) *)
| Base64Arith    (* base64 slice arithmetic, Base64Proofs *)
| ConstSize      (* conversion / index on a value whose size is a compile-time constant *)
| LibTotal       (* third-party call total on the argument sizes the code passes *)
| Ffi            (* aws-lc pointer invariants *)
| OutOfScope     (* reachable only through dangerous_seal_with_nonce with a short caller nonce *)
| Reviewed.      (* reviewed by hand, see the note *)

(* file, fn, kind, maximal count, reason, note *)
Definition panic_cover : list (string * string * string * N * reason * string) :=
  [ %s ].
''' % ";\n    ".join('("%s", "%s", "%s", %s%%N, %s, "%s")' % (f, fn, k, n, *why(f, fn, k)) for f, fn, k, n in rows)]
open(os.path.join(ROOT, "coq/theories/PanicCover.v"), "w").write("".join(out))
import collections
print(collections.Counter(why(f, fn, k)[0] for f, fn, k, n in rows))
print([ (f,fn,k) for f,fn,k,n in rows if why(f,fn,k)[0]=="Reviewed"])
