#!/usr/bin/env python3
"""c18_harness.py — correspondence for C18: rustc is the ground truth.

1. builds the rlibs of the CURRENT tree of $VERIF_REPO (default /repo): harness-c18/ is a tiny crate with path
   dependencies on the eight crates (paseto-core with feature "serde") + serde_json; `cargo build --offline`
   (incremental) with --message-format=json gives the exact rlib paths;
2. asks the Coq model for its verdict on every entry of the catalogue: a generated .v file `Eval vm_compute`s
   map (fun o => (o, check gen_table o, misuse o, intended o)) all_ops   (PV.TypeRules + PV.Gen.Impls, built by make);
3. renders catalogue entries to single-file Rust programs (thorough: all; quick: every program the model or the
   statement expects to compile + a seed-chosen stratified third of the others) and compiles each with
   rustc --edition 2024 --emit=metadata --crate-type lib --extern ...   (16 in parallel);
4. compares accept/reject (and the error code class) with the model, and checks the property directly:
     violation     a misuse program that rustc ACCEPTS, a conversion that yields key bytes without expose_key,
                   or an intended program that rustc rejects;
     disagreement  model and rustc differ (accept/reject, or the predicted error code is not among rustc's).
Report: JSON per HOWTO.md item 5."""
import argparse, concurrent.futures, hashlib, json, os, re, shutil, subprocess, sys, time

ROOT = os.path.dirname(os.path.dirname(os.path.abspath(__file__)))
REPO = os.path.abspath(os.environ.get("VERIF_REPO", "/repo"))
CRATE = os.path.join(ROOT, "harness-c18")
TARGET = os.path.join(CRATE, "target")
OUT = os.path.join(ROOT, "out")
COQ_THEORIES = os.path.join(ROOT, "coq", "theories")
WORKERS = 16

CRATES = ["paseto-core", "paseto-json", "paseto-v1", "paseto-v2", "paseto-v3", "paseto-v3-aws-lc", "paseto-v4", "paseto-v4-sodium"]
EXTERNS = ["paseto_core", "paseto_v1", "paseto_v2", "paseto_v3", "paseto_v3_aws_lc", "paseto_v4", "paseto_v4_sodium", "serde_json", "serde"]
VER_CRATE = {"V1": "paseto-v1", "V2": "paseto-v2", "V3": "paseto-v3", "V3A": "paseto-v3-aws-lc", "V4": "paseto-v4", "V4S": "paseto-v4-sodium"}
PURPOSE = {"PLocal": "Local", "PPublic": "Public"}
SECRET_KINDS = ["Local", "Secret", "PkeSecret"]


def die(msg):
    print(msg)
    sys.exit(2)


# ------------------------------------------------------------------ 1. rlibs of the current tree

def crate_dir():
    """harness-c18/ is written for /repo; for another VERIF_REPO an equivalent crate is generated under out/"""
    if REPO == "/repo":
        d = CRATE
    else:
        d = os.path.join(OUT, "harness-c18-" + hashlib.sha1(REPO.encode()).hexdigest()[:10])
        os.makedirs(os.path.join(d, "src"), exist_ok=True)
        os.makedirs(os.path.join(d, ".cargo"), exist_ok=True)
        toml = open(os.path.join(CRATE, "Cargo.toml")).read().replace('"/repo/', '"%s/' % REPO)
        for name, text in [("Cargo.toml", toml), ("src/lib.rs", "//! generated\n"),
                           (".cargo/config.toml", "[net]\noffline = true\n")]:
            p = os.path.join(d, name)
            if not os.path.exists(p) or open(p).read() != text:
                open(p, "w").write(text)
    lock = os.path.join(d, "Cargo.lock")
    if not os.path.exists(lock) and os.path.exists(os.path.join(REPO, "Cargo.lock")):
        shutil.copy(os.path.join(REPO, "Cargo.lock"), lock)
    return d


def build_rlibs():
    d = crate_dir()
    env = dict(os.environ, CARGO_NET_OFFLINE="true", CARGO_TARGET_DIR=TARGET)
    p = subprocess.run(["cargo", "build", "--offline", "--message-format=json"], cwd=d, env=env,
                       stdout=subprocess.PIPE, stderr=subprocess.PIPE, text=True, errors="replace")
    rlibs = {}
    rendered = []
    for ln in p.stdout.splitlines():
        try:
            m = json.loads(ln)
        except ValueError:
            continue
        if m.get("reason") == "compiler-message":
            r = (m.get("message") or {}).get("rendered")
            if r and (m["message"].get("level") == "error"):
                rendered.append(r)
        if m.get("reason") != "compiler-artifact":
            continue
        name = m["target"]["name"].replace("-", "_")
        if name not in EXTERNS or not any(k in ("lib", "rlib") for k in m["target"]["kind"]):
            continue
        if name.startswith("paseto_") and REPO not in m.get("package_id", "") and REPO not in m.get("manifest_path", ""):
            continue
        for f in m["filenames"]:
            if f.endswith(".rlib"):
                rlibs[name] = f
    if p.returncode != 0:
        return None, "cargo build of %s's crates failed:\n%s\n%s" % (REPO, "\n".join(rendered)[-3000:], p.stderr[-1500:])
    missing = [e for e in EXTERNS if e not in rlibs]
    if missing:
        return None, "no rlib found for %s" % missing
    return rlibs, None


# ------------------------------------------------------------------ 2. the model's verdicts

def model_predictions():
    vo = os.path.join(COQ_THEORIES, "Gen", "Impls.vo")
    v = os.path.join(COQ_THEORIES, "Gen", "Impls.v")
    for f in (vo, os.path.join(COQ_THEORIES, "TypeRules.vo")):
        if not os.path.exists(f):
            die("%s is not built (run ./check C18, or make in coq/)" % f)
    if os.path.getmtime(vo) < os.path.getmtime(v):
        die("coq/theories/Gen/Impls.vo is older than Impls.v: rebuild (./check C18 does)")
    os.makedirs(OUT, exist_ok=True)
    path = os.path.join(OUT, "c18_predict_%d.v" % os.getpid())
    open(path, "w").write(
        "From Coq Require Import String List.\nFrom PV Require Import TypeRules.\nFrom PV.Gen Require Import Impls.\n"
        "Import ListNotations.\nOpen Scope string_scope.\nSet Printing Depth 10000000.\nSet Printing Width 1000000.\n"
        "Eval vm_compute in (map (fun o => (o, check gen_table o, misuse o, intended o)) all_ops).\n"
        "Eval vm_compute in (map (fun v => (v, pke_shares_signing_type gen_table v)) all_vers).\n"
        "Eval vm_compute in (map (fun '(c, t) => (c, match t with App n _ => n | _ => EmptyString end)) gen_versions).\n")
    p = subprocess.run(["coqc", "-noglob", "-Q", COQ_THEORIES, "PV", path], cwd=OUT, stdout=subprocess.PIPE,
                       stderr=subprocess.STDOUT, text=True)
    for ext in (".v", ".vo", ".vok", ".vos", ".glob"):
        try:
            os.remove(path[:-2] + ext)
        except FileNotFoundError:
            pass
    try:
        os.remove(os.path.join(OUT, "." + os.path.basename(path)[:-2] + ".aux"))
    except FileNotFoundError:
        pass
    if p.returncode != 0:
        die("coqc failed on the prediction file:\n" + p.stdout[-2000:])
    text = re.sub(r"\s+", " ", p.stdout)
    blocks = re.findall(r"= \[(.*?)\] : list", text)
    if len(blocks) != 3:
        die("cannot parse coqc's output (%d blocks)" % len(blocks))
    ops = []
    for ent in blocks[0].split(";"):
        m = re.fullmatch(r"\s*\(\s*(O[^,]+?)\s*,\s*(Accept|Reject \w+)\s*,\s*(true|false)\s*,\s*(true|false)\s*\)\s*", ent)
        if not m:
            die("cannot parse catalogue entry %r" % ent[:200])
        ops.append({"term": m.group(1), "model": m.group(2), "misuse": m.group(3) == "true", "intended": m.group(4) == "true"})
    shares = dict(re.findall(r"\((\w+), (true|false)\)", blocks[1]))
    vtypes = dict(re.findall(r'\("([^"]+)", "([^"]+)"\)', blocks[2]))
    return ops, shares, vtypes


# ------------------------------------------------------------------ 3. rendering

PRELUDE = """#![allow(warnings)]
use paseto_core::key::{HasKey, Key};
use paseto_core::paserk::{KeyId, KeyText, PasswordWrappedKey, PieWrappedKey, SealedKey};
use paseto_core::tokens::{SealedToken, UnsealedToken};
use paseto_core::validation::NoValidation;
use paseto_core::version::{Local, PkePublic, PkeSecret, Public, Secret};

pub struct Msg;
impl paseto_core::encodings::Payload for Msg {
    const SUFFIX: &'static str = "";
    fn encode(self, _w: impl paseto_core::encodings::WriteBytes) -> Result<(), Box<dyn std::error::Error + Send + Sync>> { Ok(()) }
    fn decode(_p: &[u8]) -> Result<Self, Box<dyn std::error::Error + Send + Sync>> { Ok(Msg) }
}
// Msg is as capable as a payload type can be, so that impls bounded on the payload are exercised
impl Clone for Msg { fn clone(&self) -> Self { Msg } }
impl Default for Msg { fn default() -> Self { Msg } }
impl PartialEq for Msg { fn eq(&self, _: &Self) -> bool { true } }
impl Eq for Msg {}
impl core::hash::Hash for Msg { fn hash<H: core::hash::Hasher>(&self, _: &mut H) {} }
impl core::fmt::Debug for Msg { fn fmt(&self, f: &mut core::fmt::Formatter<'_>) -> core::fmt::Result { f.write_str("Msg") } }
impl core::fmt::Display for Msg { fn fmt(&self, f: &mut core::fmt::Formatter<'_>) -> core::fmt::Result { f.write_str("Msg") } }
impl core::str::FromStr for Msg { type Err = (); fn from_str(_: &str) -> Result<Self, ()> { Ok(Msg) } }
impl serde::Serialize for Msg { fn serialize<S: serde::Serializer>(&self, s: S) -> Result<S::Ok, S::Error> { s.serialize_unit() } }
impl<'de> serde::Deserialize<'de> for Msg { fn deserialize<D: serde::Deserializer<'de>>(d: D) -> Result<Self, D::Error> { <()>::deserialize(d).map(|_| Msg) } }
fn need_clone<T: Clone>() {}
"""


def tokenize(term):
    return re.findall(r'"[^"]*"|\(|\)|\w+', term)


def parse_term(term):
    """`OTrait TDisplay (SKey V1 Local)` -> ['OTrait', 'TDisplay', ['SKey', 'V1', 'Local']]"""
    toks = tokenize(term)
    pos = 0

    def seq(stop):
        nonlocal pos
        out = []
        while pos < len(toks) and toks[pos] != stop:
            t = toks[pos]
            pos += 1
            if t == "(":
                out.append(seq(")"))
                pos += 1
            elif t.startswith('"'):
                out.append(("str", t[1:-1]))
            else:
                out.append(t)
        return out
    return seq(None)


class Render:
    def __init__(self, vtypes):
        self.vt = {}
        for v, crate in VER_CRATE.items():
            t = vtypes.get(crate)
            if not t or "::" not in t:
                die("table has no version type for " + crate)
            self.vt[v] = "%s::core::%s" % (crate.replace("-", "_"), t.split("::")[-1])

    def subject(self, s, va="VA"):
        h = s[0]
        if h == "SKey":
            return "Key<%s, %s>" % (va, s[2])
        if h == "SKeyText":
            return "KeyText<%s, %s>" % (va, s[2])
        if h == "SKeyId":
            return "KeyId<%s, %s>" % (va, s[2])
        if h == "SSealed":
            return "SealedToken<%s, %s, Msg, ()>" % (va, PURPOSE[s[2]])
        if h == "SUnsealed":
            return "UnsealedToken<%s, %s, Msg, ()>" % (va, PURPOSE[s[2]])
        if h == "SPie":
            return "PieWrappedKey<%s, %s>" % (va, s[2])
        if h == "SPw":
            return "PasswordWrappedKey<%s, %s>" % (va, s[2])
        if h == "SSealedKey":
            return "SealedKey<%s>" % va
        die("unknown subject %r" % (s,))

    def program(self, term):
        t = parse_term(term)
        h = t[0]
        va = vb = None
        body = None
        if h == "OSeal":
            _, m, va, p, vb, k = t
            call = {"MSeal": "t.seal(k, &[])", "MEncrypt": "t.encrypt(k)", "MSign": "t.sign(k)"}[m]
            body = "pub fn probe(t: UnsealedToken<VA, %s, Msg, ()>, k: &Key<VB, %s>) { let _ = %s; }" % (PURPOSE[p], k, call)
        elif h == "OUnseal":
            _, m, va, p, vb, k = t
            call = {"MUnseal": "t.unseal(k, &[], &v)", "MDecrypt": "t.decrypt(k, &v)", "MVerify": "t.verify(k, &v)"}[m]
            body = ("pub fn probe(t: SealedToken<VA, %s, Msg, ()>, k: &Key<VB, %s>) "
                    "{ let v = NoValidation::<Msg>::dangerous_no_validation(); let _ = %s; }" % (PURPOSE[p], k, call))
        elif h == "OWrapPie":
            _, va, k, vb, kw = t
            body = "pub fn probe(k: Key<VA, %s>, w: &Key<VB, %s>) { let _ = k.wrap_pie(w); }" % (k, kw)
        elif h == "OUnwrapPie":
            _, va, k, vb, kw = t
            body = "pub fn probe(x: PieWrappedKey<VA, %s>, w: &Key<VB, %s>) { let _ = x.unwrap(w); }" % (k, kw)
        elif h == "OPwWrap":
            _, va, k = t
            body = 'pub fn probe(k: Key<VA, %s>) { let _ = k.password_wrap(b"password"); }' % k
        elif h == "OPwUnwrap":
            _, va, k = t
            body = 'pub fn probe(x: PasswordWrappedKey<VA, %s>) { let _ = x.unwrap(b"password"); }' % k
        elif h == "OSealKey":
            _, va, k, vb, kw = t
            body = "pub fn probe(k: Key<VA, %s>, w: &Key<VB, %s>) { let _ = k.seal(w); }" % (k, kw)
        elif h == "OUnsealKey":
            _, va, vb, kw = t
            body = "pub fn probe(x: SealedKey<VA>, w: &Key<VB, %s>) { let _ = x.unseal(w); }" % kw
        elif h == "OExpose":
            _, va, k = t
            body = ("pub fn probe(k: &Key<VA, %s>) -> Vec<u8> { let t: KeyText<VA, %s> = k.expose_key(); "
                    "t.as_raw_bytes().to_vec() }" % (k, k))
        elif h == "OPublicKey":
            _, va, k = t
            body = "pub fn probe(k: &Key<VA, %s>) { let _ = k.public_key(); }" % k
        elif h == "OKeyId":
            _, va, k = t
            body = "pub fn probe(k: &Key<VA, %s>) { let _ = k.id(); }" % k
        elif h == "OTrait":
            _, tr, s = t
            va = s[1]
            ty = self.subject(s)
            body = {
                "TDisplay": 'pub fn probe(x: &%s) -> String { format!("{}", x) }' % ty,
                "TDebug": 'pub fn probe(x: &%s) -> String { format!("{:?}", x) }' % ty,
                "TSerialize": "pub fn probe(x: &%s) -> String { serde_json::to_string(x).unwrap() }" % ty,
                "TDeserialize": 'pub fn probe() { let _ = serde_json::from_str::<%s>("\\"x\\""); }' % ty,
                "TFromStr": 'pub fn probe() { let _ = "x".parse::<%s>(); }' % ty,
                "TClone": "pub fn probe() { need_clone::<%s>(); }" % ty,
            }[tr]
        elif h == "OField":
            _, s, f = t
            va = s[1]
            body = "pub fn probe(x: &%s) { let _ = &x.%s; }" % (self.subject(s), f[1])
        elif h == "OSameInner":
            _, va, k1, k2 = t
            body = "pub fn probe(x: <VA as HasKey<%s>>::Key) -> <VA as HasKey<%s>>::Key { x }" % (k1, k2)
        else:
            die("unknown catalogue entry %r" % term)
        src = PRELUDE + "type VA = %s;\n" % self.vt[va]
        if vb:
            src += "type VB = %s;\n" % self.vt[vb]
        return src + body + "\n"

    def extra(self, v, k, what):
        """conversions that would hand out key bytes without expose_key (not in the model's catalogue: direct predicate)"""
        bound = {"AsRef<[u8]>": "AsRef<[u8]>", "Into<Vec<u8>>": "Into<Vec<u8>>", "Into<[u8; 32]>": "Into<[u8; 32]>",
                 "Deref": "core::ops::Deref", "Borrow<[u8]>": "core::borrow::Borrow<[u8]>", "ToString": "ToString",
                 "Into<String>": "Into<String>", "Into<Box<[u8]>>": "Into<Box<[u8]>>"}[what]
        return (PRELUDE + "type VA = %s;\n" % self.vt[v]
                + "fn need<T: %s>() {}\npub fn probe() { need::<Key<VA, %s>>(); }\n" % (bound, k))


EXTRA_BOUNDS = ["AsRef<[u8]>", "Into<Vec<u8>>", "Into<[u8; 32]>", "Deref", "Borrow<[u8]>", "ToString", "Into<String>", "Into<Box<[u8]>>"]


ALIAS_RULES = {
    "SignedToken": ("paseto_core::SignedToken", ["M", "F"]), "EncryptedToken": ("paseto_core::EncryptedToken", ["M", "F"]),
    "UnsignedToken": ("paseto_core::UnsignedToken", ["M", "F"]), "UnencryptedToken": ("paseto_core::UnencryptedToken", ["M", "F"]),
    "LocalKey": ("paseto_core::LocalKey", []), "PublicKey": ("paseto_core::PublicKey", []), "SecretKey": ("paseto_core::SecretKey", []),
    "KeyId": ("paseto_core::paserk::KeyId", ["K"]), "KeyText": ("paseto_core::paserk::KeyText", ["K"]),
    "SealedKey": ("paseto_core::paserk::SealedKey", []),
    "PasswordWrappedLocalKey": ("paseto_core::paserk::PasswordWrappedKey", ["paseto_core::version::Local"]),
    "PasswordWrappedSecretKey": ("paseto_core::paserk::PasswordWrappedKey", ["paseto_core::version::Secret"]),
    "PieWrappedLocalKey": ("paseto_core::paserk::PieWrappedKey", ["paseto_core::version::Local"]),
    "PieWrappedSecretKey": ("paseto_core::paserk::PieWrappedKey", ["paseto_core::version::Secret"]),
}


def alias_probes():
    """crate-level `pub type` aliases (what programs are normally written against): an identity function between
    the alias and the generic type its NAME promises compiles iff the two are the same type"""
    import re
    out = []
    for crate in ["paseto-v1", "paseto-v2", "paseto-v3", "paseto-v3-aws-lc", "paseto-v4", "paseto-v4-sodium"]:
        lib = os.path.join(REPO, crate, "src", "lib.rs")
        src = re.sub(r"//[^\n]*", "", open(lib, encoding="utf-8").read())
        cname = crate.replace("-", "_")
        ver = "%s::core::V%s" % (cname, crate.split("-")[1][1])
        for name, params in re.findall(r"\bpub\s+type\s+(\w+)\s*(?:<([^=]*?)>)?\s*=", src):
            rule = ALIAS_RULES.get(name)
            if rule is None:
                out.append({"term": "alias: %s::%s (unknown alias)" % (cname, name), "program": None})
                continue
            generic, rest = rule
            gparams = [a for a in rest if len(a) == 1]
            bounds = {"M": "M", "F": "F", "K": "K: paseto_core::key::KeyType"}
            decl = "<%s>" % ", ".join(bounds[a] for a in gparams) if gparams else ""
            use = "<%s>" % ", ".join(gparams) if gparams else ""
            expected = "%s<%s>" % (generic, ", ".join([ver] + rest))
            prog = "#![allow(unused)]\npub fn to_alias%s(x: %s) -> %s::%s%s { x }\npub fn from_alias%s(x: %s::%s%s) -> %s { x }\n" % (
                decl, expected, cname, name, use, decl, cname, name, use, expected)
            out.append({"term": "alias: %s::%s = %s" % (cname, name, expected), "program": prog})
    return out


def op_class(term):
    t = parse_term(term)
    if t[0] in ("OSeal", "OUnseal", "OTrait"):
        return "%s.%s" % (t[0], t[1])
    if t[0] == "OField":
        return "OField.%s" % t[1][0]
    return t[0]


# ------------------------------------------------------------------ compile

def compile_one(job):
    idx, src, workdir, externs = job
    path = os.path.join(workdir, "p%05d.rs" % idx)
    open(path, "w").write(src)
    cmd = ["rustc", "--edition", "2024", "--emit=metadata", "--crate-type", "lib", "--crate-name", "p%05d" % idx,
           "--error-format=short", "--cap-lints", "allow", "-L", "dependency=" + os.path.join(TARGET, "debug", "deps"),
           "--out-dir", workdir] + externs + [path]
    p = subprocess.run(cmd, stdout=subprocess.PIPE, stderr=subprocess.PIPE, text=True, errors="replace")
    codes = sorted(set(re.findall(r"error\[(E\d+)\]", p.stderr)))
    first = ""
    for ln in p.stderr.splitlines():
        if "error" in ln:
            first = ln[:300]
            break
    for f in (path, os.path.join(workdir, "libp%05d.rmeta" % idx)):
        try:
            os.remove(f)
        except FileNotFoundError:
            pass
    return idx, p.returncode == 0, codes, first


def main():
    ap = argparse.ArgumentParser()
    ap.add_argument("--tier", default="quick")
    ap.add_argument("--seed", type=int, default=1)
    ap.add_argument("--out", default=None)
    ap.add_argument("--replay", default=None)
    a = ap.parse_args()
    t0 = time.time()
    rlibs, err = build_rlibs()
    if err:
        die(err)
    t_build = time.time() - t0
    ops, shares, vtypes = model_predictions()
    t_model = time.time() - t0 - t_build
    R = Render(vtypes)
    externs = []
    for e in EXTERNS:
        externs += ["--extern", "%s=%s" % (e, rlibs[e])]

    thorough = a.tier == "thorough"
    only = None
    if a.replay:
        rp = json.load(open(a.replay))
        only = (rp.get("replay") or {}).get("op")
    # ---- selection
    chosen = []
    strata = {}
    for i, o in enumerate(ops):
        o["idx"] = i
        o["class"] = op_class(o["term"])
        if only is not None:
            if o["term"] == only:
                chosen.append(o)
            continue
        # quick: every program the model accepts or the statement expects to compile, every SAME-VERSION program
        # (a wrong kind or purpose inside one version is the misuse a signature change lets through first), and a
        # stratified third of the cross-version ones
        vers = [t for t in re.findall(r"[A-Za-z0-9]+", o["term"]) if t in ("V1", "V2", "V3", "V3A", "V4", "V4S")]
        same_version = len(set(vers)) <= 1
        if thorough or o["model"] == "Accept" or o["intended"] or same_version:
            chosen.append(o)
        else:
            strata.setdefault((o["class"], o["model"], o["misuse"]), []).append(o)
    for key in sorted(strata):
        group = strata[key]
        off = (a.seed + int(hashlib.sha1(repr(key).encode()).hexdigest(), 16)) % 3
        picked = [o for j, o in enumerate(group) if j % 3 == off]
        if not picked:
            picked = [group[a.seed % len(group)]]
        chosen += picked
    chosen.sort(key=lambda o: o["idx"])
    extras = []
    if only is None or str(only).startswith("extra:"):
        n = 0
        for v in VER_CRATE:
            for k in SECRET_KINDS:
                for w in EXTRA_BOUNDS:
                    n += 1
                    name = "extra: Key<%s, %s>: %s" % (v, k, w)
                    if only is not None and only != name:
                        continue
                    if only is None and not thorough and (n + a.seed) % 3 != 0:
                        continue
                    extras.append({"term": name, "v": v, "k": k, "w": w})

    aliases = alias_probes() if (only is None or str(only).startswith("alias:")) else []
    if only is not None:
        aliases = [x for x in aliases if x["term"] == only]
    workdir = os.path.join(OUT, "c18_probes_%d" % os.getpid())
    os.makedirs(workdir, exist_ok=True)
    jobs = []
    progs = {}
    for o in chosen:
        progs[o["idx"]] = R.program(o["term"])
        jobs.append((o["idx"], progs[o["idx"]], workdir, externs))
    for j, e in enumerate(extras):
        e["idx"] = len(ops) + j
        progs[e["idx"]] = R.extra(e["v"], e["k"], e["w"])
        jobs.append((e["idx"], progs[e["idx"]], workdir, externs))
    for j, al in enumerate(aliases):
        al["idx"] = len(ops) + len(extras) + j
        if al["program"] is not None:
            progs[al["idx"]] = al["program"]
            jobs.append((al["idx"], al["program"], workdir, externs))
    results = {}
    with concurrent.futures.ThreadPoolExecutor(WORKERS) as ex:
        for idx, ok, codes, first in ex.map(compile_one, jobs):
            results[idx] = (ok, codes, first)
    shutil.rmtree(workdir, ignore_errors=True)
    t_rustc = time.time() - t0 - t_build - t_model

    # ---- compare
    dist = {}
    violations, disagreements, samples = [], [], []
    negatives = set()

    def count(k, n=1):
        dist[k] = dist.get(k, 0) + n

    def finding(lst, cls, what, o, idx):
        count(("violation:" if lst is violations else "disagreement:") + cls)
        if len(lst) < 50:
            lst.append({"class": cls, "what": what,
                        "replay": {"op": o["term"], "program": progs[idx], "rustc": results[idx][2],
                                   "rustc_codes": results[idx][1], "model": o.get("model")}})

    for o in chosen:
        ok, codes, first = results[o["idx"]]
        count("class:" + o["class"])
        count("rustc:" + ("accept" if ok else "+".join(codes) or "reject-without-code"))
        if o["misuse"]:
            negatives.add(o["term"])
            count("misuse-programs")
        if o["intended"]:
            count("intended-programs")
        maccept = o["model"] == "Accept"
        if o["misuse"] and ok:
            finding(violations, "misuse-compiles." + o["class"],
                    "the misuse program `%s` is ACCEPTED by rustc" % o["term"], o, o["idx"])
        if o["intended"] and not ok:
            finding(violations, "intended-rejected." + o["class"],
                    "the correct program `%s` is rejected by rustc: %s" % (o["term"], first), o, o["idx"])
        if maccept != ok:
            finding(disagreements, "accept-reject." + o["class"],
                    "`%s`: model says %s, rustc %s %s" % (o["term"], o["model"], "accepts" if ok else "rejects", first), o, o["idx"])
        elif not ok:
            pc = o["model"].split()[1]
            if pc not in codes:
                finding(disagreements, "error-code." + o["class"],
                        "`%s`: model predicts %s, rustc reports %s" % (o["term"], pc, codes), o, o["idx"])
    for e in extras:
        ok, codes, first = results[e["idx"]]
        count("class:extra-conversion")
        count("rustc:" + ("accept" if ok else "+".join(codes) or "reject-without-code"))
        negatives.add(e["term"])
        if ok:
            finding(violations, "secret-without-expose", "`%s` holds: key bytes are reachable without expose_key" % e["term"], e, e["idx"])
    for al in aliases:
        count("class:crate-alias")
        if al["program"] is None:
            count("violation:alias-unknown")
            violations.append({"class": "alias-unknown", "what": "%s is not in the reviewed alias table" % al["term"], "replay": {"op": al["term"]}})
            continue
        ok, codes, first = results[al["idx"]]
        if not ok:
            finding(violations, "alias-is-another-type", "the crate-level alias does not name the type its name promises: `%s` is rejected: %s" % (al["term"], first), al, al["idx"])
        else:
            negatives.add(al["term"])
    # samples: a few programs of different classes
    seen = set()
    for o in chosen:
        key = (o["class"].split(".")[0], o["model"] == "Accept")
        if key in seen or len(samples) >= 12:
            continue
        if o["class"].split(".")[0] in ("OSeal", "OUnseal", "OTrait", "OSealKey", "OWrapPie", "OField"):
            seen.add(key)
            body = progs[o["idx"]][len(PRELUDE):]
            samples.append({"op": o["term"], "model": o["model"], "misuse": o["misuse"], "intended": o["intended"],
                            "rustc": "accept" if results[o["idx"]][0] else results[o["idx"]][1], "program": body})
    # kernel cases: a spread of entries re-evaluated by ./check inside the kernel
    kc = []
    step = max(1, len(chosen) // 40)
    for o in chosen[a.seed % step::step][:40]:
        kc.append(["check gen_table (%s)" % o["term"], o["model"]])
        if len(kc) % 2 == 0:
            kc.append(["well_typed gen_table (%s)" % o["term"], "true" if o["model"] == "Accept" else "false"])
    kc.append(["(misuse (OSeal MSign V4 PPublic V4 PkeSecret), well_typed gen_table (OSeal MSign V4 PPublic V4 PkeSecret))", "(true, false)"])

    notes = [
        "catalogue: %d entries (model domain all_ops) + %d conversion probes; compiled this run: %d" % (
            len(ops), 6 * len(SECRET_KINDS) * len(EXTRA_BOUNDS), len(jobs)),
        "timings: cargo build %.1fs, model (coqc vm_compute of the whole catalogue) %.1fs, rustc %.1fs" % (t_build, t_model, t_rustc),
        "tree: %s" % REPO,
        "PKE keys and signing keys share one Rust type below Key<V, K> (HasKey::Key) — " + ", ".join(
            "%s: %s" % (VER_CRATE[v], "shared" if shares.get(v) == "true" else "distinct") for v in VER_CRATE)
        + "; Key<V, PkeSecret> and Key<V, Secret> are distinct in every backend (OSeal .. PkeSecret entries)",
    ]
    rep = {
        "property": "C18", "tier": a.tier, "seed": a.seed,
        "evaluations": len(jobs), "model_evaluations": len(ops), "model_prim_calls": 0,
        "distinct_nontrivial": len(negatives),
        "rule": "every catalogue entry: rustc accept/reject == model; misuse => rustc rejects; intended => rustc accepts",
        "exhaustive": bool(thorough and only is None),
        "samples": samples, "distribution": dict(sorted(dist.items())),
        "violations": violations, "disagreements": disagreements, "kernel_cases": kc, "notes": notes,
    }
    text = json.dumps(rep, indent=1)
    if a.out:
        open(a.out, "w").write(text)
    else:
        print(text)
    return 0


if __name__ == "__main__":
    sys.exit(main())
