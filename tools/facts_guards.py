"""facts_guards.py — translator plug-in, target "guards": for every `fn unseal` of the six backends
(src/core/local.rs and public.rs) the sequence of length guards and slice splits, in source order, with their
numeric constants (C04).  Writes coq/theories/Gen/Guards.v.

Row: (source file, [(operation, constant)]) with operation one of
  guard        `if len < N` / `payload.len() < N`   (returns an error below N)
  split_sub    `split_at(len - N)` / `split_at_mut(len - N)`      panics unless N <= len
  split        `split_at(N)` / `split_at_mut(N)`                  panics unless N <= len of the slice
  chunk_last   `split_last_chunk::<N>()` / `_mut`                 Option (never panics)
  chunk_first  `split_first_chunk::<N>()` / `_mut`                Option (never panics)
  to_array     `.try_into().unwrap()`                             panics unless the slice has the array's length
GuardRules.v holds the same table as the model uses it and proves (a) the two are equal and (b) every
panicking operation is covered by the guards before it."""
import re
import extract_facts as X

CRATES = ["paseto-v1", "paseto-v2", "paseto-v3", "paseto-v3-aws-lc", "paseto-v4", "paseto-v4-sodium"]

TOKEN = re.compile(
    # `if <length> < N { return Err(..` — the variable holding the length may have any name
    r"(?P<guard>\bif\s+(?:\w+|\w+\.len\(\))\s*<\s*(?P<g>\d+)\s*\{\s*return\s+Err)"
    r"|(?P<split_sub>\bsplit_at(?:_mut)?\(\s*(?:\w+|\w+\.len\(\))\s*-\s*(?P<ss>\d+)\s*\))"
    r"|(?P<split>\bsplit_at(?:_mut)?\(\s*(?P<s>\d+)\s*\))"
    r"|(?P<chunk_last>\bsplit_last_chunk(?:_mut)?::<\s*(?P<cl>\d+)\s*>)"
    r"|(?P<chunk_first>\bsplit_first_chunk(?:_mut)?::<\s*(?P<cf>\d+)\s*>)"
    r"|(?P<to_array>\.try_into\(\)\s*\.unwrap\(\))"
    r"|(?P<other_split>\bsplit_at(?:_mut)?\()")


def unseal_body(src, rel):
    m = re.search(r"\bfn\s+unseal\s*(?:<[^>]*>)?\s*\(", src)
    if not m:
        raise X.Broken("%s: no `fn unseal`" % rel)
    brace = src.index("{", m.end())
    return X.block_at(src, brace)


def gen_guards():
    rows = []
    for crate in CRATES:
        for f in ["local.rs", "public.rs"]:
            rel = "%s/src/core/%s" % (crate, f)
            body = unseal_body(X.strip_comments(X.read(rel)), rel)
            ops = []
            for m in TOKEN.finditer(body):
                if m.group("guard"):
                    ops.append(("guard", int(m.group("g"))))
                elif m.group("split_sub"):
                    ops.append(("split_sub", int(m.group("ss"))))
                elif m.group("split"):
                    ops.append(("split", int(m.group("s"))))
                elif m.group("chunk_last"):
                    ops.append(("chunk_last", int(m.group("cl"))))
                elif m.group("chunk_first"):
                    ops.append(("chunk_first", int(m.group("cf"))))
                elif m.group("to_array"):
                    ops.append(("to_array", 0))
                elif m.group("other_split"):
                    raise X.Broken("%s: a split_at whose argument the translator cannot read: %r" % (rel, body[m.start():m.start() + 60]))
            rows.append((rel, ops))
    def row(r):
        return '("%s", [%s])' % (r[0], "; ".join('("%s", %d%%N)' % o for o in r[1]))
    out = ["From Coq Require Import List String NArith.", "Import ListNotations.", "Local Open Scope string_scope.", "",
           "(* source file of a `fn unseal`, its length guards and slice splits in source order *)",
           "Definition gen_guards : list (string * list (string * N)) :=\n  [ %s ]." % ";\n    ".join(row(r) for r in rows)]
    X.write_gen("Guards.v", "\n".join(out) + "\n")


TARGETS = {"guards": gen_guards}
