"""facts_keyid.py — translator plug-in, target "keyid": the hand-written comparison / hashing impls of
paseto_core::paserk::KeyId (C13: "equality, ordering and hashing agree with their bytes").
Writes coq/theories/Gen/KeyIdImpls.v: the fields of the struct and, per trait method, its body with white space
removed."""
import re
import extract_facts as X

REL = "paseto-core/src/paserk/id.rs"


def gen_keyid():
    src = X.strip_comments(X.read(REL))
    m = re.search(r"\bpub\s+struct\s+KeyId\s*<[^>]*>\s*\{", src)
    if not m:
        raise X.Broken(REL + ": struct KeyId not found")
    fields = [re.sub(r"\s+", "", X.block_at(src, m.end() - 1))]
    rows = []
    for trait in ["PartialEq", "Eq", "PartialOrd", "Ord", "core::hash::Hash", "Clone", "Copy"]:
        mm = re.search(r"\bimpl\s*<[^>]*>\s*%s\s+for\s+KeyId\s*<\s*V\s*,\s*K\s*>\s*\{" % re.escape(trait), src)
        if not mm:
            raise X.Broken("%s: no `impl %s for KeyId<V, K>` (a derive or a changed header)" % (REL, trait))
        body = X.block_at(src, mm.end() - 1)
        fns = list(re.finditer(r"\bfn\s+(\w+)\s*(?:<[^>]*>)?\s*\([^)]*\)[^{]*\{", body))
        if not fns:
            rows.append((trait, "", ""))
        for f in fns:
            rows.append((trait, f.group(1), re.sub(r"\s+", "", X.block_at(body, f.end() - 1))))
    if re.search(r"#\[derive\([^)]*\)\]\s*pub\s+struct\s+KeyId", src):
        raise X.Broken(REL + ": KeyId carries a derive the model does not know")
    def q(s):
        if '"' in s:
            raise X.Broken("unexpected quote in " + s)
        return '"%s"' % s
    out = ["From Coq Require Import List String.", "Import ListNotations.", "Local Open Scope string_scope.", "",
           "Definition gen_keyid_fields : list string := [%s]." % "; ".join(q(f) for f in fields), "",
           "(* trait, method, body without white space *)",
           "Definition gen_keyid_impls : list (string * string * string) :=\n  [ %s ]." % ";\n    ".join("(%s, %s, %s)" % (q(a), q(b), q(c)) for a, b, c in rows)]
    X.write_gen("KeyIdImpls.v", "\n".join(out) + "\n")


TARGETS = {"keyid": gen_keyid}
