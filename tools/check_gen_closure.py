#!/usr/bin/env python3
"""For every property: the regenerated tables (coq/theories/Gen/*.v) in the dependency closure of its property and
non-vacuity files must be produced by the translator targets named in its lib/props.d entry — otherwise a check could
build against a table left over from another tree.  Exit 1 and a line per problem."""
import collections, glob, json, os, re, subprocess, sys
ROOT = os.path.dirname(os.path.dirname(os.path.abspath(__file__)))
COQ = os.path.join(ROOT, "coq")
TARGET_FILE = {"headers": "Headers", "keyid": "KeyIdImpls", "pae": "PaeSites", "macs": "MacSites", "kdf": "KdfSites", "writers": "Writers", "ciphers": "Ciphers", "panics": "PanicSites",
               "guards": "Guards", "impls": "Impls", "aliases": "Aliases", "sharing": "Sharing", "features": "Features"}
subprocess.run("make .Makefile.d >/dev/null 2>&1", shell=True, cwd=COQ)
deps = collections.defaultdict(set)
for l in open(os.path.join(COQ, ".Makefile.d")):
    if ":" not in l:
        continue
    lhs, rhs = l.split(":", 1)
    for t in lhs.split():
        if t.endswith(".vo"):
            deps[t].update(d for d in rhs.split() if d.endswith(".vo"))
def closure(t, seen):
    for d in deps.get(t, ()):
        if d not in seen:
            seen.add(d)
            closure(d, seen)
    return seen
bad = 0
for f in sorted(glob.glob(os.path.join(ROOT, "lib", "props.d", "C*.json"))):
    cfg = json.load(open(f))
    pid = os.path.basename(f)[:-5]
    coqs = cfg["coq"] if isinstance(cfg["coq"], list) else [cfg["coq"]]
    seen = set()
    for c in coqs:
        for kind in ("Properties", "NonVacuity"):
            closure("theories/%s/%s.vo" % (kind, c[:-2]), seen)
    seen.update(closure("theories/%s.vo" % cfg.get("kernel_import", "KernelCases"), set()))
    need = {os.path.basename(x)[:-3] for x in seen if "/Gen/" in x}
    have = {TARGET_FILE[t] for t in cfg.get("gen", [])}
    if need - have:
        print("%s: depends on regenerated table(s) %s that its gen list %s does not produce" % (pid, sorted(need - have), cfg.get("gen", [])))
        bad = 1
sys.exit(bad)
