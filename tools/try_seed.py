#!/usr/bin/env python3
"""try_seed.py <seed id> <patch> <demo> <meta.json> <check ids...>
Copies a confirmed seeded change into /verif/seeded/<id>/, applies it to /repo, runs the given checks (quick),
records exit codes and VIOLATION lines in meta.json, and ALWAYS reverts /repo afterwards."""
import json, os, shutil, subprocess, sys, time
sid, patch, demo, meta = sys.argv[1:5]
checks = sys.argv[5:]
dst = "/verif/seeded/" + sid
os.makedirs(dst, exist_ok=True)
(shutil.copy(patch, dst + "/patch.diff") if os.path.abspath(patch) != os.path.abspath(dst + "/patch.diff") else None)
ext = ".sh" if open(demo).read(2) == "#!" else ".rs"
(shutil.copy(demo, dst + "/demo" + ext) if os.path.abspath(demo) != os.path.abspath(dst + "/demo" + ext) else None)
m = json.load(open(meta))
subprocess.run(["git", "-C", "/repo", "checkout", "--", "."], check=True)
r = subprocess.run(["git", "-C", "/repo", "apply", dst + "/patch.diff"], capture_output=True, text=True)
det = {}
try:
    if r.returncode != 0:
        det["apply_error"] = r.stderr[-500:]
    else:
        for c in checks:
            t0 = time.time()
            p = subprocess.run(["./check", c, "--tier", "quick"], cwd="/verif", capture_output=True, text=True)
            lines = [l for l in p.stdout.split("\n") if l.startswith("VIOLATION") or l.startswith("KNOWN-FINDING") or l.startswith(c)]
            first = None
            for l in lines:
                if l.startswith("VIOLATION"):
                    rp = l.split("replay=")[1].split()[0]
                    try:
                        d = json.load(open(rp))
                        first = {"kind": d.get("kind"), "class": d.get("class"), "what": (d.get("what") or json.dumps(d.get("no_longer_checks"))[:400])[:400]}
                    except Exception as e:
                        first = {"error": str(e)}
                    break
            det[c] = {"exit": p.returncode, "lines": [l[:300] for l in lines][:6], "first_violation": first, "wall_s": round(time.time() - t0, 1)}
finally:
    subprocess.run(["git", "-C", "/repo", "checkout", "--", "."], check=True)
prev = m.get("detection", {})
prev.update(det)
m["detection"] = prev
m["confirmed_by_me"] = "demo passes on the clean tree, fails with the patch; `cargo test --workspace --no-fail-fast --offline` passes with the patch (run in a scratch worktree by /tmp/confirm_seed.sh)"
json.dump(m, open(dst + "/meta.json", "w"), indent=1)
print(sid, json.dumps(det)[:600])
