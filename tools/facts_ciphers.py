"""facts_ciphers.py — translator plug-in, target "ciphers": the counter-mode flavour instantiated at every
AES-CTR site of the RustCrypto v1 / v3 backends (C03, C07).  Writes coq/theories/Gen/Ciphers.v."""
import re
import extract_facts as X

FILES = ["local.rs", "pie_wrap.rs", "pw_wrap.rs", "pke.rs"]


def gen_ciphers():
    rows = []
    for crate in ["paseto-v1", "paseto-v3"]:
        for f in FILES:
            rel = "%s/src/core/%s" % (crate, f)
            src = X.strip_comments(X.read(rel))
            toks = re.findall(r"\bctr::(Ctr\w+)\b|\b(Ctr(?:32|64|128)(?:BE|LE))\b", src)
            toks = [a or b for a, b in toks]
            if not toks:
                raise X.Broken("%s: no counter-mode instantiation found (expected ctr::Ctr...)" % rel)
            for t in toks:
                rows.append((rel, t))
        # any other file of the crate mentioning a counter flavour is a site the model does not know
        import glob, os
        for path in glob.glob(os.path.join(X.REPO, crate, "src", "**", "*.rs"), recursive=True):
            rel = os.path.relpath(path, X.REPO)
            if rel.endswith(tuple("src/core/" + f for f in FILES)):
                continue
            if re.search(r"\bCtr(?:32|64|128)(?:BE|LE)\b", X.strip_comments(open(path).read())):
                raise X.Broken("%s: counter-mode instantiation in a file the model does not cover" % rel)
    out = ["From Coq Require Import List String.", "Import ListNotations.", "Local Open Scope string_scope.", "",
           "(* source file, counter flavour token *)",
           "Definition gen_ctr_sites : list (string * string) :=\n  [ %s ]." % ";\n    ".join('("%s", "%s")' % r for r in rows)]
    X.write_gen("Ciphers.v", "\n".join(out) + "\n")


TARGETS = {"ciphers": gen_ciphers}
