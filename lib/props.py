# Per-property configuration shared by ./check and the MANIFEST generator.
# coq:      property file under coq/theories/Properties (statements + Print Assumptions only)
# harness:  pvh sub-command (implementation vs extracted model vs direct predicate)
# gen:      regenerated inventories (tools/extract_facts.py targets) the proof depends on

TRUSTED_COMMON = [
    "Coq 8.16.1 kernel (coqc, full .vo build; vm_compute used for finite enumerations and cases.v; no native_compute)",
    "axioms: none (Print Assumptions = 'Closed under the global context' for every property theorem, parsed on every run)",
    "hand-written Gallina model of the Rust glue; tied to /repo by the behavioural correspondence (pvh: real API vs extracted model on the same inputs) run on every check",
    "Coq extraction to OCaml with ExtrOcamlBasic only (Extract Inductive bool/option/list/prod/unit/sumbool; no Extract Constant), ocaml/driver.ml, cross-checked against in-kernel vm_compute on a sample of every batch (cases.v)",
    "Rust harness /verif/harness (generators, canonicaliser, direct predicates), rustc/cargo 1.95",
]

PROPS = {
    "C09": {
        "coq": "C09.v",
        "harness": "c09",
        "gen": ["headers"],
        "design_ref": "DESIGN.md §8 C09",
        "technique": "Rocq proof (base64 decode∘encode = id, canonical form, text types both directions, no panic) + exhaustive/sampled model/implementation correspondence",
        "level_text": "Machine-checked for all byte strings: decode_vec (encode bs) = Ok bs; decode_vec s = Ok bs -> encode bs = s (so padding, foreign alphabet, whitespace, non-canonical trailing bits, length = 1 mod 4 are rejected); the 6-bit alphabet equals RFC 4648 §5 (256-case sweep); parse∘print and print∘parse for key text / wrapped / sealed keys, 33-byte key ids and tokens (only alias: one trailing '.'); no parser panics. The model mirrors base64.rs function by function (i16 masks included) and is compared with the real FromStr/Display/serde of all 17 text types x 6 backends.",
        "level_note": "Trusted: Coq kernel; the model's faithfulness rests on the correspondence: exhaustive over all strings of <=2 characters (131-character set incl. multi-byte) and 3-character strings over alphabet+specials, every character at the last two positions of every tail length, plus canonical encodings and mutations through every text type; error kinds compared. serde clause is decided by the correspondence only (collect_str / visit_str are serde's). Key<V,K> re-encoding (PEM->DER) is C08's subject.",
        "trusted": [],
    },
    "C10": {
        "coq": "C10.v",
        "harness": "c10",
        "gen": ["headers"],
        "design_ref": "DESIGN.md §8 C10",
        "technique": "Rocq proof over the header table regenerated from source (constants = spec, prefix-freeness by vm_compute, general cross-rejection lemma) + exhaustive 102x102 parser cross product",
        "level_text": "The header constants are re-read from /repo on every run (translator) and proved equal to the PASETO/PASERK constants; all 56 full prefixes end in '.' and are pairwise prefix-incomparable (vm_compute over the regenerated table); general theorem: a string accepted under one prefix is rejected with the format error by every parser stripping a different prefix. Every ordered pair of the 102 real parsers is exercised.",
        "level_note": "Trusted: Coq kernel, tools/extract_facts.py (regex/brace reader of `impl Version/KeyType/SealingKey` const items and of the header constants named in each Display/FromStr; failure to extract is reported as a broken tie). Key-length and header-rewrite clauses are decided with C08 / C06 and re-stated there.",
        "trusted": ["translator tools/extract_facts.py (headers inventory)"],
    },
    "C11": {
        "coq": "C11.v",
        "harness": "c11",
        "gen": [],
        "design_ref": "DESIGN.md §8 C11",
        "technique": "Rocq proof (iff-characterisation of every built-in validator and combinator; pipeline theorem) + model/implementation correspondence on dynamically built validator expressions",
        "level_text": "Machine-checked: unseal returns claims only if validate accepted exactly those claims and otherwise returns the validator's error; Time / TimeWithLeeway accept iff (no exp or exp >= now - leeway) and (no nbf or nbf <= now + leeway) for all representable now±leeway; HasExpiry, ForSubject, FromIssuer, ForAudience, NoValidation, and_then, slices, Vec, Box/Rc/Arc, map are exact. The model is compared with the real validators (Box<dyn Validate> built from every combinator) and with the statement's inequalities written directly in the harness; the pipeline runs on all six backends.",
        "level_note": "Trusted: Coq kernel; jiff's Timestamp ordering and checked arithmetic (modelled as Z with the MIN/MAX range pinned against jiff on every run); the projection used with map is one of three fixed pure functions (identity, drop exp, swap iss/sub).",
        "trusted": ["jiff::Timestamp comparison and ±Duration (modelled as Z, range constants pinned at run time)"],
    },
    "C15": {
        "coq": "C15.v",
        "harness": "c15",
        "gen": [],
        "design_ref": "DESIGN.md §8 C15",
        "technique": "Rocq proof (closed form, injectivity via total decoder, prefix-freeness, streaming) + model/implementation correspondence",
        "level_text": "Machine-checked theorems over all piece lists and fragmentations: pae = spec closed form on concatenated fragments, injective and prefix-free for lengths < 2^64, streaming writers see the same bytes. The model is tied to pre_auth_encode::<N> (N=0..8) by differential runs on every check.",
        "level_note": "Trusted: Coq kernel; hand-written model of pae.rs validated against the real function on 10^4 (quick) / 2*10^5 (thorough) structured cases incl. an exhaustive small-shape enumeration; backend digest/MAC adapters are covered through whole-token bit-exactness (C03), not here.",
        "trusted": [],
    },
}

ORDER = ["C%02d" % i for i in range(1, 20)]
