# Per-property configuration shared by ./check and the MANIFEST generator: one JSON file per claimed
# property under lib/props.d/.  Fields:
#   coq          property file under coq/theories/Properties (statements + Print Assumptions only)
#   harness      pvh sub-command (implementation vs extracted model vs direct predicate), or
#   harness_cmd  argv list of any other report-producing command; placeholders {tier} {seed} {out} {model} {root}
#   gen          regenerated inventories (tools/extract_facts.py targets) the proof depends on
#   kernel_import  module cases.v imports (default PV.KernelCases)
import glob, json, os

TRUSTED_COMMON = [
    "Coq 8.16.1 kernel (coqc, full .vo build; vm_compute used for finite enumerations and cases.v; no native_compute)",
    "axioms: none (Print Assumptions = 'Closed under the global context' for every property theorem, parsed on every run)",
    "hand-written Gallina model of the Rust glue; tied to /repo by the behavioural correspondence (real API vs extracted model on the same inputs) run on every check",
    "Coq extraction to OCaml with ExtrOcamlBasic only (Extract Inductive bool/option/list/prod/unit/sumbool; no Extract Constant), ocaml/*.ml driver, cross-checked against in-kernel vm_compute on a sample of every batch (cases.v)",
    "Rust harness /verif/harness (generators, canonicaliser, direct predicates), rustc/cargo 1.95",
]

_D = os.path.join(os.path.dirname(os.path.abspath(__file__)), "props.d")
PROPS = {}
for _p in sorted(glob.glob(os.path.join(_D, "C*.json"))):
    PROPS[os.path.basename(_p)[:-5]] = json.load(open(_p, encoding="utf-8"))

ORDER = ["C%02d" % i for i in range(1, 20)]
