# Per-property configuration shared by ./check and the MANIFEST generator.
# coq:      property file under coq/theories/Properties (statements + Print Assumptions only)
# harness:  pvh sub-command (implementation vs extracted model vs direct predicate)
# gen:      regenerated inventories (tools/extract_facts.py targets) the proof depends on

TRUSTED_COMMON = [
    "Coq 8.16.1 kernel (coqc, full .vo build; vm_compute used for finite enumerations and cases.v; no native_compute)",
    "axioms: none (Print Assumptions = 'Closed under the global context' for every property theorem, parsed on every run)",
    "hand-written Gallina model of the Rust glue; tied to /repo by the behavioural correspondence (pvh: real API vs extracted model on the same inputs) run on every check",
    "Coq extraction to OCaml with ExtrOcamlBasic only (Extract Inductive bool/option/list/prod/unit/sumbool; no Extract Constant), ocaml/driver.ml, cross-checked against in-kernel vm_compute on a sample of every batch (cases.v)",
    "Rust harness /verif/harness (generators, canonicaliser, direct predicates), rustc/cargo 1.95",
]

PROPS = {
    "C15": {
        "coq": "C15.v",
        "harness": "c15",
        "gen": [],
        "design_ref": "DESIGN.md §8 C15",
        "technique": "Rocq proof (closed form, injectivity via total decoder, prefix-freeness, streaming) + model/implementation correspondence",
        "level_text": "Machine-checked theorems over all piece lists and fragmentations: pae = spec closed form on concatenated fragments, injective and prefix-free for lengths < 2^64, streaming writers see the same bytes. The model is tied to pre_auth_encode::<N> (N=0..8) by differential runs on every check.",
        "level_note": "Trusted: Coq kernel; hand-written model of pae.rs validated against the real function on 10^4 (quick) / 2*10^5 (thorough) structured cases incl. an exhaustive small-shape enumeration; backend digest/MAC adapters are covered through whole-token bit-exactness (C03), not here.",
        "trusted": [],
    },
}

ORDER = ["C%02d" % i for i in range(1, 20)]
