(* ops_spec.ml — the specification-side definitions (SpecTokens.v) *)
type ostring = string
open Model
open Drv
let oracle = Ops_schemes.oracle

(* (spec_local sVER key n m f i): v1/v2: n is the random value the synthetic nonce is derived from *)
let op_spec_local = function
  | [v; k; n; m; f; i] ->
      let k = as_bytes k and n = as_bytes n and m = as_bytes m and f = as_bytes f and i = as_bytes i in
      of_bytes (match as_sym v with
                | "v1" -> spec_v1_encrypt oracle k n m f
                | "v1-with-nonce" -> spec_v1_encrypt_with oracle k n m f
                | "v2" -> spec_v2_encrypt oracle k n m f
                | "v3" -> spec_v3_encrypt oracle k n m f i
                | "v4" -> spec_v4_encrypt oracle k n m f i
                | s -> failwith ("version " ^ s))
  | _ -> failwith "spec_local: arity"

(* (spec_sign_input sVER pk m f i) *)
let op_spec_sign_input = function
  | [v; pk; m; f; i] ->
      let pk = as_bytes pk and m = as_bytes m and f = as_bytes f and i = as_bytes i in
      of_bytes (match as_sym v with
                | "v1" -> spec_v1_sign_input m f
                | "v2" -> spec_v2_sign_input m f
                | "v3" -> spec_v3_sign_input pk m f i
                | "v4" -> spec_v4_sign_input m f i
                | s -> failwith ("version " ^ s))
  | _ -> failwith "spec_sign_input: arity"

let op_spec_sign = function
  | [v; seed; m; f; i] ->
      let seed = as_bytes seed and m = as_bytes m and f = as_bytes f and i = as_bytes i in
      of_bytes (match as_sym v with
                | "v2" -> spec_v2_sign oracle seed m f
                | "v4" -> spec_v4_sign oracle seed m f i
                | s -> failwith ("version " ^ s))
  | _ -> failwith "spec_sign: arity"

let () =
  register "spec_local" op_spec_local;
  register "spec_sign_input" op_spec_sign_input;
  register "spec_sign" op_spec_sign;
  ()
