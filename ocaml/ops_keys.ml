(* ops_keys.ml — key codecs, text and ids (Keys.v) *)
type ostring = string
open Model
open Drv
let oracle = Ops_schemes.oracle
let rb = of_result of_bytes

let backend_of = function
  | "v1" -> B1 | "v2" -> B2 | "v3" -> B3 | "v3-aws-lc" -> B3A | "v4" -> B4 | "v4-sodium" -> B4S
  | s -> failwith ("backend " ^ s)
let kind_of = function
  | "local" -> KLocal | "public" -> KPublic | "secret" -> KSecret | "pke-public" -> KPkePublic | "pke-secret" -> KPkeSecret
  | s -> failwith ("kind " ^ s)

(* (key_roundtrip sB sK bytes): decode then encode *)
let op_key_roundtrip = function
  | [b; k; d] ->
      let b = backend_of (as_sym b) and k = kind_of (as_sym k) in
      rb (match key_decode oracle b k (as_bytes d) with
          | Ok obj -> key_encode oracle b k obj
          | Err e -> Err e
          | Panic s -> Panic s)
  | _ -> failwith "key_roundtrip: arity"
(* (key_public_of sB bytes): decode as secret, derive the public key, encode it *)
let op_key_public_of = function
  | [b; d] ->
      let b = backend_of (as_sym b) in
      rb (match key_decode oracle b KSecret (as_bytes d) with
          | Ok obj -> public_of oracle b obj
          | Err e -> Err e
          | Panic s -> Panic s)
  | _ -> failwith "key_public_of: arity"
let op_key_parse = function
  | [b; k; s] ->
      let b = backend_of (as_sym b) and k = kind_of (as_sym k) in
      rb (match key_from_str oracle b k (as_bytes s) with
          | Ok obj -> key_encode oracle b k obj
          | Err e -> Err e
          | Panic s -> Panic s)
  | _ -> failwith "key_parse: arity"
let op_key_text = function
  | [b; k; d] ->
      let b = backend_of (as_sym b) and k = kind_of (as_sym k) in
      rb (match key_decode oracle b k (as_bytes d) with
          | Ok obj -> key_to_text oracle b k obj
          | Err e -> Err e
          | Panic s -> Panic s)
  | _ -> failwith "key_text: arity"
let op_key_id = function
  | [b; k; d] ->
      let b = backend_of (as_sym b) and k = kind_of (as_sym k) in
      rb (match key_decode oracle b k (as_bytes d) with
          | Ok obj -> key_id_text oracle b k obj
          | Err e -> Err e
          | Panic s -> Panic s)
  | _ -> failwith "key_id: arity"

let () =
  register "key_roundtrip" op_key_roundtrip; register "key_public_of" op_key_public_of;
  register "key_parse" op_key_parse; register "key_text" op_key_text; register "key_id" op_key_id;
  ()
