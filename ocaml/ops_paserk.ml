(* ops_paserk.ml — PASERK operations (Paserk.v) *)
type ostring = string
open Model
open Drv
let oracle = Ops_schemes.oracle
let rb = of_result of_bytes

let pie_of = function
  | "v1" -> v1_pie oracle | "v2" -> v2_pie oracle | "v3" -> v3_pie oracle
  | "v3-aws-lc" -> lc_pie oracle | "v4" -> v4_pie oracle | "v4-sodium" -> na_pie oracle
  | s -> failwith ("backend " ^ s)
let pw_of = function
  | "v1" -> v1_pw oracle | "v2" -> v2_pw oracle | "v3" -> v3_pw oracle
  | "v3-aws-lc" -> lc_pw oracle | "v4" -> v4_pw oracle | "v4-sodium" -> na_pw oracle
  | s -> failwith ("backend " ^ s)

(* (pie_wrap sB header wk key nonce) *)
let op_pie_wrap = function
  | [b; h; wk; k; n] -> rb (pie_wrap (pie_of (as_sym b)) (as_bytes h) (as_bytes wk) (as_bytes k) (as_bytes n))
  | _ -> failwith "pie_wrap: arity"
let op_pie_unwrap = function
  | [b; h; wk; d] -> rb (pie_unwrap (pie_of (as_sym b)) (as_bytes h) (as_bytes wk) (as_bytes d))
  | _ -> failwith "pie_unwrap: arity"
(* (pw_wrap sB header pass params key salt nonce) *)
let op_pw_wrap = function
  | [b; h; p; pa; k; s; n] ->
      rb (pw_wrap (pw_of (as_sym b)) (as_bytes h) (as_bytes p) (as_bytes pa) (as_bytes k) (as_bytes s) (as_bytes n))
  | _ -> failwith "pw_wrap: arity"
let op_pw_unwrap = function
  | [b; h; p; d] -> rb (pw_unwrap (pw_of (as_sym b)) (as_bytes h) (as_bytes p) (as_bytes d))
  | _ -> failwith "pw_unwrap: arity"
let op_pw_params = function
  | [b; d] -> rb (pw_get_params (pw_of (as_sym b)) (as_bytes d))
  | _ -> failwith "pw_params: arity"
(* (pke_seal sB pk key r) *)
let op_pke_seal = function
  | [b; pk; k; r] ->
      let pk = as_bytes pk and k = as_bytes k and r = as_bytes r in
      rb (match as_sym b with
          | "v1" -> v1_pke_seal oracle pk k r
          | "v1-minimal" -> v1_pke_seal_minimal oracle pk k r
          | "v2" -> v2_pke_seal oracle pk k r
          | "v3" -> v3_pke_seal oracle ctr_w_rustcrypto pk k r
          | "v3-aws-lc" -> v3_pke_seal oracle ctr_w_awslc pk k r
          | "v4" -> v4_pke_seal oracle pk k r
          | "v4-sodium" -> na_pke_seal oracle pk k r
          | s -> failwith ("backend " ^ s))
  | _ -> failwith "pke_seal: arity"
let op_pke_unseal = function
  | [b; sk; d] ->
      let sk = as_bytes sk and d = as_bytes d in
      rb (match as_sym b with
          | "v1" -> v1_pke_unseal oracle sk d
          | "v2" -> v2_pke_unseal oracle sk d
          | "v3" -> v3_pke_unseal oracle sk d
          | "v3-aws-lc" -> lc_pke_unseal oracle sk d
          | "v4" -> v4_pke_unseal oracle sk d
          | "v4-sodium" -> na_pke_unseal oracle sk d
          | s -> failwith ("backend " ^ s))
  | _ -> failwith "pke_unseal: arity"

let () =
  register "pie_wrap" op_pie_wrap; register "pie_unwrap" op_pie_unwrap;
  register "pw_wrap" op_pw_wrap; register "pw_unwrap" op_pw_unwrap; register "pw_params" op_pw_params;
  register "pke_seal" op_pke_seal; register "pke_unseal" op_pke_unseal;
  ()
