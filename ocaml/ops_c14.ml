(* ops_c14.ml — operations for C14 (Claims.v: RegisteredClaims serializer and visitor).
   jvalue on the wire:  snull | (sbool strue|sfalse) | (snum x<text>) | (sstr x<utf8>) | sbadstr
                        | (sarr v ...) | (sobj (x<key> v) ...)
   member list:         ((x<key> v) ...)
   claims:              (iss sub aud exp nbf iat jti), each  snone | (ssome x<bytes>|n<ns>)
   The jiff text layer is the harness's: the model asks  CALL (parse_ts x<text>) -> snone | (ssome n<ns>)
   and  CALL (fmt_ts n<ns>) -> x<text>. *)
type ostring = string
open Model
open Drv

let rec as_jvalue (v : sexp) : jvalue =
  match v with
  | Sy "null" -> JNull
  | L [Sy "bool"; Sy "true"] -> JBool true
  | L [Sy "bool"; Sy "false"] -> JBool false
  | L [Sy "num"; t] -> JNum (as_bytes t)
  | L [Sy "str"; s] -> JStr (as_bytes s)
  | Sy "badstr" -> JBadStr
  | L (Sy "arr" :: items) -> JArr (List.map as_jvalue items)
  | L (Sy "obj" :: ms) -> JObj (List.map as_member ms)
  | _ -> failwith "jvalue"
and as_member (m : sexp) : (byte list * jvalue) =
  match m with
  | L [k; v] -> (as_bytes k, as_jvalue v)
  | _ -> failwith "member"

let rec of_jvalue (v : jvalue) : sexp =
  match v with
  | JNull -> Sy "null"
  | JBool b -> L [Sy "bool"; of_bool b]
  | JNum t -> L [Sy "num"; of_bytes t]
  | JStr s -> L [Sy "str"; of_bytes s]
  | JBadStr -> Sy "badstr"
  | JArr items -> L (Sy "arr" :: List.map of_jvalue items)
  | JObj ms -> L (Sy "obj" :: List.map of_member ms)
and of_member ((k, v) : byte list * jvalue) : sexp = L [of_bytes k; of_jvalue v]

let as_opt14 f = function Sy "none" -> None | L [Sy "some"; v] -> Some (f v) | _ -> failwith "expected option"
let as_claims14 = function
  | L [i; s; a; e; n; t; j] ->
      { iss = as_opt14 as_bytes i; sub0 = as_opt14 as_bytes s; aud = as_opt14 as_bytes a;
        exp = as_opt14 as_z e; nbf = as_opt14 as_z n; iat = as_opt14 as_z t; jti = as_opt14 as_bytes j }
  | _ -> failwith "claims"
let of_z (x : z) : sexp = Nn (dec_of_z x)
let of_claims (c : claims) : sexp =
  L [ of_option of_bytes c.iss; of_option of_bytes c.sub0; of_option of_bytes c.aud;
      of_option of_z c.exp; of_option of_z c.nbf; of_option of_z c.iat; of_option of_bytes c.jti ]

(* the Section variables of Claims.v, answered by the harness (jiff) *)
let parse_ts (s : byte list) : z option =
  match call "parse_ts" [of_bytes s] with
  | Sy "none" -> None
  | L [Sy "some"; n] -> Some (as_z n)
  | _ -> failwith "parse_ts: bad answer"
let fmt_ts (t : z) : byte list = as_bytes (call "fmt_ts" [of_z t])

let op_visit = function
  | [ms] -> of_result of_claims (visit parse_ts (List.map as_member (as_list ms)))
  | _ -> failwith "claims_visit: arity"
let op_decode_value = function
  | [v] -> of_result of_claims (decode_value parse_ts (as_jvalue v))
  | _ -> failwith "claims_decode_value: arity"
let op_members = function
  | [c] -> L (List.map of_member (members_of fmt_ts (as_claims14 c)))
  | _ -> failwith "claims_members: arity"
let op_last_value = function
  | [k; ms] -> of_option of_jvalue (last_value (as_bytes k) (List.map as_member (as_list ms)))
  | _ -> failwith "claims_last_value: arity"
(* the generic reader's reading of every registered member: (iss sub aud exp nbf iat jti) *)
let op_generic_read = function
  | [ms] ->
      let ms = List.map as_member (as_list ms) in
      let rs k = of_option of_bytes (read_str (last_value k ms)) in
      let rt k = of_option of_z (read_ts parse_ts (last_value k ms)) in
      L [ rs k_iss; rs k_sub; rs k_aud; rt k_exp; rt k_nbf; rt k_iat; rs k_jti ]
  | _ -> failwith "claims_generic_read: arity"
let op_field_of_key = function
  | [k] -> (match field_of_key (as_bytes k) with
            | None -> Sy "ignored"
            | Some FIss -> Sy "iss" | Some FSub -> Sy "sub" | Some FAud -> Sy "aud" | Some FExp -> Sy "exp"
            | Some FNbf -> Sy "nbf" | Some FIat -> Sy "iat" | Some FJti -> Sy "jti")
  | _ -> failwith "claims_field_of_key: arity"

let () =
  register "claims_visit" op_visit;
  register "claims_decode_value" op_decode_value;
  register "claims_members" op_members;
  register "claims_last_value" op_last_value;
  register "claims_generic_read" op_generic_read;
  register "claims_field_of_key" op_field_of_key;
  ()
