(* drv.ml — core of the driver: runs the extracted Gallina model (model.ml) on cases read from stdin.

   Protocol (one line each way, S-expressions):
     value ::= x<hex> | n<decimal> | s<identifier> | ( value* )
   stdin : one case per line      (op arg ...)
   stdout: while evaluating a case the model may ask for a primitive:
             CALL (name arg ...)      and then reads one line: the answer value
           finally
             RESULT value
   No Obj.magic; byte/N/nat conversions go through the extracted b2n/n2b. *)

type ostring = string
open Model

type sexp = X of ostring (* raw bytes *) | Nn of ostring (* decimal *) | Sy of ostring | L of sexp list

(* ---------- conversions ---------- *)

let rec pos_of_int (i : int) : positive =
  if i = 1 then XH else if i land 1 = 0 then XO (pos_of_int (i lsr 1)) else XI (pos_of_int (i lsr 1))

let n_of_int (i : int) : n = if i = 0 then N0 else Npos (pos_of_int i)

let rec int_of_pos (p : positive) : int =
  match p with XH -> 1 | XO q -> 2 * int_of_pos q | XI q -> 2 * int_of_pos q + 1

let int_of_n (x : n) : int = match x with N0 -> 0 | Npos p -> int_of_pos p

let byte_tab : byte array = Array.init 256 (fun i -> n2b (n_of_int i))
let int_of_byte (b : byte) : int = int_of_n (b2n b)

let bytes_of_string (s : ostring) : byte list =
  let r = ref [] in
  for i = String.length s - 1 downto 0 do r := byte_tab.(Char.code s.[i]) :: !r done;
  !r

let string_of_bytes (l : byte list) : ostring =
  let b = Buffer.create 64 in
  List.iter (fun x -> Buffer.add_char b (Char.chr (int_of_byte x))) l;
  Buffer.contents b

let rec nat_of_int (i : int) : nat = if i <= 0 then O else S (nat_of_int (i - 1))
let int_of_nat (x : nat) : int = let rec go acc = function O -> acc | S y -> go (acc + 1) y in go 0 x

(* decimal strings <-> N / Z (arbitrary precision, via repeated *10 in N) *)
let n_of_dec (s : ostring) : n =
  let ten = n_of_int 10 in
  let acc = ref N0 in
  String.iter (fun c -> acc := N.add (N.mul !acc ten) (n_of_int (Char.code c - 48))) s;
  !acc

let dec_of_n (x : n) : ostring =
  if x = N0 then "0" else begin
    let ten = n_of_int 10 in
    let b = Buffer.create 20 in
    let cur = ref x in
    while !cur <> N0 do
      let q = N.div !cur ten in
      let r = N.sub !cur (N.mul q ten) in
      Buffer.add_char b (Char.chr (48 + int_of_n r));
      cur := q
    done;
    let s = Buffer.contents b in
    String.init (String.length s) (fun i -> s.[String.length s - 1 - i])
  end

(* signed decimals <-> Z *)
let z_of_dec (s : ostring) : z =
  if String.length s > 0 && s.[0] = '-' then
    (match n_of_dec (String.sub s 1 (String.length s - 1)) with N0 -> Z0 | Npos p -> Zneg p)
  else (match n_of_dec s with N0 -> Z0 | Npos p -> Zpos p)

let dec_of_z (x : z) : ostring =
  match x with Z0 -> "0" | Zpos p -> dec_of_n (Npos p) | Zneg p -> "-" ^ dec_of_n (Npos p)

(* ---------- hex ---------- *)

let hexd = "0123456789abcdef"
let to_hex (s : ostring) : ostring =
  let b = Bytes.create (2 * String.length s) in
  String.iteri (fun i c ->
      Bytes.set b (2*i) hexd.[Char.code c lsr 4];
      Bytes.set b (2*i+1) hexd.[Char.code c land 15]) s;
  Bytes.to_string b

let hv c = match c with
  | '0'..'9' -> Char.code c - 48
  | 'a'..'f' -> Char.code c - 87
  | 'A'..'F' -> Char.code c - 55
  | _ -> failwith "bad hex"

let of_hex (h : ostring) : ostring =
  String.init (String.length h / 2) (fun i -> Char.chr (16 * hv h.[2*i] + hv h.[2*i+1]))

(* ---------- S-expressions ---------- *)

let rec print_sexp (b : Buffer.t) (v : sexp) : unit =
  match v with
  | X s -> Buffer.add_char b 'x'; Buffer.add_string b (to_hex s)
  | Nn s -> Buffer.add_char b 'n'; Buffer.add_string b s
  | Sy s -> Buffer.add_char b 's'; Buffer.add_string b s
  | L l ->
      Buffer.add_char b '(';
      List.iteri (fun i x -> if i > 0 then Buffer.add_char b ' '; print_sexp b x) l;
      Buffer.add_char b ')'

let sexp_to_string v = let b = Buffer.create 256 in print_sexp b v; Buffer.contents b

let parse_sexp (s : ostring) : sexp =
  let n = String.length s in
  let pos = ref 0 in
  let skip () = while !pos < n && (s.[!pos] = ' ' || s.[!pos] = '\r') do incr pos done in
  let atom () =
    let st = !pos in
    while !pos < n && s.[!pos] <> ' ' && s.[!pos] <> '(' && s.[!pos] <> ')' && s.[!pos] <> '\r' do incr pos done;
    String.sub s st (!pos - st) in
  let rec value () =
    skip ();
    if !pos >= n then failwith "eof" else
    if s.[!pos] = '(' then begin
      incr pos;
      let items = ref [] in
      skip ();
      while !pos < n && s.[!pos] <> ')' do items := value () :: !items; skip () done;
      if !pos >= n then failwith "unclosed";
      incr pos;
      L (List.rev !items)
    end else begin
      let a = atom () in
      if a = "" then failwith "empty atom" else
      let rest = String.sub a 1 (String.length a - 1) in
      match a.[0] with
      | 'x' -> X (of_hex rest)
      | 'n' -> Nn rest
      | 's' -> Sy rest
      | _ -> failwith ("bad atom " ^ a)
    end in
  value ()

(* accessors *)
let as_bytes = function X s -> bytes_of_string s | _ -> failwith "expected bytes"
let as_list = function L l -> l | _ -> failwith "expected list"
let as_int = function Nn s -> int_of_string s | _ -> failwith "expected number"
let as_n = function Nn s -> n_of_dec s | _ -> failwith "expected number"
let as_z = function Nn s -> z_of_dec s | _ -> failwith "expected number"
let as_sym = function Sy s -> s | _ -> failwith "expected symbol"
let of_bytes (l : byte list) : sexp = X (string_of_bytes l)
let of_n (x : n) : sexp = Nn (dec_of_n x)
let of_int (i : int) : sexp = Nn (string_of_int i)
let of_bool b = Sy (if b then "true" else "false")
let of_option f = function None -> Sy "none" | Some v -> L [Sy "some"; f v]

(* ---------- primitive oracle over stdin/stdout ---------- *)

let call (name : ostring) (args : sexp list) : sexp =
  print_string "CALL ";
  print_string (sexp_to_string (L (Sy name :: args)));
  print_newline ();
  parse_sexp (input_line stdin)

(* ---------- results ---------- *)

let rec coq_string_to_list (s : Model.string) : char list =
  match s with
  | EmptyString -> []
  | String (Ascii (b0, b1, b2, b3, b4, b5, b6, b7), r) ->
      let bit b k = if b then 1 lsl k else 0 in
      Char.chr (bit b0 0 + bit b1 1 + bit b2 2 + bit b3 3 + bit b4 4 + bit b5 5 + bit b6 6 + bit b7 7)
      :: coq_string_to_list r
let string_of_chars (s : Model.string) : ostring =
  let l = coq_string_to_list s in String.init (List.length l) (List.nth l)

let err_name = function
  | Base64DecodeError -> "Base64DecodeError" | InvalidKey -> "InvalidKey" | InvalidToken -> "InvalidToken"
  | CryptoError -> "CryptoError" | ClaimsError -> "ClaimsError" | PayloadError -> "PayloadError"

let of_result (f : 'a -> sexp) (r : 'a result) : sexp =
  match r with
  | Ok v -> L [Sy "ok"; f v]
  | Err e -> L [Sy "err"; Sy (err_name e)]
  | Panic site -> L [Sy "panic"; X (string_of_chars site)]


(* ---------- op registry (ops_*.ml files register at load time) ---------- *)
let ops : (ostring * (sexp list -> sexp)) list ref = ref []
let register name f = ops := (name, f) :: !ops
