(* ops_rng.ml — the draw table and the shape of histories under an injected failure (Rng.v) *)
type ostring = string
open Model
open Drv

(* (op_draws nBACKEND nOP) -> (n...) *)
let op_op_draws = function
  | [b; o] -> L (List.map (fun x -> of_int (int_of_nat x)) (op_draws (backend_of_nat (nat_of_int (as_int b))) (rop_of_nat (nat_of_int (as_int o)))))
  | _ -> failwith "op_draws: arity"
(* (history_shape nFAIL|snone ((n...) ...)) -> ((ok next) ...) *)
let op_history_shape = function
  | [f; ops] ->
      let fail_at = (match f with Sy "none" -> None | v -> Some (nat_of_int (as_int v))) in
      let ops = List.map (fun o -> List.map (fun x -> nat_of_int (as_int x)) (as_list o)) (as_list ops) in
      L (List.map (fun (ok, j) -> L [of_bool ok; of_int (int_of_nat j)]) (history_shape (script_rng fail_at) O ops))
  | _ -> failwith "history_shape: arity"
let () = register "op_draws" op_op_draws; register "history_shape" op_history_shape; ()
