(* claim builder (C11): RegisteredClaims::new and the setters *)
open Model
open Drv
open Ops_core

let of_z (x : z) : sexp = Nn (dec_of_z x)
let of_opt f = function None -> Sy "none" | Some v -> L [Sy "some"; f v]
let of_claims (c : claims) : sexp =
  L [of_opt of_bytes c.iss; of_opt of_bytes c.sub0; of_opt of_bytes c.aud;
     of_opt of_z c.exp; of_opt of_z c.nbf; of_opt of_z c.iat; of_opt of_bytes c.jti]

let op_claims_new = function
  | [n; d] -> of_result of_claims (claims_new (as_z n) (as_z d))
  | _ -> failwith "claims_new: arity"
let op_claims_set = function
  | [which; c; s] ->
      let c = as_claims c and s = as_bytes s in
      of_claims (match as_sym which with
                 | "iss" -> from_issuer c s
                 | "aud" -> for_audience c s
                 | "sub" -> for_subject c s
                 | "jti" -> with_token_id c s
                 | _ -> failwith "claims_set: field")
  | _ -> failwith "claims_set: arity"

let () =
  register "claims_new" op_claims_new;
  register "claims_set" op_claims_set
