(* ops_core.ml — operations for C09/C10/C11/C15 (text layer, PAE, validators) *)
type ostring = string
open Model
open Drv

(* ---------- operations ---------- *)

let op_pae args =
  match args with
  | [ps] ->
      let pieces = List.map (fun p -> List.map as_bytes (as_list p)) (as_list ps) in
      L [ of_bytes (pae pieces); L (List.map of_bytes (pae_writes pieces)) ]
  | _ -> failwith "pae: arity"

let op_pae_spec args =
  match args with
  | [ps] -> of_bytes (pae_spec (List.map as_bytes (as_list ps)))
  | _ -> failwith "pae_spec: arity"

let op_unpae args =
  match args with
  | [s] ->
      of_option (fun (ps, rest) -> L [ L (List.map of_bytes ps); of_bytes rest ]) (unpae (as_bytes s))
  | _ -> failwith "unpae: arity"

let op_b64enc = function [b] -> of_bytes (encode (as_bytes b)) | _ -> failwith "b64enc: arity"
let op_b64dec = function [s] -> of_result of_bytes (decode_vec (as_bytes s)) | _ -> failwith "b64dec: arity"
let op_b64dec_fixed = function
  | [cap; s] -> of_result of_bytes (decode_fixed (nat_of_int (as_int cap)) (as_bytes s))
  | _ -> failwith "b64dec_fixed: arity"
let op_print_paserk = function
  | [v; k; d] -> of_bytes (print_paserk (as_bytes v) (as_bytes k) (as_bytes d))
  | _ -> failwith "print_paserk: arity"
let op_parse_paserk = function
  | [v; k; s] -> of_result of_bytes (parse_paserk (as_bytes v) (as_bytes k) (as_bytes s))
  | _ -> failwith "parse_paserk: arity"
let op_parse_keyid = function
  | [v; k; s] -> of_result of_bytes (parse_keyid (as_bytes v) (as_bytes k) (as_bytes s))
  | _ -> failwith "parse_keyid: arity"
let of_token t = L [of_bytes t.t_payload; of_bytes t.t_footer]
let op_print_token = function
  | [h; sfx; p; pl; f] ->
      of_bytes (print_token (as_bytes h) (as_bytes sfx) (as_bytes p) { t_payload = as_bytes pl; t_footer = as_bytes f })
  | _ -> failwith "print_token: arity"
(* footer type: svec | sunit *)
let op_parse_token = function
  | [ft; h; sfx; p; s] ->
      (match as_sym ft with
       | "vec" -> of_result (fun (t, _) -> of_token t) (parse_token fdec_vec (as_bytes h) (as_bytes sfx) (as_bytes p) (as_bytes s))
       | "unit" -> of_result (fun (t, _) -> of_token t) (parse_token fdec_unit (as_bytes h) (as_bytes sfx) (as_bytes p) (as_bytes s))
       | _ -> failwith "parse_token: footer type")
  | _ -> failwith "parse_token: arity"

(* validators *)
let as_opt f = function Sy "none" -> None | L [Sy "some"; v] -> Some (f v) | _ -> failwith "expected option"
let as_claims = function
  | L [i; s; a; e; n; t; j] ->
      { iss = as_opt as_bytes i; sub0 = as_opt as_bytes s; aud = as_opt as_bytes a;
        exp = as_opt as_z e; nbf = as_opt as_z n; iat = as_opt as_z t; jti = as_opt as_bytes j }
  | _ -> failwith "claims"
let rec as_validator (v : sexp) : validator =
  match v with
  | L [Sy "time"; n] -> VTime (as_z n)
  | L [Sy "leeway"; n; l] -> VTimeLeeway (as_z n, as_z l)
  | L [Sy "hasexp"] -> VHasExpiry
  | L [Sy "sub"; s] -> VForSubject (as_bytes s)
  | L [Sy "iss"; s] -> VFromIssuer (as_bytes s)
  | L [Sy "aud"; s] -> VForAudience (as_bytes s)
  | L [Sy "none"] -> VNoValidation
  | L [Sy "and"; a; b] -> VAndThen (as_validator a, as_validator b)
  | L (Sy "slice" :: l) -> VSlice (List.map as_validator l)
  | L (Sy "vec" :: l) -> VVec (List.map as_validator l)
  | L [Sy "box"; a] -> VBox (as_validator a)
  | L [Sy "rc"; a] -> VRc (as_validator a)
  | L [Sy "arc"; a] -> VArc (as_validator a)
  | L [Sy "map"; k; a] -> VMap (nat_of_int (as_int k), as_validator a)
  | _ -> failwith "validator"
let op_validate = function
  | [v; c] -> of_result (fun () -> Sy "unit") (validate (as_validator v) (as_claims c))
  | _ -> failwith "validate: arity"
let op_ts_range = function _ -> L [Nn (dec_of_z ts_min); Nn (dec_of_z ts_max)]


let () =
  register "validate" op_validate;
  register "ts_range" op_ts_range;
  register "b64enc" op_b64enc;
  register "b64dec" op_b64dec;
  register "b64dec_fixed" op_b64dec_fixed;
  register "print_paserk" op_print_paserk;
  register "parse_paserk" op_parse_paserk;
  register "parse_keyid" op_parse_keyid;
  register "print_token" op_print_token;
  register "parse_token" op_parse_token;
  register "pae" op_pae;
  register "pae_spec" op_pae_spec;
  register "unpae" op_unpae;
  ()
