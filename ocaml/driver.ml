(* driver.ml — runs the extracted Gallina model (model.ml) on cases read from stdin.

   Protocol (one line each way, S-expressions):
     value ::= x<hex> | n<decimal> | s<identifier> | ( value* )
   stdin : one case per line      (op arg ...)
   stdout: while evaluating a case the model may ask for a primitive:
             CALL (name arg ...)      and then reads one line: the answer value
           finally
             RESULT value
   No Obj.magic; byte/N/nat conversions go through the extracted b2n/n2b. *)

type ostring = string
open Model

type sexp = X of ostring (* raw bytes *) | Nn of ostring (* decimal *) | Sy of ostring | L of sexp list

(* ---------- conversions ---------- *)

let rec pos_of_int (i : int) : positive =
  if i = 1 then XH else if i land 1 = 0 then XO (pos_of_int (i lsr 1)) else XI (pos_of_int (i lsr 1))

let n_of_int (i : int) : n = if i = 0 then N0 else Npos (pos_of_int i)

let rec int_of_pos (p : positive) : int =
  match p with XH -> 1 | XO q -> 2 * int_of_pos q | XI q -> 2 * int_of_pos q + 1

let int_of_n (x : n) : int = match x with N0 -> 0 | Npos p -> int_of_pos p

let byte_tab : byte array = Array.init 256 (fun i -> n2b (n_of_int i))
let int_of_byte (b : byte) : int = int_of_n (b2n b)

let bytes_of_string (s : ostring) : byte list =
  let r = ref [] in
  for i = String.length s - 1 downto 0 do r := byte_tab.(Char.code s.[i]) :: !r done;
  !r

let string_of_bytes (l : byte list) : ostring =
  let b = Buffer.create 64 in
  List.iter (fun x -> Buffer.add_char b (Char.chr (int_of_byte x))) l;
  Buffer.contents b

let rec nat_of_int (i : int) : nat = if i <= 0 then O else S (nat_of_int (i - 1))
let int_of_nat (x : nat) : int = let rec go acc = function O -> acc | S y -> go (acc + 1) y in go 0 x

(* decimal strings <-> N / Z (arbitrary precision, via repeated *10 in N) *)
let n_of_dec (s : ostring) : n =
  let ten = n_of_int 10 in
  let acc = ref N0 in
  String.iter (fun c -> acc := N.add (N.mul !acc ten) (n_of_int (Char.code c - 48))) s;
  !acc

let dec_of_n (x : n) : ostring =
  if x = N0 then "0" else begin
    let ten = n_of_int 10 in
    let b = Buffer.create 20 in
    let cur = ref x in
    while !cur <> N0 do
      let q = N.div !cur ten in
      let r = N.sub !cur (N.mul q ten) in
      Buffer.add_char b (Char.chr (48 + int_of_n r));
      cur := q
    done;
    let s = Buffer.contents b in
    String.init (String.length s) (fun i -> s.[String.length s - 1 - i])
  end

(* signed decimals <-> Z *)
let z_of_dec (s : ostring) : z =
  if String.length s > 0 && s.[0] = '-' then
    (match n_of_dec (String.sub s 1 (String.length s - 1)) with N0 -> Z0 | Npos p -> Zneg p)
  else (match n_of_dec s with N0 -> Z0 | Npos p -> Zpos p)

let dec_of_z (x : z) : ostring =
  match x with Z0 -> "0" | Zpos p -> dec_of_n (Npos p) | Zneg p -> "-" ^ dec_of_n (Npos p)

(* ---------- hex ---------- *)

let hexd = "0123456789abcdef"
let to_hex (s : ostring) : ostring =
  let b = Bytes.create (2 * String.length s) in
  String.iteri (fun i c ->
      Bytes.set b (2*i) hexd.[Char.code c lsr 4];
      Bytes.set b (2*i+1) hexd.[Char.code c land 15]) s;
  Bytes.to_string b

let hv c = match c with
  | '0'..'9' -> Char.code c - 48
  | 'a'..'f' -> Char.code c - 87
  | 'A'..'F' -> Char.code c - 55
  | _ -> failwith "bad hex"

let of_hex (h : ostring) : ostring =
  String.init (String.length h / 2) (fun i -> Char.chr (16 * hv h.[2*i] + hv h.[2*i+1]))

(* ---------- S-expressions ---------- *)

let rec print_sexp (b : Buffer.t) (v : sexp) : unit =
  match v with
  | X s -> Buffer.add_char b 'x'; Buffer.add_string b (to_hex s)
  | Nn s -> Buffer.add_char b 'n'; Buffer.add_string b s
  | Sy s -> Buffer.add_char b 's'; Buffer.add_string b s
  | L l ->
      Buffer.add_char b '(';
      List.iteri (fun i x -> if i > 0 then Buffer.add_char b ' '; print_sexp b x) l;
      Buffer.add_char b ')'

let sexp_to_string v = let b = Buffer.create 256 in print_sexp b v; Buffer.contents b

let parse_sexp (s : ostring) : sexp =
  let n = String.length s in
  let pos = ref 0 in
  let skip () = while !pos < n && (s.[!pos] = ' ' || s.[!pos] = '\r') do incr pos done in
  let atom () =
    let st = !pos in
    while !pos < n && s.[!pos] <> ' ' && s.[!pos] <> '(' && s.[!pos] <> ')' && s.[!pos] <> '\r' do incr pos done;
    String.sub s st (!pos - st) in
  let rec value () =
    skip ();
    if !pos >= n then failwith "eof" else
    if s.[!pos] = '(' then begin
      incr pos;
      let items = ref [] in
      skip ();
      while !pos < n && s.[!pos] <> ')' do items := value () :: !items; skip () done;
      if !pos >= n then failwith "unclosed";
      incr pos;
      L (List.rev !items)
    end else begin
      let a = atom () in
      if a = "" then failwith "empty atom" else
      let rest = String.sub a 1 (String.length a - 1) in
      match a.[0] with
      | 'x' -> X (of_hex rest)
      | 'n' -> Nn rest
      | 's' -> Sy rest
      | _ -> failwith ("bad atom " ^ a)
    end in
  value ()

(* accessors *)
let as_bytes = function X s -> bytes_of_string s | _ -> failwith "expected bytes"
let as_list = function L l -> l | _ -> failwith "expected list"
let as_int = function Nn s -> int_of_string s | _ -> failwith "expected number"
let as_n = function Nn s -> n_of_dec s | _ -> failwith "expected number"
let as_z = function Nn s -> z_of_dec s | _ -> failwith "expected number"
let as_sym = function Sy s -> s | _ -> failwith "expected symbol"
let of_bytes (l : byte list) : sexp = X (string_of_bytes l)
let of_n (x : n) : sexp = Nn (dec_of_n x)
let of_int (i : int) : sexp = Nn (string_of_int i)
let of_bool b = Sy (if b then "true" else "false")
let of_option f = function None -> Sy "none" | Some v -> L [Sy "some"; f v]

(* ---------- primitive oracle over stdin/stdout ---------- *)

let call (name : ostring) (args : sexp list) : sexp =
  print_string "CALL ";
  print_string (sexp_to_string (L (Sy name :: args)));
  print_newline ();
  parse_sexp (input_line stdin)

(* ---------- results ---------- *)

let rec coq_string_to_list (s : Model.string) : char list =
  match s with
  | EmptyString -> []
  | String (Ascii (b0, b1, b2, b3, b4, b5, b6, b7), r) ->
      let bit b k = if b then 1 lsl k else 0 in
      Char.chr (bit b0 0 + bit b1 1 + bit b2 2 + bit b3 3 + bit b4 4 + bit b5 5 + bit b6 6 + bit b7 7)
      :: coq_string_to_list r
let string_of_chars (s : Model.string) : ostring =
  let l = coq_string_to_list s in String.init (List.length l) (List.nth l)

let err_name = function
  | Base64DecodeError -> "Base64DecodeError" | InvalidKey -> "InvalidKey" | InvalidToken -> "InvalidToken"
  | CryptoError -> "CryptoError" | ClaimsError -> "ClaimsError" | PayloadError -> "PayloadError"

let of_result (f : 'a -> sexp) (r : 'a result) : sexp =
  match r with
  | Ok v -> L [Sy "ok"; f v]
  | Err e -> L [Sy "err"; Sy (err_name e)]
  | Panic site -> L [Sy "panic"; X (string_of_chars site)]

(* ---------- operations ---------- *)

let op_pae args =
  match args with
  | [ps] ->
      let pieces = List.map (fun p -> List.map as_bytes (as_list p)) (as_list ps) in
      L [ of_bytes (pae pieces); L (List.map of_bytes (pae_writes pieces)) ]
  | _ -> failwith "pae: arity"

let op_pae_spec args =
  match args with
  | [ps] -> of_bytes (pae_spec (List.map as_bytes (as_list ps)))
  | _ -> failwith "pae_spec: arity"

let op_unpae args =
  match args with
  | [s] ->
      of_option (fun (ps, rest) -> L [ L (List.map of_bytes ps); of_bytes rest ]) (unpae (as_bytes s))
  | _ -> failwith "unpae: arity"

let op_b64enc = function [b] -> of_bytes (encode (as_bytes b)) | _ -> failwith "b64enc: arity"
let op_b64dec = function [s] -> of_result of_bytes (decode_vec (as_bytes s)) | _ -> failwith "b64dec: arity"
let op_b64dec_fixed = function
  | [cap; s] -> of_result of_bytes (decode_fixed (nat_of_int (as_int cap)) (as_bytes s))
  | _ -> failwith "b64dec_fixed: arity"
let op_print_paserk = function
  | [v; k; d] -> of_bytes (print_paserk (as_bytes v) (as_bytes k) (as_bytes d))
  | _ -> failwith "print_paserk: arity"
let op_parse_paserk = function
  | [v; k; s] -> of_result of_bytes (parse_paserk (as_bytes v) (as_bytes k) (as_bytes s))
  | _ -> failwith "parse_paserk: arity"
let op_parse_keyid = function
  | [v; k; s] -> of_result of_bytes (parse_keyid (as_bytes v) (as_bytes k) (as_bytes s))
  | _ -> failwith "parse_keyid: arity"
let of_token t = L [of_bytes t.t_payload; of_bytes t.t_footer]
let op_print_token = function
  | [h; sfx; p; pl; f] ->
      of_bytes (print_token (as_bytes h) (as_bytes sfx) (as_bytes p) { t_payload = as_bytes pl; t_footer = as_bytes f })
  | _ -> failwith "print_token: arity"
(* footer type: svec | sunit *)
let op_parse_token = function
  | [ft; h; sfx; p; s] ->
      (match as_sym ft with
       | "vec" -> of_result (fun (t, _) -> of_token t) (parse_token fdec_vec (as_bytes h) (as_bytes sfx) (as_bytes p) (as_bytes s))
       | "unit" -> of_result (fun (t, _) -> of_token t) (parse_token fdec_unit (as_bytes h) (as_bytes sfx) (as_bytes p) (as_bytes s))
       | _ -> failwith "parse_token: footer type")
  | _ -> failwith "parse_token: arity"

(* validators *)
let as_opt f = function Sy "none" -> None | L [Sy "some"; v] -> Some (f v) | _ -> failwith "expected option"
let as_claims = function
  | L [i; s; a; e; n; t; j] ->
      { iss = as_opt as_bytes i; sub0 = as_opt as_bytes s; aud = as_opt as_bytes a;
        exp = as_opt as_z e; nbf = as_opt as_z n; iat = as_opt as_z t; jti = as_opt as_bytes j }
  | _ -> failwith "claims"
let rec as_validator (v : sexp) : validator =
  match v with
  | L [Sy "time"; n] -> VTime (as_z n)
  | L [Sy "leeway"; n; l] -> VTimeLeeway (as_z n, as_z l)
  | L [Sy "hasexp"] -> VHasExpiry
  | L [Sy "sub"; s] -> VForSubject (as_bytes s)
  | L [Sy "iss"; s] -> VFromIssuer (as_bytes s)
  | L [Sy "aud"; s] -> VForAudience (as_bytes s)
  | L [Sy "none"] -> VNoValidation
  | L [Sy "and"; a; b] -> VAndThen (as_validator a, as_validator b)
  | L (Sy "slice" :: l) -> VSlice (List.map as_validator l)
  | L (Sy "vec" :: l) -> VVec (List.map as_validator l)
  | L [Sy "box"; a] -> VBox (as_validator a)
  | L [Sy "rc"; a] -> VRc (as_validator a)
  | L [Sy "arc"; a] -> VArc (as_validator a)
  | L [Sy "map"; k; a] -> VMap (nat_of_int (as_int k), as_validator a)
  | _ -> failwith "validator"
let op_validate = function
  | [v; c] -> of_result (fun () -> Sy "unit") (validate (as_validator v) (as_claims c))
  | _ -> failwith "validate: arity"
let op_ts_range = function _ -> L [Nn (dec_of_z ts_min); Nn (dec_of_z ts_max)]

let ops : (ostring * (sexp list -> sexp)) list ref = ref [
  "validate", op_validate;
  "ts_range", op_ts_range;
  "b64enc", op_b64enc;
  "b64dec", op_b64dec;
  "b64dec_fixed", op_b64dec_fixed;
  "print_paserk", op_print_paserk;
  "parse_paserk", op_parse_paserk;
  "parse_keyid", op_parse_keyid;
  "print_token", op_print_token;
  "parse_token", op_parse_token;
  "pae", op_pae;
  "pae_spec", op_pae_spec;
  "unpae", op_unpae;
]

let register name f = ops := (name, f) :: !ops

let main () =
  try
    while true do
      let line = input_line stdin in
      if String.length line > 0 then begin
        let res =
          try
            match parse_sexp line with
            | L (Sy name :: args) ->
                (match List.assoc_opt name !ops with
                 | Some f -> f args
                 | None -> L [Sy "driver-error"; Sy ("unknown-op:" ^ name)])
            | _ -> L [Sy "driver-error"; Sy "bad-case"]
          with
          | Failure m -> L [Sy "driver-error"; X m]
          | Stack_overflow -> L [Sy "driver-error"; Sy "stack-overflow"]
        in
        print_string "RESULT ";
        print_string (sexp_to_string res);
        print_newline ()
      end
    done
  with End_of_file -> ()
let () = main ()
