(* driver.ml — runs the extracted Gallina model (model.ml) on cases read from stdin.

   Protocol (one line each way, S-expressions):
     value ::= x<hex> | n<decimal> | s<identifier> | ( value* )
   stdin : one case per line      (op arg ...)
   stdout: while evaluating a case the model may ask for a primitive:
             CALL (name arg ...)      and then reads one line: the answer value
           finally
             RESULT value
   No Obj.magic; byte/N/nat conversions go through the extracted b2n/n2b. *)

open Model

type sexp = X of string (* raw bytes *) | Nn of string (* decimal *) | Sy of string | L of sexp list

(* ---------- conversions ---------- *)

let rec pos_of_int (i : int) : positive =
  if i = 1 then XH else if i land 1 = 0 then XO (pos_of_int (i lsr 1)) else XI (pos_of_int (i lsr 1))

let n_of_int (i : int) : n = if i = 0 then N0 else Npos (pos_of_int i)

let rec int_of_pos (p : positive) : int =
  match p with XH -> 1 | XO q -> 2 * int_of_pos q | XI q -> 2 * int_of_pos q + 1

let int_of_n (x : n) : int = match x with N0 -> 0 | Npos p -> int_of_pos p

let byte_tab : byte array = Array.init 256 (fun i -> n2b (n_of_int i))
let int_of_byte (b : byte) : int = int_of_n (b2n b)

let bytes_of_string (s : string) : byte list =
  let r = ref [] in
  for i = String.length s - 1 downto 0 do r := byte_tab.(Char.code s.[i]) :: !r done;
  !r

let string_of_bytes (l : byte list) : string =
  let b = Buffer.create 64 in
  List.iter (fun x -> Buffer.add_char b (Char.chr (int_of_byte x))) l;
  Buffer.contents b

let rec nat_of_int (i : int) : nat = if i <= 0 then O else S (nat_of_int (i - 1))
let int_of_nat (x : nat) : int = let rec go acc = function O -> acc | S y -> go (acc + 1) y in go 0 x

(* decimal strings <-> N / Z (arbitrary precision, via repeated *10 in N) *)
let n_of_dec (s : string) : n =
  let ten = n_of_int 10 in
  let acc = ref N0 in
  String.iter (fun c -> acc := N.add (N.mul !acc ten) (n_of_int (Char.code c - 48))) s;
  !acc

let dec_of_n (x : n) : string =
  if x = N0 then "0" else begin
    let ten = n_of_int 10 in
    let b = Buffer.create 20 in
    let cur = ref x in
    while !cur <> N0 do
      let q = N.div !cur ten in
      let r = N.sub !cur (N.mul q ten) in
      Buffer.add_char b (Char.chr (48 + int_of_n r));
      cur := q
    done;
    let s = Buffer.contents b in
    String.init (String.length s) (fun i -> s.[String.length s - 1 - i])
  end

(* ---------- hex ---------- *)

let hexd = "0123456789abcdef"
let to_hex (s : string) : string =
  let b = Bytes.create (2 * String.length s) in
  String.iteri (fun i c ->
      Bytes.set b (2*i) hexd.[Char.code c lsr 4];
      Bytes.set b (2*i+1) hexd.[Char.code c land 15]) s;
  Bytes.to_string b

let hv c = match c with
  | '0'..'9' -> Char.code c - 48
  | 'a'..'f' -> Char.code c - 87
  | 'A'..'F' -> Char.code c - 55
  | _ -> failwith "bad hex"

let of_hex (h : string) : string =
  String.init (String.length h / 2) (fun i -> Char.chr (16 * hv h.[2*i] + hv h.[2*i+1]))

(* ---------- S-expressions ---------- *)

let rec print_sexp (b : Buffer.t) (v : sexp) : unit =
  match v with
  | X s -> Buffer.add_char b 'x'; Buffer.add_string b (to_hex s)
  | Nn s -> Buffer.add_char b 'n'; Buffer.add_string b s
  | Sy s -> Buffer.add_char b 's'; Buffer.add_string b s
  | L l ->
      Buffer.add_char b '(';
      List.iteri (fun i x -> if i > 0 then Buffer.add_char b ' '; print_sexp b x) l;
      Buffer.add_char b ')'

let sexp_to_string v = let b = Buffer.create 256 in print_sexp b v; Buffer.contents b

let parse_sexp (s : string) : sexp =
  let n = String.length s in
  let pos = ref 0 in
  let skip () = while !pos < n && (s.[!pos] = ' ' || s.[!pos] = '\r') do incr pos done in
  let atom () =
    let st = !pos in
    while !pos < n && s.[!pos] <> ' ' && s.[!pos] <> '(' && s.[!pos] <> ')' && s.[!pos] <> '\r' do incr pos done;
    String.sub s st (!pos - st) in
  let rec value () =
    skip ();
    if !pos >= n then failwith "eof" else
    if s.[!pos] = '(' then begin
      incr pos;
      let items = ref [] in
      skip ();
      while !pos < n && s.[!pos] <> ')' do items := value () :: !items; skip () done;
      if !pos >= n then failwith "unclosed";
      incr pos;
      L (List.rev !items)
    end else begin
      let a = atom () in
      if a = "" then failwith "empty atom" else
      let rest = String.sub a 1 (String.length a - 1) in
      match a.[0] with
      | 'x' -> X (of_hex rest)
      | 'n' -> Nn rest
      | 's' -> Sy rest
      | _ -> failwith ("bad atom " ^ a)
    end in
  value ()

(* accessors *)
let as_bytes = function X s -> bytes_of_string s | _ -> failwith "expected bytes"
let as_list = function L l -> l | _ -> failwith "expected list"
let as_int = function Nn s -> int_of_string s | _ -> failwith "expected number"
let as_n = function Nn s -> n_of_dec s | _ -> failwith "expected number"
let as_sym = function Sy s -> s | _ -> failwith "expected symbol"
let of_bytes (l : byte list) : sexp = X (string_of_bytes l)
let of_n (x : n) : sexp = Nn (dec_of_n x)
let of_int (i : int) : sexp = Nn (string_of_int i)
let of_bool b = Sy (if b then "true" else "false")
let of_option f = function None -> Sy "none" | Some v -> L [Sy "some"; f v]

(* ---------- primitive oracle over stdin/stdout ---------- *)

let call (name : string) (args : sexp list) : sexp =
  print_string "CALL ";
  print_string (sexp_to_string (L (Sy name :: args)));
  print_newline ();
  parse_sexp (input_line stdin)

(* ---------- operations ---------- *)

let op_pae args =
  match args with
  | [ps] ->
      let pieces = List.map (fun p -> List.map as_bytes (as_list p)) (as_list ps) in
      L [ of_bytes (pae pieces); L (List.map of_bytes (pae_writes pieces)) ]
  | _ -> failwith "pae: arity"

let op_pae_spec args =
  match args with
  | [ps] -> of_bytes (pae_spec (List.map as_bytes (as_list ps)))
  | _ -> failwith "pae_spec: arity"

let op_unpae args =
  match args with
  | [s] ->
      of_option (fun (ps, rest) -> L [ L (List.map of_bytes ps); of_bytes rest ]) (unpae (as_bytes s))
  | _ -> failwith "unpae: arity"

let ops : (string * (sexp list -> sexp)) list ref = ref [
  "pae", op_pae;
  "pae_spec", op_pae_spec;
  "unpae", op_unpae;
]

let register name f = ops := (name, f) :: !ops

let main () =
  try
    while true do
      let line = input_line stdin in
      if String.length line > 0 then begin
        let res =
          try
            match parse_sexp line with
            | L (Sy name :: args) ->
                (match List.assoc_opt name !ops with
                 | Some f -> f args
                 | None -> L [Sy "driver-error"; Sy ("unknown-op:" ^ name)])
            | _ -> L [Sy "driver-error"; Sy "bad-case"]
          with
          | Failure m -> L [Sy "driver-error"; X m]
          | Stack_overflow -> L [Sy "driver-error"; Sy "stack-overflow"]
        in
        print_string "RESULT ";
        print_string (sexp_to_string res);
        print_newline ()
      end
    done
  with End_of_file -> ()
let () = main ()
