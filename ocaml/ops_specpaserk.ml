(* ops_specpaserk.ml — the PASERK specification transcription (SpecPaserk.v) *)
type ostring = string
open Model
open Drv
let oracle = Ops_schemes.oracle
let ob = of_option of_bytes

(* (spec_pie sA|sB h wk ptk n) *)
let op_spec_pie = function
  | [f; h; wk; p; n] ->
      let h = as_bytes h and wk = as_bytes wk and p = as_bytes p and n = as_bytes n in
      of_bytes (match as_sym f with
                | "A" -> spec_pieA oracle h wk p n
                | "B" -> spec_pieB oracle h wk p n
                | s -> failwith ("family " ^ s))
  | _ -> failwith "spec_pie: arity"
(* (spec_pwA h pw ptk s nITER n) *)
let op_spec_pwA = function
  | [h; pw; p; s; i; n] -> of_bytes (spec_pwA oracle (as_bytes h) (as_bytes pw) (as_bytes p) (as_bytes s) (as_n i) (as_bytes n))
  | _ -> failwith "spec_pwA: arity"
(* (spec_pwB h pw ptk s nMEM nTIME nPARA n) *)
let op_spec_pwB = function
  | [h; pw; p; s; m; t; q; n] ->
      ob (spec_pwB oracle (as_bytes h) (as_bytes pw) (as_bytes p) (as_bytes s) (as_n m) (as_n t) (as_n q) (as_bytes n))
  | _ -> failwith "spec_pwB: arity"
let op_spec_seal = function
  | [v; pk; pdk; r] ->
      let pk = as_bytes pk and pdk = as_bytes pdk and r = as_bytes r in
      (match as_sym v with
       | "v3" -> ob (spec_seal_v3 oracle pk pdk r)
       | "v1" -> ob (spec_seal_v1 oracle pk pdk r)
       | s -> failwith ("version " ^ s))
  | [v; ver; xpk; pdk; r] when as_sym v = "x" ->
      of_bytes (spec_seal_x oracle (as_bytes ver) (as_bytes xpk) (as_bytes pdk) (as_bytes r))
  | _ -> failwith "spec_seal: arity"

let () =
  register "spec_pie" op_spec_pie; register "spec_pwA" op_spec_pwA; register "spec_pwB" op_spec_pwB;
  register "spec_seal" op_spec_seal;
  ()
