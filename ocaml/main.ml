(* main.ml — read cases, dispatch to registered ops *)
type ostring = string
open Drv
let main () =
  try
    while true do
      let line = input_line stdin in
      if String.length line > 0 then begin
        let res =
          try
            match parse_sexp line with
            | L (Sy name :: args) ->
                (match List.assoc_opt name !ops with
                 | Some f -> f args
                 | None -> L [Sy "driver-error"; Sy ("unknown-op:" ^ name)])
            | _ -> L [Sy "driver-error"; Sy "bad-case"]
          with
          | Failure m -> L [Sy "driver-error"; X m]
          | Stack_overflow -> L [Sy "driver-error"; Sy "stack-overflow"]
        in
        print_string "RESULT ";
        print_string (sexp_to_string res);
        print_newline ()
      end
    done
  with End_of_file -> ()
let () = main ()
