(* ops_schemes.ml — token schemes (Local.v, Public.v) over the primitive oracle.
   The oracle is ONE closure: it prints CALL (name args...) and reads the answer list. *)
type ostring = string
open Model
open Drv

let oracle (name : Model.string) (args : byte list list) : byte list list =
  match call (string_of_chars name) (List.map of_bytes args) with
  | L l -> List.map as_bytes l
  | _ -> failwith "oracle: bad answer"

let rb = of_result of_bytes

(* (local_seal sBACKEND key enc payload footer aad) *)
let op_local_seal = function
  | [b; k; e; p; f; a] ->
      let k = as_bytes k and e = as_bytes e and p = as_bytes p and f = as_bytes f and a = as_bytes a in
      rb (match as_sym b with
          | "v1" -> v1_local_seal oracle k e p f a
          | "v2" -> v2_local_seal oracle k e p f a
          | "v3" -> v3_local_seal oracle k e p f a
          | "v3-aws-lc" -> lc_local_seal oracle k e p f a
          | "v4" -> v4_local_seal oracle k e p f a
          | "v4-sodium" -> na_local_seal oracle k e p f a
          | s -> failwith ("backend " ^ s))
  | _ -> failwith "local_seal: arity"

let op_local_unseal = function
  | [b; k; e; p; f; a] ->
      let k = as_bytes k and e = as_bytes e and p = as_bytes p and f = as_bytes f and a = as_bytes a in
      rb (match as_sym b with
          | "v1" -> v1_local_unseal oracle k e p f a
          | "v2" -> v2_local_unseal oracle k e p f a
          | "v3" -> v3_local_unseal oracle k e p f a
          | "v3-aws-lc" -> lc_local_unseal oracle k e p f a
          | "v4" -> v4_local_unseal oracle k e p f a
          | "v4-sodium" -> na_local_unseal oracle k e p f a
          | s -> failwith ("backend " ^ s))
  | _ -> failwith "local_unseal: arity"

(* (public_seal sBACKEND sk enc payload footer aad aux) *)
let op_public_seal = function
  | [b; k; e; p; f; a; x] ->
      let k = as_bytes k and e = as_bytes e and p = as_bytes p and f = as_bytes f and a = as_bytes a and x = as_bytes x in
      rb (match as_sym b with
          | "v1" -> v1_public_seal oracle k e p f a x
          | "v2" -> v2_public_seal oracle k e p f a
          | "v3" -> v3_public_seal oracle k e p f a
          | "v3-aws-lc" -> lc_public_seal oracle k e p f a x
          | "v4" -> v4_public_seal oracle k e p f a
          | "v4-sodium" -> na_public_seal oracle k e p f a
          | s -> failwith ("backend " ^ s))
  | _ -> failwith "public_seal: arity"

let op_public_unseal = function
  | [b; k; e; p; f; a] ->
      let k = as_bytes k and e = as_bytes e and p = as_bytes p and f = as_bytes f and a = as_bytes a in
      rb (match as_sym b with
          | "v1" -> v1_public_unseal oracle k e p f a
          | "v2" -> v2_public_unseal oracle k e p f a
          | "v3" -> v3_public_unseal oracle k e p f a
          | "v3-aws-lc" -> lc_public_unseal oracle k e p f a
          | "v4" -> v4_public_unseal oracle k e p f a
          | "v4-sodium" -> na_public_unseal oracle k e p f a
          | s -> failwith ("backend " ^ s))
  | _ -> failwith "public_unseal: arity"

let () =
  register "local_seal" op_local_seal;
  register "local_unseal" op_local_unseal;
  register "public_seal" op_public_seal;
  register "public_unseal" op_public_unseal;
  ()
