#!/bin/sh
# builds the extracted model + driver into ./modelrun   (run from any cwd)
#   Extract.v is generated from coq/extraction/parts/*.txt (lines: "Require <Module>" or identifiers)
set -e
cd "$(dirname "$0")"
python3 ../tools/gen_extract.py
coqc -Q ../coq/theories PV ../coq/extraction/Extract.v >/dev/null
ocamlfind ocamlopt -w -a -c model.mli
ocamlfind ocamlopt -O2 -w -a -c model.ml 2>/dev/null || ocamlfind ocamlopt -w -a -c model.ml
ocamlfind ocamlopt -w -a -c drv.ml
OPS=""
for f in ops_core.ml ops_schemes.ml $(ls ops_*.ml | grep -v -e ops_core.ml -e ops_schemes.ml); do ocamlfind ocamlopt -w -a -c "$f"; OPS="$OPS ${f%.ml}.cmx"; done
ocamlfind ocamlopt -w -a -c main.ml
ocamlfind ocamlopt -w -a -o modelrun model.cmx drv.cmx $OPS main.cmx
