#!/bin/sh
# builds the extracted model + driver into ./modelrun   (run from any cwd)
set -e
cd "$(dirname "$0")"
coqc -Q ../coq/theories PV ../coq/extraction/Extract.v >/dev/null
ocamlfind ocamlopt -O2 -w -a -c model.mli 2>/dev/null || ocamlfind ocamlopt -w -a -c model.mli
ocamlfind ocamlopt -w -a -c model.ml
ocamlfind ocamlopt -w -a -c driver.ml
ocamlfind ocamlopt -w -a -o modelrun model.cmx driver.cmx
