#!/bin/sh
# builds the extracted model + driver into ./modelrun   (run from any cwd)
#   Extract.v is generated from coq/extraction/parts/*.txt (lines: "Require <Module>" or identifiers)
set -e
cd "$(dirname "$0")"
python3 ../tools/gen_extract.py
# the modules the extraction imports must be compiled (and up to date) first
MODS=$(cat ../coq/extraction/parts/*.txt | sed -n 's/^Require //p' | tr ' ' '\n' | sort -u | sed 's|^|theories/|; s|$|.vo|' | tr '\n' ' ')
if [ -f ../coq/Makefile ]; then (cd ../coq && make -j16 $MODS >/dev/null 2>&1) || (cd ../coq && make $MODS 2>&1 | tail -20; exit 1); fi
coqc -Q ../coq/theories PV ../coq/extraction/Extract.v >/dev/null
ocamlfind ocamlopt -w -a -c model.mli
ocamlfind ocamlopt -O2 -w -a -c model.ml 2>/dev/null || ocamlfind ocamlopt -w -a -c model.ml
ocamlfind ocamlopt -w -a -c drv.ml
OPS=""
for f in ops_core.ml ops_schemes.ml $(ls ops_*.ml | grep -v -e ops_core.ml -e ops_schemes.ml); do ocamlfind ocamlopt -w -a -c "$f"; OPS="$OPS ${f%.ml}.cmx"; done
ocamlfind ocamlopt -w -a -c main.ml
ocamlfind ocamlopt -w -a -o modelrun model.cmx drv.cmx $OPS main.cmx
